#!/bin/bash
# run every check on every combo facts dir; print which checks fire
cd /verif
PIDS="C01 C02 C03 C04 C05 C06 C07 C08 C09 C10 C11 C12 C13 C15 C16 C17 C18 C19 C20"
TMP=$(mktemp -d /tmp/cx.XXXX)
run() { d=$1; p=$2; n=$(VERIF_EVIDENCE_DIR=$TMP/ev.$$ python3 -m sa.main $p --facts $d 2>/dev/null | grep -c "^VIOLATION"); echo "$(basename $d) $p $n" > $TMP/$(basename $d).$p.cnt; }
export -f run; export TMP
(for d in /tmp/combofacts/${1:-m}*; do [ -f $d/.done ] || continue; for p in $PIDS; do echo "$d $p"; done; done) | xargs -P 14 -L 1 bash -c 'run $0 $1'
cat $TMP/*.cnt | python3 -c "
import sys
m={}
for l in sys.stdin:
    s,p,n=l.split(); m.setdefault(s,{})[p]=int(n)
for s in sorted(m):
    print(s, 'caught by', [p for p in sorted(m[s]) if m[s][p]])
"
rm -rf $TMP
