#!/usr/bin/env python3
"""rulecover.py: which obligations of the clean tree are ever seen failing on the corpora (seeds, mutants)?  An obligation kind that
no stored change makes fail is not known to be effective (it may be vacuous, like the attribute rule replaced in round 4).
usage: rulecover.py <clean facts dir> ; corpora are the /tmp/*facts directories built by tools/reextract.sh"""
import sys, os, json, glob, re, subprocess, tempfile
from concurrent.futures import ThreadPoolExecutor
PIDS = "C01 C02 C03 C04 C05 C06 C07 C08 C09 C10 C11 C12 C13 C15 C16 C17 C18 C19 C20".split()
ROOT = os.path.join(os.path.dirname(os.path.abspath(__file__)), '..')


def kind(c):
    # construct labels carry instance data after ':' / in brackets; the kind is what is left
    c = re.sub(r'\[.*?\]', '[]', c)
    parts = c.split(':')
    if parts[0] == 'arm' and len(parts) >= 3:
        return 'arm:' + parts[2]
    if parts[0] in ('assert', 'index', 'unwrap', 'take-form') and len(parts) >= 2:
        return parts[0] + ':' + parts[1]
    if len(parts) >= 2 and parts[0] in ('SendPadding', 'BlockOutgoing', 'UpdateTimer', 'Cancel', 'counter_a', 'counter_b'):
        return '*:' + parts[1]
    return parts[0]


def run(args):
    facts, pid = args
    tmp = tempfile.mktemp(prefix='obs')
    env = dict(os.environ, VERIF_DUMP_OBS=tmp, VERIF_EVIDENCE_DIR=tempfile.mkdtemp(prefix='ev'))
    subprocess.run(['python3', '-m', 'sa.main', pid, '--facts', facts], cwd=ROOT, env=env, capture_output=True)
    out = []
    if os.path.exists(tmp):
        out = [json.loads(l) for l in open(tmp)]
        os.unlink(tmp)
    return facts, pid, out


clean = sys.argv[1]
jobs = [(clean, p) for p in PIDS]
for d in sorted(glob.glob('/tmp/seedfacts/C*') + glob.glob('/tmp/seed[2345]facts/C*') + glob.glob('/tmp/combofacts/*') + glob.glob('/tmp/mutfacts/*')):
    if not os.path.isfile(d + '/.done'):
        continue
    b = os.path.basename(d)
    if b.startswith('C') and b[:3] in PIDS:
        jobs.append((d, b[:3]))
    else:
        # refactoring+defect controls and hand-written mutants: the checks their meta.json names
        name = b if os.path.isdir('/verif/mutants/' + b) else 'RM_' + b[1:]
        try:
            exp = json.load(open('/verif/mutants/%s/meta.json' % name))['expected_caught_by']
        except Exception:
            exp = PIDS
        jobs += [(d, p) for p in exp]
with ThreadPoolExecutor(12) as ex:
    res = list(ex.map(run, jobs))
pinned, failing = {}, {}
for facts, pid, obs in res:
    for (p, r, c, ok) in obs:
        k = (p, r, kind(c))
        if facts == clean:
            pinned[k] = pinned.get(k, 0) + 1
        elif not ok:
            failing.setdefault(k, set()).add(os.path.basename(os.path.dirname(facts)) + '/' + os.path.basename(facts))
never = sorted(k for k in pinned if k not in failing)
print('obligation kinds on the clean tree: %d, seen failing on some stored change: %d, never: %d' % (len(pinned), len(pinned) - len(never), len(never)))
for k in never:
    print('  never-failing', k, 'x%d' % pinned[k])
json.dump({'kinds': len(pinned), 'never_failing': [list(k) for k in never]}, open(os.path.join(ROOT, 'rulecover.json'), 'w'), indent=1)
