#!/usr/bin/env python3
"""mutretest.py <campaign.jsonl> [--jobs J]: re-run the mutants the test suite kills and no check reported against the current rules;
prints those still unreported.  (facts are re-extracted; the campaign file is not modified)"""
import sys, os, json, subprocess, tempfile, shutil
from concurrent.futures import ThreadPoolExecutor
sys.path.insert(0, os.path.dirname(os.path.abspath(__file__)))
import mutcamp

def main():
    recs = [json.loads(l) for l in open(sys.argv[1])]
    jobs = int(sys.argv[sys.argv.index('--jobs') + 1]) if '--jobs' in sys.argv else 4
    todo = [r for r in recs if r.get('compiles') and r.get('tests_fail') and not r.get('caught_by')]
    print('to retest: %d' % len(todo), flush=True)
    base = '/tmp/mcr'
    shutil.rmtree(base, ignore_errors=True); os.makedirs(base)
    mutcamp.sh('git -C /repo worktree prune')
    with ThreadPoolExecutor(jobs) as ex:
        slots = list(ex.map(lambda k: mutcamp.Slot(k, base), range(jobs)))
    import threading
    lock = threading.Lock(); free = list(slots); out = []
    def work(r):
        with lock: s = free.pop()
        try:
            path = os.path.join(s.wt, r['file'])
            lines = open(path).read().split('\n')
            assert lines[r['line'] - 1].strip() == r['old'], (r['file'], r['line'])
            ind = lines[r['line'] - 1][:len(lines[r['line'] - 1]) - len(lines[r['line'] - 1].lstrip())]
            lines[r['line'] - 1] = ind + r['new']
            open(path, 'w').write('\n'.join(lines))
            cb = s.checks() if s.extract() else ['<no facts>']
            mutcamp.sh('git checkout -- .', cwd=s.wt)
            with lock: out.append((r, cb))
            print(('caught %s' % cb if cb else 'STILL MISSED'), r['file'].split('/')[-1], r['line'], r['kind'], '|', r['old'][:60], '=>', r['new'][:50], flush=True)
        finally:
            with lock: free.append(s)
    with ThreadPoolExecutor(jobs) as ex:
        list(ex.map(work, todo))
    for s in slots:
        mutcamp.sh('git -C /repo worktree remove --force %s' % s.wt)
    shutil.rmtree(base, ignore_errors=True)
    print('still missed: %d of %d' % (sum(1 for r, cb in out if not cb), len(out)))
main()
