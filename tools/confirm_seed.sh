#!/bin/bash
# confirm4.sh <PID> <A|B> : confirm a round-4 seed on the current /repo HEAD. Output: ${SEEDOUT:-/tmp/seed4_out}/<PID>/<X>/confirm.json
P=$1; X=$2; D=${SEEDOUT:-/tmp/seed4_out}/$P/$X
export CARGO_NET_OFFLINE=true CARGO_TARGET_DIR=/tmp/ctgt/${SLOT:-0}
W=$(mktemp -d /tmp/cf.XXXXXX); rmdir $W
git -C /repo worktree add -q --detach $W HEAD || exit 1
applies=false; suite=false; demofail=false; demopass=false
DEST=$(python3 -c "import json;print(json.load(open('$D/meta.json'))['demo_dest'])")
CMD=$(python3 -c "import json;print(json.load(open('$D/meta.json'))['demo_cmd'])")
if git -C $W apply $D/patch.diff 2>/dev/null; then
  applies=true
  (cd $W && cargo test --workspace --no-fail-fast --offline > $D/suite.log 2>&1) && suite=true
  mkdir -p $(dirname $W/$DEST); cp $D/demo.rs $W/$DEST
  (cd $W && eval "$CMD" > $D/demo_with.log 2>&1) || demofail=true
  git -C $W apply -R $D/patch.diff
  (cd $W && eval "$CMD" > $D/demo_without.log 2>&1) && demopass=true
fi
echo "{\"applies\":$applies,\"suite_passes_with_change\":$suite,\"demo_fails_with_change\":$demofail,\"demo_passes_without_change\":$demopass}" > $D/confirm.json
echo "$P $X $(cat $D/confirm.json)"
git -C /repo worktree remove --force $W
