#!/bin/bash
# mk.sh <name> <refactor patch> <file> <perl -0pe expr>  : refactor + mutation -> /tmp/combo/<name>.patch and facts in /tmp/combofacts/<name>
N=$1; P=$2; F=$3; E=$4
W=$(mktemp -d /tmp/cw.XXXXXX); rmdir $W
git -C /repo worktree add -q --detach $W HEAD || exit 1
git -C $W apply $P || { echo "refactor does not apply"; git -C /repo worktree remove --force $W; exit 1; }
cp $W/$F /tmp/combo/$N.before
perl -0pi -e "$E" $W/$F
if cmp -s $W/$F /tmp/combo/$N.before; then echo "$N: MUTATION DID NOT CHANGE ANYTHING"; fi
rm -f /tmp/combo/$N.before
git -C $W diff > /tmp/combo/$N.patch
git -C /repo worktree remove --force $W
mkdir -p /tmp/combofacts
/verif/tools/seedfacts.sh /tmp/combo/$N.patch /tmp/combofacts/$N
[ -f /tmp/combofacts/$N/.done ] && echo "$N facts ok" || { echo "$N BUILD FAILED"; tail -5 /tmp/combofacts/$N.log; }
