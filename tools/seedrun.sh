#!/bin/bash
# seedrun.sh <PID...> : run the given checks against all extracted seed facts, print a matrix
cd /verif
for d in /tmp/seedfacts/C*_[AB]; do
  [ -f $d/.done ] || continue
  s=$(basename $d); line="$s:"
  for p in "$@"; do
    n=$(python3 -m sa.main $p --facts $d 2>/dev/null | grep -c "^VIOLATION")
    line="$line $p=$n"
  done
  echo "$line"
done
