#!/usr/bin/env python3
# allchk <factsdir> [PIDs...] : run every check on one facts dir, print those that fire
import sys, subprocess, os
from concurrent.futures import ThreadPoolExecutor
d = sys.argv[1]
pids = sys.argv[2:] or "C01 C02 C03 C04 C05 C06 C07 C08 C09 C10 C11 C12 C13 C15 C16 C17 C18 C19 C20".split()
def run(p):
    env = dict(os.environ, VERIF_EVIDENCE_DIR='/tmp/ev_x/%d_%s' % (os.getpid(), p))
    r = subprocess.run(['python3', '-m', 'sa.main', p, '--facts', d], cwd=os.environ.get('VERIF_ROOT', '/verif'), env=env, capture_output=True, text=True)
    return p, sum(1 for l in r.stdout.splitlines() if l.startswith('VIOLATION'))
with ThreadPoolExecutor(10) as ex:
    res = list(ex.map(run, pids))
print(os.path.basename(d), 'caught by', [p for p, n in res if n])
