#!/bin/bash
# full regression from a snapshot of /verif/sa + tools
R=${1:-/tmp/r6}; rm -rf /tmp/verif_snap $R; mkdir -p /tmp/verif_snap $R
cp -r /verif/sa /verif/tools /verif/known_findings.json /tmp/verif_snap/ 2>/dev/null
cp /verif/*.json /tmp/verif_snap/ 2>/dev/null
cd /tmp/verif_snap
for s in tools/*.sh /tmp/combo/run.sh; do sed "s|cd /verif|cd /tmp/verif_snap|" $s > /tmp/verif_snap/$(basename $s); chmod +x /tmp/verif_snap/$(basename $s); done
./matrix.sh $R/m1.json > $R/m1.txt 2>&1
./matrix2.sh /tmp/seed2facts $R/m2.json > $R/m2.txt 2>&1
./matrix2.sh /tmp/seed3facts $R/m3.json > $R/m3.txt 2>&1
./matrix2.sh /tmp/seed4facts $R/m4.json > $R/m4.txt 2>&1
./matrix2.sh /tmp/seed5facts $R/m5.json > $R/m5.txt 2>&1
./run.sh > $R/combo.txt 2>&1
./refacrun.sh /tmp/refacfacts > $R/rf1.txt 2>&1
./refacrun.sh /tmp/refac2facts > $R/rf2.txt 2>&1
./refacrun.sh /tmp/fix3facts > $R/rf3.txt 2>&1
./refacrun.sh /tmp/refac4facts > $R/rf4.txt 2>&1
./refacrun.sh /tmp/fix4facts > $R/rf5.txt 2>&1
./refacrun.sh /tmp/refac6facts > $R/rf6.txt 2>&1
echo ALLDONE > $R/done
