#!/bin/bash
# seedfacts.sh <patch.diff> <out facts dir>  -- facts of /repo HEAD + patch, via a throw-away worktree
P=$1; OUT=$2
case "$OUT" in /tmp/*) ;; *) echo "seedfacts.sh: refusing to write facts to $OUT"; exit 1;; esac
W=$(mktemp -d /tmp/sw.XXXXXX); rmdir $W
git -C /repo worktree add -q --detach $W HEAD || exit 1
if git -C $W apply $P; then
  rm -rf $OUT; /verif/driver/run.sh $W $OUT > $OUT.log 2>&1 && touch $OUT/.done
else echo "patch does not apply: $P"; fi
git -C /repo worktree remove --force $W
