#!/usr/bin/env python3
"""Regenerates /verif/MANIFEST.json from the table below."""
import json
import os

VERIF = os.path.dirname(os.path.dirname(os.path.abspath(__file__)))

CLAIMS = {
    'C01': ('4 C01', 'panic-site inventory with re-verified discharge classes (bounds facts, typestate, guarded arithmetic), SCC and loop-shape analysis over MIR',
            'Every Assert terminator and every call to a partial API in maybenot\'s own code reachable from Framework::new/trigger_events is placed in a discharge class whose premise is re-established on this tree by path-sensitive dataflow over MIR (valid machine index, Regular typestate of current_state, guarded subtraction, validated constructor, constant or guarded range); the call graph has one known recursion whose fuel (once-per-call flags) is checked; every loop is a finite for-desugaring. This decides absence of panics/overflow/unbounded recursion or loops originating in maybenot for all inputs, which a test can only sample.',
            'Assumes the caller\'s R/T/M implementations do not panic, < 2^63 events, rand/rand_distr internals (C13 covers the interface), every CFG path feasible. Trusted: rustc MIR + resolver, the fact extractor, the Python engines.'),
    'C02': ('4 C02', 'path-sensitive must-consult analysis, comparison table and path-count accounting over MIR',
            'For every path of below_limit_padding that can allow padding, the budget edge or BOTH fraction gates were crossed; operators/operands of each comparison match the stated table; the counters are incremented exactly once in the right arms and written nowhere else; scheduling is gated by the predicate. Decides the gating/completeness/strictness/accounting clauses for all inputs; floating point ratio values are not decided.',
            'Every CFG path is treated as feasible; fractions NaN-free by C12.R1. Trusted: rustc MIR, extractor, engines.'),
    'C03': ('4 C03', 'path-sensitive must-consult analysis, operand provenance of the blocked-share quotients, writer inventory, trait item inventory',
            'Same shape as C02 for blocking: replace-while-active, budget edge or both fraction gates on every allowing path; ongoing blocking is added on every path where blocking_active holds; blocking_started only set when not active; BlockingEnd adds only the saturating elapsed time; the Instant trait exposes only saturating_duration_since.',
            'Values of quotients (0/0) not decided; caller\'s Instant honours the documented contract; every CFG path feasible.'),
    'C04': ('4 C04', 'who-may-write inventory, translation-table extraction, clamp-shape matching, dominance of the END check',
            'Slot discipline (fill(None) dominates every return, stores indexed by the machine parameter carry MachineId(that index)), exhaustive Action->TriggerAction field table, min(sample, <= 24h const) before the saturating cast (helpers inlined), END check dominates every state store and scheduling.',
            'f64::round/cast arithmetic not evaluated; Duration::from_micros of the caller monotone.'),
    'C05': ('4 C05', 'ambient-effect closure over the cross-crate call graph; derived-impl inventory; order skeleton',
            'No wall clock, OS randomness, hash-order iteration, environment, thread-local or mutable static is reachable from the framework entry points through maybenot, rand, rand_core, rand_distr (generic MIR, hence for every R, T, M); Clone impls are derived; events are processed in slice order, internal events raised by direct calls. Only the purity/clone/order-skeleton clauses are decided, NOT agreement with the documented semantics over histories.',
            'std functions without MIR judged by name against the effect-source table; caller\'s type parameters are pure.'),
    'C06': ('4 C06', 'value-provenance rules on State::sample_state (half-open constant range, update-before-compare, strictness, target identity)',
            'Decides selection by to_usize on writer and reader side, a single draw from the half-open constant range 0.0..1.0, sum += p before the strict r < sum test, returned target belongs to the same element, residual None. The measure of each target over the draw values is not decided.',
            'f32 summation and rand float generation not evaluated; probabilities validated by C12.'),
    'C07': ('4 C07', 'writer inventory of state_limit with edge guards, call-site guards of decrement_limit, completeness of the LimitReached test',
            'state_limit is (re)sampled exactly once on every state-changing path and never on self-transitions, from the entered state; decrement only in the three completion arms behind Unchanged && != END for the event\'s own id; LimitReached raised on every path where the post-decrement limit is 0 with a limited action (no bypassing return) after clearing the slot; every non-false predicate return is state_limit > 0.',
            'Counts over concrete histories not decided; every CFG path feasible.'),
    'C08': ('4 C08', 'operation table with store markers on every path, copy/sample provenance, zero-detection guard, flag inventory',
            'Exactly one store per Operation variant with saturating_add/sub/set values (no wrapping or checked arithmetic), change from the other counter\'s pre-update value or sample_value of the same spec, CounterZero requested exactly under old != 0 && new == 0 && !flag[mi].k with that same flag set, flags per machine and per counter and reset first thing in trigger_events, update_counter before schedule_action.',
            'Sampled magnitudes not decided; every CFG path feasible.'),
    'C09': ('4 C09', 'writer inventory of signal_pending, path guards of the All/AllExcept constructions, loop-shape and take() discipline of the delivery round',
            'All only after a different machine, AllExcept(own index) only for a lone signaller, signal arm changes nothing else; round over 0..runtime.len() calling transition(mi, Signal) on every iteration except excluded == mi; second round behind a second take().is_some() for the excluded index; pending consumed again on every path after the first round; exactly two Signal call sites.',
            'Delivery counts over concrete histories not decided (all CFG paths assumed feasible); ended machines filtered by C04.R4.'),
    'C10': ('4 C10', 'shared-write and index-use inventory in the per-machine step functions; delivery completeness of global events',
            'Every write in the step functions goes through an element selected by the machine index parameter or to a sanctioned shared field; no per-machine vector is indexed by anything else; every global event reaches transition(mi, same event) for every machine on every path, id-carrying events return early only when out of range.',
            'Framework-wide budgets, shared blocking state and signals are sanctioned couplings.'),
    'C11': ('4 C11', 'writer/reader agreement of resolved calls and constants, who-may-call on the ZlibDecoder, validate-before-Ok, derive inventory, constant-bound slice guards',
            'Pipeline structure only: same bincode options/limit/base64 engine/version on both sides, the decoder is only read once into a MAX_DECOMPRESSED_SIZE buffer (no unbounded inflate reachable), Ok only after validate, every reachable type has derived serde impls without attributes, str slices/unwrap of from_str guarded, constant-bound slices of the v1 parser covered by length guards. Behaviour of flate2/bincode/base64 is not decided.',
            'One read returns the whole payload; non-constant bounds in the v1 parser out of scope (reported, not judged).'),
    'C12': ('4 C12', 'NaN-safe range facts on every Ok path, per-iteration obligations in the validation loops, exhaustive coverage of the validate tree over the ADT table',
            'Every Ok path of the validators crosses NaN-rejecting edges for each fraction/probability; every transition element has target bound, duplicate and probability checks; per-event sums bounded; every state/action/counter/dist field validated with ? (exhaustive over variants and Dist-typed fields); zero and too many states rejected; Ok(machine) only after validate on all constructors.',
            'f32 summation error at the bound not decided; serde users re-validated by Framework::new.'),
    'C13': ('4 C13', 'sibling agreement of resolved constructors, NaN-absorbing clamp shape, six rejecting edges of the Uniform arm, guard constants, saturating casts',
            'validate and dist_sample call the same rand_distr constructor with the same field-to-argument map for every variant; every return of Dist::sample is max(0.0, x) and min(.., max) exactly when max > 0 (clamp rejected); gen_range only on the half-open range behind low != high; speed guards present; consumers use saturating casts. Termination/panic-freedom of rand_distr samplers is NOT decided.',
            'rand_distr internals trusted for validated parameters (inventoried in the thorough tier).'),
    'C15': ('4 C15', 'producer table of packet events over all SimEvent constructions and pushes, path counts per arm, queue field exhaustiveness',
            'No code path creates, duplicates, drops (pop without re-push) or re-labels a packet event or a receive without its send; TunnelRecv carries the network delay and the opposite side; every event heap is consulted by len/no_normal_packets; the trace is sorted by time before return. Ordering/time behaviour of the queues and the end-of-run count are not decided.',
            'Every CFG path feasible.'),
    'C16': ('4 C16', 'handler tables with store markers, Option-slot typestate, producer inventory, side-consistency facts in peek_queue',
            'Expiry and bypass flag stored together under replace-or-later guard with the stated values, BlockingBegin on every path, expiry clears the expiring side and builds the only BlockingEnd, bypass decision uses the event\'s own side. Known finding F7 (slot may be None when BlockingBegin is produced) is listed by its two keys.',
            'Which queued packet leaves while blocked is not decided.'),
    'C17': ('4 C17', 'handler tables: unconditional slot overwrite, exhaustive Cancel table, fire-once lookup, event translation, non-strict eligibility',
            'trigger_update overwrites the machine\'s slot on every path with clone(action) at now + timeout + trigger_delay; Cancel clears exactly the named slots; do_scheduled_action clears the due slot and stops, translates SendPadding->PaddingSent / BlockOutgoing->BlockingBegin with the action\'s fields; due-now actions are eligible.',
            'That the due action is picked before time passes it is not decided beyond eligibility.'),
    'C18': ('4 C18', 'handler tables: start rule on every qualifying path, store/TimerBegin pairing, fire-once expiry, non-strict eligibility',
            'The timer is (re)started on every path with replace, no running timer, or a later expiry; slot store and TimerBegin push occur on exactly the same paths; do_internal_timer clears the due slot, stops, and names the slot index at the target time; due-now timers are eligible.',
            'Expiry selection order among several due items not decided.'),
    'C19': ('4 C19', 'ambient-effect closure of the simulator with a sanctioned table, seed derivation, control-region purity of the filters, divisor casts, stop structure',
            'Effects reachable from sim_advanced are exactly the sanctioned ones and thread_rng is behind the None seed; client/server seeds are seed and seed.wrapping_add(1); the filter flags control nothing but the trace push; no narrowing cast feeds a divisor; every loop iteration counts and tests both limits; pick_next recursion follows a consuming step.',
            'The BUG: assertions, monotone time and exact sub-sequence equality under max_trace_length are not decided.'),
    'C20': ('4 C20', 'translation tables, C header parser vs repr(C) ADTs, unsafe-operation inventory, null-test-before-use facts, argument provenance',
            'Field-for-field tables of convert_action/convert_event/From impls, header constants/layout/prototypes equal to the crate\'s, output slice bounded by num_machines and count written before every Ok, unsafe operations exactly the enumerated table, every non-exempt pointer tested before use, fractions and machine strings passed through unchanged with the stated error codes.',
            'Behaviour of the wrapped framework is C01-C10; cbindgen naming conventions.'),
}


def main():
    checks = []
    for pid, (ref, tech, text, note) in sorted(CLAIMS.items()):
        checks.append({
            'property_id': pid,
            'quick_cmd': './check %s --tier quick' % pid,
            'thorough_cmd': './check %s --tier thorough' % pid,
            'evidence_file': '/verif/evidence/%s.json' % pid,
            'replay_cmd_template': './check %s --tier quick   # the replay file {path} names rule, function, construct and site' % pid,
            'engine': 'mnv-facts + sa',
            'level_claimed': {'category': 'other', 'text': text, 'design_ref': 'DESIGN.md section ' + ref},
            'level_note': note,
            'technique': 'static analysis: ' + tech,
        })
    m = {
        'version': 1,
        'setup_cmd': 'cd /verif/driver && CARGO_NET_OFFLINE=true cargo build --release --offline',
        'hooks': {
            'guard': 'none (no source hooks: the checks read rustc\'s type-checked MIR of the unmodified sources)',
            'enable': 'not applicable; ./check runs `cargo +nightly check` on /repo with the fact-extracting rustc wrapper /verif/driver',
            'baseline_off_cmd': 'cd /repo && cargo test --workspace --no-fail-fast --offline',
            'source_commits': [],
            'add_only': True,
        },
        'engines': [
            {'name': 'mnv-facts', 'path': '/verif/driver', 'serves_properties': sorted(CLAIMS),
             'kind_free_text': 'rustc_private driver (nightly) used as RUSTC_WRAPPER: dumps ADTs, impls, constants and MIR bodies with resolved callees of the workspace crates and call edges of their dependencies as JSON'},
            {'name': 'sa', 'path': '/verif/sa', 'serves_properties': sorted(CLAIMS),
             'kind_free_text': 'stdlib-Python static analysis engines over the MIR facts: CFG with known-variant pruning, value provenance, path-sensitive fact propagation with kill summaries, translation tables, who-may-write inventories, effect closure; one rule module per property group'},
        ],
        'checks': checks,
        'notes': 'Technique family: static analysis only. Every check rebuilds its facts from the current /repo working tree (cache keyed by a hash of the tree). '
                 'Fix commits in /repo (see known_findings.json, "fixed" entries) repair six genuine defects found by the rules; F7 is a listed known finding. '
                 'Seeded regressions and which checks catch them: /verif/seeded and DESIGN.md section 8.',
        'not_applicable': [
            {'property_id': 'C14', 'reason': 'every clause beyond the event plumbing covered by C15 is an equality of simulated timestamps (bottleneck window arithmetic, tie-breaking of equal instants across queues); no structural necessary condition of its own exists for a static rule, so an honest not-applicable for this technique family'},
        ],
    }
    with open(os.path.join(VERIF, 'MANIFEST.json'), 'w') as f:
        json.dump(m, f, indent=1)


if __name__ == '__main__':
    main()
