#!/bin/bash
# mkmut.sh <name> <file> <perl expr> : mutate /repo HEAD in a scratch worktree -> /tmp/combo/<name>.patch + facts /tmp/combofacts/<name>
N=$1; F=$2; E=$3
W=$(mktemp -d /tmp/cw.XXXXXX); rmdir $W
git -C /repo worktree add -q --detach $W HEAD || exit 1
cp $W/$F /tmp/combo/$N.before
perl -0pi -e "$E" $W/$F
if cmp -s $W/$F /tmp/combo/$N.before; then echo "$N: MUTATION DID NOT CHANGE ANYTHING"; fi
rm -f /tmp/combo/$N.before
git -C $W diff > /tmp/combo/$N.patch
git -C /repo worktree remove --force $W
/verif/tools/seedfacts.sh /tmp/combo/$N.patch /tmp/combofacts/$N
[ -f /tmp/combofacts/$N/.done ] && echo "$N facts ok" || { echo "$N BUILD FAILED"; tail -5 /tmp/combofacts/$N.log; }
