#!/bin/bash
# matrix2.sh <facts glob dir> <out.json> : like matrix.sh for an arbitrary directory of facts dirs
cd /verif
DIR=$1; OUT=${2:-/tmp/matrixX.json}
PIDS="C01 C02 C03 C04 C05 C06 C07 C08 C09 C10 C11 C12 C13 C15 C16 C17 C18 C19 C20"
TMP=$(mktemp -d /tmp/mx.XXXX)
run() { d=$1; p=$2; n=$(VERIF_EVIDENCE_DIR=$TMP/ev.$$ python3 -m sa.main $p --facts $d 2>/dev/null | grep -c "^VIOLATION"); echo "$(basename $d) $p $n" > $TMP/$(basename $d).$p.cnt; }
export -f run; export TMP
(for d in $DIR/C*_[ABC]; do [ -f $d/.done ] || continue; for p in $PIDS; do echo "$d $p"; done; done) | xargs -P 12 -L 1 bash -c 'run $0 $1'
cat $TMP/*.cnt | python3 -c "
import sys,json
m={}
for l in sys.stdin:
    s,p,n=l.split(); m.setdefault(s,{})[p]=int(n)
json.dump(m,open('$OUT','w'),indent=1,sort_keys=True)
for s in sorted(m):
    hit=[p for p in sorted(m[s]) if m[s][p]]
    print(s, 'caught by', hit)
"
rm -rf $TMP
