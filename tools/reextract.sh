#!/bin/bash
# reextract.sh [jobs] : (re)build the fact directories of every stored patch against /repo HEAD (scratch corpora under /tmp used by
# matrix*.sh, combo_run.sh and refacrun.sh; not needed by the registered checks)
J=${1:-6}
list() {
  echo "- /tmp/facts0"
  for d in /verif/seeded/*/; do n=$(basename $d)
    case $n in
      *_r2?) echo "$d/patch.diff /tmp/seed2facts/${n%_r2?}_${n: -1}";;
      *_r3?) echo "$d/patch.diff /tmp/seed3facts/${n%_r3?}_${n: -1}";;
      *_r4?) echo "$d/patch.diff /tmp/seed4facts/${n%_r4?}_${n: -1}";;
      *_r5?) echo "$d/patch.diff /tmp/seed5facts/${n%_r5?}_${n: -1}";;
      *) echo "$d/patch.diff /tmp/seedfacts/$n";;
    esac
  done
  for d in /verif/mutants/RM_*/; do n=$(basename $d); echo "$d/patch.diff /tmp/combofacts/m${n#RM_}"; done
  for d in /verif/mutants/[FM][0-9]*/ /verif/mutants/MC_*/; do n=$(basename $d); echo "$d/patch.diff /tmp/mutfacts/$n"; done
  for d in /verif/refactors/*/; do n=$(basename $d)
    case $n in
      r2_*) echo "$d/patch.diff /tmp/refac2facts/${n#r2_}";;
      r3_*) echo "$d/patch.diff /tmp/fix3facts/${n#r3_}";;
      r4_*) echo "$d/patch.diff /tmp/refac4facts/${n#r4_}";;
      r5_*) echo "$d/patch.diff /tmp/fix4facts/${n#r5_}";;
      r6_*) echo "$d/patch.diff /tmp/refac6facts/${n#r6_}";;
      *) echo "$d/patch.diff /tmp/refacfacts/$n";;
    esac
  done
}
one() { # one <patch|-> <facts dir>
  local P=$1 OUT=$2
  case "$OUT" in /tmp/*) ;; *) echo "refusing to write facts to $OUT"; return 1;; esac
  if [ "$P" = "-" ]; then rm -rf "$OUT"; /verif/driver/run.sh /repo "$OUT" > "$OUT.log" 2>&1 && touch "$OUT/.done"; else /verif/tools/seedfacts.sh "$P" "$OUT"; fi
  [ -f "$OUT/.done" ] || echo "FAILED $OUT"
}
export -f one
mkdir -p /tmp/refac6facts /tmp/seed5facts /tmp/mutfacts /tmp/fix4facts /tmp/seedfacts /tmp/seed2facts /tmp/seed3facts /tmp/seed4facts /tmp/combofacts /tmp/refacfacts /tmp/refac2facts /tmp/fix3facts /tmp/refac4facts
list | xargs -P $J -L 1 bash -c 'one "$0" "$1"'
