#!/usr/bin/env python3
"""regenerate sa/known_fns.json (the functions of the pinned tree the rules are anchored on) from fact dirs"""
import json, sys, os
sys.path.insert(0, os.path.join(os.path.dirname(__file__), '..'))
from sa import mirinline
from sa.core import Program
out = {}
for d in sys.argv[1:]:
    p = Program(d, inline=False)
    for f in list(p.fns.values()) + list(p.absorbed.values()):
        if f.crate in mirinline.WORKSPACE and f.dk in ('Fn', 'AssocFn'):
            out[mirinline.ident(f)] = {'id': list(mirinline.ident(f)), 'private': f.vis != 'Public' and not f.no_mangle, 'inputs': f.inputs, 'output': f.output,
                                       'calls': sorted({'::'.join((c.get('str') or c.get('key') or '').split('::')[-2:]) for c in f.edges.get('calls', []) if 'drop' not in c})}
open(os.path.join(os.path.dirname(__file__), '..', 'sa', 'known_fns.json'), 'w').write('[\n' + ',\n'.join(json.dumps(out[k]) for k in sorted(out)) + '\n]\n')
adts = set()
for d in sys.argv[1:]:
    p = Program(d, inline=False)
    adts |= {k for k in p.adts if k.split('::')[0] in mirinline.WORKSPACE}
json.dump(sorted(adts), open(os.path.join(os.path.dirname(__file__), '..', 'sa', 'known_adts.json'), 'w'), indent=0)
print(len(out), 'functions', len(adts), 'ADTs')
# wire layout table of the pinned tree (C11.R9 / C06.R7)
from sa.paths import Analyses
from sa.layout import wire_fingerprint
p = Program(sys.argv[1])
fp, lay = wire_fingerprint(p, Analyses(p))
json.dump({'version': str(p.const_val('maybenot::constants::VERSION')), 'fingerprint': fp, 'layout': lay},
          open(os.path.join(os.path.dirname(__file__), '..', 'sa', 'known_layout.json'), 'w'), indent=1)
print('layout fingerprint', fp[:16], len(lay), 'types')
