#!/bin/bash
# refacrun.sh [facts parent dir, default /tmp/refacfacts] : run every check against every refactoring facts dir (<dir>/*_[0-9AB]); any VIOLATION is a false alarm
cd /verif
PIDS="C01 C02 C03 C04 C05 C06 C07 C08 C09 C10 C11 C12 C13 C15 C16 C17 C18 C19 C20"
TMP=$(mktemp -d /tmp/rx.XXXX)
run() { d=$1; p=$2; VERIF_EVIDENCE_DIR=$TMP/ev.$$ python3 -m sa.main $p --facts $d 2>/dev/null | grep -A1 "^VIOLATION" | grep "rule" | sed "s|^|$(basename $d) $p |" > $TMP/$(basename $d).$p.out; }
export -f run; export TMP
(for d in ${1:-/tmp/refacfacts}/*_[1-5AB]; do [ -f $d/.done ] || continue; for p in $PIDS; do echo "$d $p"; done; done) | xargs -P 10 -L 1 bash -c 'run $0 $1'
cat $TMP/*.out | cut -c1-330
rm -rf $TMP
