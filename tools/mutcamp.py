#!/usr/bin/env python3
"""mutcamp.py: automatic mutation campaign against the checks (a vacuity / gap audit, not part of any registered check).

For a deterministic sample of small syntactic mutants of the non-test sources of /repo (comparison / boolean / arithmetic operator
swaps, literal flips, min<->max, is_some<->is_none, client<->server, deleted statements) it records, per mutant that compiles:
  * which checks fire (facts of the workspace crates re-extracted on a warm target directory, dependency facts reused),
  * whether the repository's own test suite notices.
A mutant the tests kill and no check reports is a behaviour change the rules do not see: the list to triage.

usage: mutcamp.py <out.jsonl> [--n N] [--seed S] [--jobs J] [--files glob ...]
Scratch worktrees and target directories live under /tmp/mc and are removed at the end."""
import sys, os, re, json, random, subprocess, shutil, glob, argparse, tempfile, threading
from concurrent.futures import ThreadPoolExecutor

VERIF = os.path.join(os.path.dirname(os.path.abspath(__file__)), '..')
REPO = '/repo'
PIDS = "C01 C02 C03 C04 C05 C06 C07 C08 C09 C10 C11 C12 C13 C15 C16 C17 C18 C19 C20".split()
FILES = ['crates/maybenot/src/framework.rs', 'crates/maybenot/src/state.rs', 'crates/maybenot/src/machine.rs', 'crates/maybenot/src/dist.rs',
         'crates/maybenot/src/action.rs', 'crates/maybenot/src/counter.rs', 'crates/maybenot/src/time.rs', 'crates/maybenot/src/event.rs',
         'crates/maybenot/src/constants.rs', 'crates/maybenot-simulator/src/lib.rs', 'crates/maybenot-simulator/src/queue.rs',
         'crates/maybenot-simulator/src/queue_event.rs', 'crates/maybenot-simulator/src/queue_peek.rs', 'crates/maybenot-simulator/src/network.rs',
         'crates/maybenot-ffi/src/lib.rs', 'crates/maybenot-ffi/src/ffi.rs']
WS = ('maybenot', 'maybenot_ffi', 'maybenot_simulator')

SWAPS = [(' < ', ' <= '), (' <= ', ' < '), (' > ', ' >= '), (' >= ', ' > '), (' == ', ' != '), (' != ', ' == '), (' && ', ' || '), (' || ', ' && '),
         (' + ', ' - '), (' - ', ' + '), ('.min(', '.max('), ('.max(', '.min('), ('.is_some()', '.is_none()'), ('.is_none()', '.is_some()'),
         ('saturating_add', 'saturating_sub'), ('saturating_sub', 'saturating_add'), (' += ', ' -= '), (' -= ', ' += ')]
WORDS = [('true', 'false'), ('false', 'true'), ('client', 'server'), ('server', 'client'), ('Some(', 'None.or(')]


def sites():
    out = []
    for rel in FILES:
        lines = open(os.path.join(REPO, rel)).read().split('\n')
        depth_doc = False
        for i, l in enumerate(lines):
            if l.strip().startswith('#[cfg(test)]'):
                break
            s = l.strip()
            if not s or s.startswith('//') or s.startswith('#[') or s.startswith('use ') or s.startswith('pub use ') or 'debug!' in s or 'trace!' in s \
                    or s.startswith('fn ') or s.startswith('pub fn ') or s.startswith('pub(crate) fn ') or s.startswith('impl') or '"' in s and ('panic!' in s or 'Err(' in s or 'expect(' in s):
                continue
            code = l.split('//')[0]
            for (a, b) in SWAPS:
                for m in re.finditer(re.escape(a), code):
                    out.append((rel, i, 'swap:%s->%s' % (a.strip(), b.strip()), code[:m.start()] + b + code[m.end():]))
            for (a, b) in WORDS[:2]:
                for m in re.finditer(r'\b%s\b' % a, code):
                    out.append((rel, i, 'lit:%s->%s' % (a, b), code[:m.start()] + b + code[m.end():]))
            for (a, b) in WORDS[2:4]:
                ms = list(re.finditer(r'\b%s\b' % a, code))
                if ms and 'fn ' not in code:
                    m = ms[0]
                    out.append((rel, i, 'side:%s->%s' % (a, b), code[:m.start()] + b + code[m.end():]))
            for m in re.finditer(r'(?<![\w.])([0-9]+)(?![\w.])', code):
                v = int(m.group(1))
                if v <= 10:
                    out.append((rel, i, 'const:%d->%d' % (v, v + 1), code[:m.start()] + str(v + 1) + code[m.end():]))
            if re.match(r'^\s*(\*?[a-z_][\w\.\[\]\(\)\*]*)\s*(=|\+=|-=)\s*[^=].*;\s*$', code) and 'let ' not in code:
                out.append((rel, i, 'delete-assignment', re.match(r'^\s*', code).group(0) + '// deleted'))
            elif re.match(r'^\s*(self|sq|state|client|server|network)\.[a-z_\.]+\(.*\);\s*$', code):
                out.append((rel, i, 'delete-call', re.match(r'^\s*', code).group(0) + '// deleted'))
            elif re.match(r'^\s*(continue|break);\s*$', code):
                out.append((rel, i, 'delete-jump', re.match(r'^\s*', code).group(0) + '// deleted'))
    return out


def sh(cmd, cwd=None, env=None, timeout=1800):
    return subprocess.run(['bash', '-c', cmd], cwd=cwd, env=env, capture_output=True, text=True, timeout=timeout)


class Slot:
    def __init__(self, k, base):
        self.k = k
        self.wt = os.path.join(base, 'wt%d' % k)
        self.tfacts = os.path.join(base, 'tf%d' % k)
        self.ttest = os.path.join(base, 'tt%d' % k)
        self.facts = os.path.join(base, 'facts%d' % k)
        sh('git -C %s worktree add -q --detach %s HEAD' % (REPO, self.wt))
        sysroot = sh('rustc +nightly --print sysroot').stdout.strip()
        self.fenv = dict(os.environ, LD_LIBRARY_PATH=sysroot + '/lib', RUSTFLAGS='-Zmir-opt-level=0 -Zalways-encode-mir -Awarnings',
                         RUSTC_WRAPPER=os.path.join(VERIF, 'driver/target/release/mnv-facts'), MNV_FULL='maybenot,maybenot_ffi,maybenot_simulator,rand_distr',
                         MNV_EDGES='rand,rand_core,rand_chacha,rand_xoshiro,flate2,bincode,base64,hex,byteorder,sha256,enum_map,log,num_traits,getrandom,ppv_lite86,miniz_oxide,crc32fast,adler2,adler,serde,serde_json,simple_error,libm',
                         CARGO_TARGET_DIR=self.tfacts, CARGO_NET_OFFLINE='true')
        self.tenv = dict(os.environ, CARGO_TARGET_DIR=self.ttest, CARGO_NET_OFFLINE='true')
        # warm both target directories on the clean tree; the clean extraction also yields the dependency facts to reuse
        os.makedirs(self.facts + '.clean', exist_ok=True)
        e = dict(self.fenv, MNV_FACTS_DIR=self.facts + '.clean')
        r = sh('cargo +nightly check --offline -q -p maybenot --features parsing -p maybenot-ffi -p maybenot-simulator', cwd=self.wt, env=e)
        assert r.returncode == 0, r.stderr[-2000:]
        sh('cargo test --workspace --offline -q --no-run', cwd=self.wt, env=self.tenv)

    def extract(self):
        """re-extract the workspace crates only"""
        for d in glob.glob(self.tfacts + '/debug/.fingerprint/maybenot*'):
            shutil.rmtree(d, ignore_errors=True)
        shutil.rmtree(self.facts, ignore_errors=True)
        os.makedirs(self.facts)
        e = dict(self.fenv, MNV_FACTS_DIR=self.facts)
        r = sh('cargo +nightly check --offline -q -p maybenot --features parsing -p maybenot-ffi -p maybenot-simulator', cwd=self.wt, env=e)
        if r.returncode != 0:
            return False
        have = {os.path.basename(f).rsplit('-', 1)[0] for f in glob.glob(self.facts + '/*.json')}
        if not set(WS) <= have:
            return False
        for f in glob.glob(self.facts + '.clean/*.json'):
            if os.path.basename(f).rsplit('-', 1)[0] not in WS:
                shutil.copy(f, self.facts)
        return True

    def checks(self):
        def run(p):
            env = dict(os.environ, VERIF_EVIDENCE_DIR=tempfile.mkdtemp(prefix='mcev', dir=os.path.dirname(self.facts)))
            r = subprocess.run(['python3', '-m', 'sa.main', p, '--facts', self.facts], cwd=VERIF, env=env, capture_output=True, text=True)
            shutil.rmtree(env['VERIF_EVIDENCE_DIR'], ignore_errors=True)
            return p, sum(1 for l in r.stdout.splitlines() if l.startswith('VIOLATION'))
        with ThreadPoolExecutor(4) as ex:
            return [p for p, n in ex.map(run, PIDS) if n]

    def tests(self):
        try:
            r = sh('timeout -k 5 300 cargo test --workspace --offline -q 2>&1 | grep -E "^test result|panicked|FAILED|error" | head -40; echo "rc=${PIPESTATUS[0]}"', cwd=self.wt, env=self.tenv, timeout=600)
        except subprocess.TimeoutExpired:
            return True
        out = r.stdout
        if 'rc=124' in out or 'rc=137' in out:
            return True     # the suite hangs on this mutant
        failed = 'FAILED' in out or 'error' in out or re.search(r'[1-9][0-9]* failed', out) is not None
        return failed


def main():
    ap = argparse.ArgumentParser()
    ap.add_argument('out')
    ap.add_argument('--n', type=int, default=100)
    ap.add_argument('--seed', type=int, default=1)
    ap.add_argument('--jobs', type=int, default=4)
    ap.add_argument('--kinds', default='')
    a = ap.parse_args()
    allsites = sites()
    if a.kinds:
        allsites = [s for s in allsites if any(s[2].startswith(k) for k in a.kinds.split(','))]
    random.Random(a.seed).shuffle(allsites)
    done = set()
    if os.path.exists(a.out):
        for l in open(a.out):
            j = json.loads(l)
            done.add((j['file'], j['line'], j['kind']))
    todo = [s for s in allsites if (s[0], s[1] + 1, s[2]) not in done][:a.n]
    print('mutation sites: %d, already done: %d, this run: %d' % (len(allsites), len(done), len(todo)), flush=True)
    base = '/tmp/mc'
    shutil.rmtree(base, ignore_errors=True)
    os.makedirs(base)
    sh('git -C %s worktree prune' % REPO)
    with ThreadPoolExecutor(a.jobs) as ex:
        slots = list(ex.map(lambda k: Slot(k, base), range(a.jobs)))
    # sanity: the clean tree is silent through the fast extraction path
    assert slots[0].extract() and slots[0].checks() == [], 'clean tree is not silent through the fast path'
    lock = threading.Lock()
    free = list(slots)

    def work(site):
        rel, ln, kind, new = site
        with lock:
            s = free.pop()
        try:
            path = os.path.join(s.wt, rel)
            lines = open(path).read().split('\n')
            old = lines[ln]
            lines[ln] = new
            open(path, 'w').write('\n'.join(lines))
            rec = {'file': rel, 'line': ln + 1, 'kind': kind, 'old': old.strip(), 'new': new.strip()}
            if s.extract():
                rec['compiles'] = True
                rec['caught_by'] = s.checks()
                rec['tests_fail'] = s.tests()
            else:
                rec['compiles'] = False
            sh('git checkout -- .', cwd=s.wt)
            with lock:
                open(a.out, 'a').write(json.dumps(rec) + '\n')
            print(json.dumps(rec)[:300], flush=True)
        finally:
            with lock:
                free.append(s)
    with ThreadPoolExecutor(a.jobs) as ex:
        list(ex.map(work, todo))
    for s in slots:
        sh('git -C %s worktree remove --force %s' % (REPO, s.wt))
    shutil.rmtree(base, ignore_errors=True)
    sh('git -C %s worktree prune' % REPO)


if __name__ == '__main__':
    main()
