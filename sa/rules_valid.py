"""Validation / parsing / distribution rules: C11, C12, C13."""
from .core import AnchorMissing, strip_sites, walk, show, callee_str, callee_decl, decl_matches, callee_key, is_param_call
from .paths import stores, calls, field_stores
from .pat import (num, is_const, unload, last_field, is_field, strip_casts, is_call, has_cmp, cmp_int_true,
                  all_paths, show_facts, field_chain, root_of, contains, base_of, find_calls)
from .tables import aggregates, unwrap, src_field, src_base
from .rules_limits import FW, ret_defs, shape, switch_conditions, is_false_const
from .inline import expand_calls


def is_ok_ret(v):
    return v[0] == 'agg' and v[2] == 'Ok'


def continue_of(S, pred):
    """path took the Continue (Ok) edge of `expr?` where expr contains a call satisfying pred"""
    for f in S:
        if f[0] == 'variant' and f[2] == 'Continue' and contains(f[1], pred):
            return True
    return False


# ------------------------------------------------------------------ distribution constructors (C13.R1, C01 UNWRAP-VALIDATED)

def ctor_calls(fa):
    """rand_distr constructor calls in a function: {ctor name: [(bb, [(variant, field) per arg], call expr)]}"""
    out = {}
    for (b, f, args, t) in calls(fa):
        cs = callee_str(f)
        if f.get('crate') == 'rand_distr' and cs.endswith('::new'):
            amap = []
            for a in args:
                sf = src_field(a)
                amap.append((sf[1], sf[2]) if sf and sf[0].endswith('dist::DistType') else ('?', show(a)))
            out.setdefault(cs, []).append((b, tuple(amap), fa.call_value(t, (b, len(fa.blocks[b]['s'])))))
    return out


def dist_ctor_table(ctx, rep=None):
    """agreement between Dist::validate and Dist::dist_sample; returns {ctor name: bool}"""
    prog, an = ctx.prog, ctx.an
    va = an.get(prog.fn(FW, 'Dist', 'validate'))
    sa = an.get(prog.fn(FW, 'Dist', 'dist_sample'))
    vc, sc = ctor_calls(va), ctor_calls(sa)
    res = {}
    pfv = an.paths(va.fn, history=True)
    for name in sorted(set(vc) | set(sc)):
        v, s = vc.get(name, []), sc.get(name, [])
        ok = len(v) == 1 and len(s) == 1 and v[0][1] == s[0][1] and all(x[0] != '?' for x in v[0][1])
        # in validate the result is propagated with `?`: some Try::branch consumes it
        if ok:
            cv = strip_sites(v[0][2])
            ok = any(callee_decl(f).endswith('Try::branch') and contains(strip_sites(a[0]), lambda x: x == cv) for (b, f, a, t) in calls(va))
        # in dist_sample it is unwrapped and sampled
        if ok:
            cs_ = strip_sites(s[0][2])
            ok = any(callee_str(f).endswith('::unwrap') and strip_sites(a[0]) == cs_ for (b, f, a, t) in calls(sa))
        res[name] = ok
        if rep is not None:
            rep.ob('C13.R1', va.fn, 'ctor:' + name.split('::')[-2].split('<')[0], ok,
                   'validate: %s / dist_sample: %s' % ([x[1] for x in v], [x[1] for x in s]))
    return res


def uniform_guard(ctx, fn, fa, b, d, need=None):
    """dist_sample's gen_range(low..high): low/high are the Uniform fields, the call is behind low != high,
    and validate's Uniform arm rejects NaN/infinite/reversed/overflowing ranges"""
    prog, an = ctx.prog, ctx.an
    lo, hi = d.get('start'), d.get('end')
    sl, sh = src_field(lo), src_field(hi)
    if not (sl and sh and sl[1] == 'Uniform' and sh[1] == 'Uniform' and sl[2] == 'low' and sh[2] == 'high'):
        return False
    pfh = an.paths(fn, history=True)
    st = pfh.at_entry(b)

    def neq(S):
        return has_cmp(S, 'eq', lambda l: src_field(l) == sl, lambda r: src_field(r) == sh, False) or \
            has_cmp(S, 'ne', lambda l: src_field(l) == sl, lambda r: src_field(r) == sh, True) or \
            has_cmp(S, 'lt', lambda l: src_field(l) == sl, lambda r: src_field(r) == sh, True)
    ok, w = all_paths(st, neq)
    if not (ok and st):
        return False
    uf = uniform_validate_facts(ctx)
    return all(v for k, v in uf.items() if need is None or k in need)


def uniform_validate_facts(ctx):
    """which rejecting edges every Ok path of Dist::validate's Uniform arm crosses"""
    prog, an = ctx.prog, ctx.an
    fn = prog.fn(FW, 'Dist', 'validate')
    fa = an.get(fn)
    pfh = an.paths(fn, history=True)
    need = {'low-not-nan': True, 'high-not-nan': True, 'low-finite': True, 'high-finite': True, 'low-le-high': True, 'width-finite': True}
    n = 0

    def fld(e, name):
        sf = src_field(e)
        return sf is not None and sf[1] == 'Uniform' and sf[2] == name
    for (b, k, v) in ret_defs(fa):
        if not is_ok_ret(v):
            continue
        for S in pfh.at(b, k):
            if not any(f[0] == 'variant' and f[2] == 'Uniform' for f in S):
                continue
            n += 1

            def bc(name, fname, pol):
                return any(f[0] == 'bcall' and f[1].endswith(name) and f[3] is pol and fld(f[2][0], fname) for f in S)
            need['low-not-nan'] &= bc('is_nan', 'low', False) or bc('is_finite', 'low', True)
            need['high-not-nan'] &= bc('is_nan', 'high', False) or bc('is_finite', 'high', True)
            need['low-finite'] &= bc('is_infinite', 'low', False) or bc('is_finite', 'low', True)
            need['high-finite'] &= bc('is_infinite', 'high', False) or bc('is_finite', 'high', True)
            need['low-le-high'] &= has_cmp(S, 'lt', lambda l: fld(l, 'high'), lambda r: fld(r, 'low'), False) or \
                has_cmp(S, 'le', lambda l: fld(l, 'low'), lambda r: fld(r, 'high'), True)
            need['width-finite'] &= any(f[0] == 'bcall' and ((f[1].endswith('is_infinite') and f[3] is False) or (f[1].endswith('is_finite') and f[3] is True)) and
                                        f[2][0][0] == 'bin' and f[2][0][1] == 'Sub' and fld(f[2][0][2], 'high') and fld(f[2][0][3], 'low') for f in S)
    if n == 0:
        return {k: False for k in need}
    return need


# ------------------------------------------------------------------ C13

def check_C13(ctx, rep):
    prog, an = ctx.prog, ctx.an
    rep.rule('C13.R1', 'sibling agreement: for every DistType variant the rand_distr constructor whose result Dist::validate propagates with `?` '
             'is the same resolved function, with the same field-to-argument map, as the one Dist::dist_sample unwraps')
    rep.rule('C13.R2', 'every return of Dist::sample is f64::max(0.0, dist_sample + start) (which absorbs NaN) and, exactly when self.max > 0.0, '
             'f64::min(that, self.max); f64::clamp is not accepted (it propagates NaN)')
    rep.rule('C13.R3', 'Uniform: gen_range is called on the half-open low..high only behind low != high; validate\'s Uniform arm reaches Ok only '
             'across the six rejecting edges (NaN x2, infinite x2, low > high, infinite width)')
    rep.rule('C13.R4', 'speed guards: Binomial trials and probability, Geometric probability and Poisson lambda are compared against constants '
             'on every Ok path (constants reported)')
    rep.rule('C13.R5', 'consumers convert samples with saturating `as` casts only')
    vfn = prog.fn(FW, 'Dist', 'validate')
    sfn = prog.fn(FW, 'Dist', 'dist_sample')
    tab = dist_ctor_table(ctx, rep)
    variants = prog.variants('maybenot::dist::DistType')
    # exhaustive: every variant except Uniform has exactly one constructor
    va = an.get(vfn)
    sa = an.get(sfn)
    cov_v = {a[0][0] for cs in ctor_calls(va).values() for (b, a, e) in cs if a}
    cov_s = {a[0][0] for cs in ctor_calls(sa).values() for (b, a, e) in cs if a}
    for v in variants:
        if v == 'Uniform':
            continue
        rep.ob('C13.R1', vfn, 'variant-has-constructor:' + v, v in cov_v and v in cov_s, 'validate: %s, dist_sample: %s' % (v in cov_v, v in cov_s))
    rep.count_exact('C13.R1', 'constructor table rows', len(tab), len(variants) - 1)
    # each dist_sample arm returns the sample of the unwrapped constructor (or low for the constant uniform)
    pfs = an.paths(sfn, history=True)
    for (b, k, v) in ret_defs(sa):
        for S in pfs.at(b, k):
            var = [f[2] for f in S if f[0] == 'variant' and f[2] in variants]
            if not var:
                rep.ob('C13.R1', sfn, 'return-under-variant', False, 'return %s not under a DistType variant' % shape(v))
                continue
            vn = var[0]
            x = v
            while x[0] == 'cast':
                x = x[3]
            if vn == 'Uniform':
                ok = (is_call(x, 'gen_range')) or (src_field(x) is not None and src_field(x)[1:] == ('Uniform', 'low'))
            else:
                ok = is_call(x, 'Distribution::sample') and contains(x, lambda y: is_call(y, '::unwrap')) and \
                    contains(x, lambda y: is_call(y, '::new') and 'rand_distr' in y[1] and any((src_field(a) or ('', '', ''))[1] == vn for a in y[2]))
            rep.ob('C13.R1', sfn, 'arm-samples-own-constructor:' + vn, ok, 'returns %s' % shape(v))
    # R2
    fn = prog.fn(FW, 'Dist', 'sample')
    fa = an.get(fn)
    pf = an.paths(fn, history=True)

    def is_max0(e):
        if not (is_call(e, '::max') and 'f64' in e[1]):
            return False
        a, b2 = e[2]
        other = b2 if is_const(a, 0.0) else (a if is_const(b2, 0.0) else None)
        if other is None:
            return False
        return other[0] == 'bin' and other[1] == 'Add' and ((is_call(other[2], '::dist_sample') and is_field(other[3], 'start', 'Dist')) or
                                                            (is_call(other[3], '::dist_sample') and is_field(other[2], 'start', 'Dist')))
    n = 0
    for (b, k, v) in ret_defs(fa):
        for S in pf.at(b, k):
            n += 1
            capped = has_cmp(S, 'lt', lambda l: is_const(l, 0.0), lambda r: is_field(r, 'max', 'Dist'), True)
            if capped:
                ok = is_call(v, '::min') and 'f64' in v[1] and ((is_max0(v[2][0]) and is_field(v[2][1], 'max', 'Dist')) or (is_max0(v[2][1]) and is_field(v[2][0], 'max', 'Dist')))
                rep.ob('C13.R2', fn, 'capped-return', ok, 'returns %s when max > 0' % shape(v))
            else:
                unset = has_cmp(S, 'lt', lambda l: is_const(l, 0.0), lambda r: is_field(r, 'max', 'Dist'), False)
                rep.ob('C13.R2', fn, 'uncapped-return', unset and is_max0(v), 'returns %s when max is not set' % shape(v))
    rep.count_floor('C13.R2', 'return paths of Dist::sample', n, 2)
    clamp_calls = [callee_str(f) for (b, f, a, t) in calls(fa) if callee_str(f).endswith('::clamp')]
    rep.ob('C13.R2', fn, 'no-clamp', not clamp_calls, 'clamp calls: %s' % clamp_calls)
    # R3
    uf = uniform_validate_facts(ctx)
    for k2, v2 in uf.items():
        rep.ob('C13.R3', vfn, 'uniform:' + k2, v2, 'every Ok path of the Uniform arm crosses the %s edge' % k2)
    gr = [(b, f, a, t) for (b, f, a, t) in calls(sa) if callee_decl(f).endswith('Rng::gen_range')]
    rep.count_exact('C13.R3', 'gen_range in dist_sample', len(gr), 1)
    for (b, f, a, t) in gr:
        rg = a[1]
        ok = rg[0] == 'agg' and rg[2] == 'Range' and not rg[1].endswith('RangeInclusive')
        rep.ob('C13.R3', sfn, 'half-open-range', ok, 'gen_range(%s)' % shape(rg))
        if ok:
            rep.ob('C13.R3', sfn, 'range-behind-low-ne-high', uniform_guard(ctx, sfn, sa, b, dict(rg[3])), '')
    # R4 speed guards
    pfv = an.paths(vfn, history=True)
    guards = {'Binomial': [('trials', 'upper')], 'Geometric': [], 'Poisson': [('lambda', 'upper')]}
    consts_seen = {}
    for (b, k, v) in ret_defs(va):
        if not is_ok_ret(v):
            continue
        for S in pfv.at(b, k):
            var = [f[2] for f in S if f[0] == 'variant' and f[2] in variants]
            if not var:
                continue
            vn = var[0]

            def fld(e, name):
                sf = src_field(e)
                return sf is not None and sf[1] == vn and sf[2] == name
            if vn in ('Binomial', 'Geometric'):
                # probability == 0.0, or probability < MIN is false
                z = has_cmp(S, 'ne', lambda l: fld(l, 'probability'), lambda r: is_const(r, 0.0), False) or \
                    has_cmp(S, 'eq', lambda l: fld(l, 'probability'), lambda r: is_const(r, 0.0), True)
                lo = [f for f in S if f[0] == 'cmp' and f[1] == 'lt' and f[5] is False and fld(f[2], 'probability') and num(f[3]) is not None]
                for f in lo:
                    consts_seen[vn + '.probability.min'] = num(f[3])
                rep.ob('C13.R4', vfn, '%s:probability-lower-guard' % vn, z or bool(lo), '')
            if vn == 'Binomial':
                up = [f for f in S if f[0] == 'cmp' and f[1] == 'lt' and f[5] is False and num(f[2]) is not None and fld(f[3], 'trials')]
                for f in up:
                    consts_seen['Binomial.trials.max'] = num(f[2])
                rep.ob('C13.R4', vfn, 'Binomial:trials-upper-guard', bool(up), '')
            if vn == 'Poisson':
                up = [f for f in S if f[0] == 'cmp' and f[1] == 'lt' and f[5] is False and num(f[2]) is not None and fld(f[3], 'lambda')]
                for f in up:
                    consts_seen['Poisson.lambda.max'] = num(f[2])
                rep.ob('C13.R4', vfn, 'Poisson:lambda-upper-guard', bool(up), '')
    rep.extra['speed_guard_constants'] = consts_seen
    rep.count_floor('C13.R4', 'speed guard constants found', len(consts_seen), 3)
    # R5 consumers
    for (adt, name) in (('Action', 'sample_timeout'), ('Action', 'sample_duration'), ('Action', 'sample_limit'), ('Counter', 'sample_value')):
        f = prog.fn(FW, adt, name)
        fa2 = an.get(f)
        for (b, k, v) in ret_defs(fa2):
            if num(v) is not None:
                continue
            v = expand_calls(ctx, v)
            ok = v[0] == 'cast' and v[1] == 'FloatToInt' and contains(v, lambda x: is_call(x, 'Dist::sample'))
            rep.ob('C13.R5', f, 'saturating-cast', ok, 'returns %s' % shape(v))
        bad = [callee_str(c) for (b, c, a, t) in calls(fa2) if any(x in callee_str(c) for x in ('to_int_unchecked', 'TryInto', 'try_from', 'try_into', 'transmute'))]
        rep.ob('C13.R5', f, 'no-unchecked-conversion', not bad, 'conversions: %s' % bad)
    if ctx.tier == 'thorough':
        thorough_rand_distr(ctx, rep)
    rep.assumptions += ["prompt termination and panic-freedom of rand_distr's samplers for validated parameters is NOT decided (their loops depend on random words)",
                        'every CFG path is treated as feasible']
    return 'validate/sample interface of distributions: constructor agreement, NaN-absorbing clamp, Uniform guards, speed guards, saturating consumers'


def thorough_rand_distr(ctx, rep):
    """report-only inventory of the rand_distr sampler bodies + NaN rejection of the probability constructors"""
    prog, an = ctx.prog, ctx.an
    rep.rule('C13.T1', '(thorough) rand_distr constructors used by maybenot reject NaN probabilities: every Ok return of Binomial::new / '
             'Geometric::new lies behind an ordered comparison or finiteness test of p that is false for NaN')
    inv = {}
    for f in prog.crate_fns('rand_distr'):
        if not f.has_body or f.name != 'sample':
            continue
        fa = an.get(f)
        loops = len(fa.cfg.loops())
        asserts = sum(1 for b in fa.cfg.reach if fa.blocks[b]['t']['k'] == 'assert')
        panics = sum(1 for (b, c, a, t) in calls(fa) if 'panic' in callee_str(c) or callee_str(c).endswith('::unwrap') or callee_str(c).endswith('::expect'))
        inv[f.short()] = {'loops': loops, 'asserts': asserts, 'panicking_calls': panics}
    rep.extra['rand_distr_sampler_inventory'] = inv
    for (adt, pname) in (('Binomial', 2), ('Geometric', 1)):
        f = prog.fn_opt('rand_distr', adt, 'new')
        if f is None:
            rep.fail_closed('C13.T1', 'rand_distr::%s::new' % adt)
            continue
        fa = an.get(f)
        pf = an.paths(f, history=True)
        for (b, k, v) in ret_defs(fa):
            if not is_ok_ret(v):
                continue
            p = ('param', pname)

            def rejects_nan(S):
                for fct in S:
                    if fct[0] == 'cmp' and fct[5] is True and fct[1] in ('lt', 'le') and (fct[2] == p or fct[3] == p):
                        return True
                    if fct[0] == 'cmp' and fct[5] is False and fct[1] in ('lt', 'le') and False:
                        return True
                    if fct[0] == 'bcall' and fct[1].endswith('is_finite') and fct[3] is True:
                        return True
                    if fct[0] == 'bcall' and fct[1].endswith('is_nan') and fct[3] is False:
                        return True
                    # !(p >= 0 && p <= 1) style: a negated conjunction is expressed as edges, covered above
                return False
            ok, w = all_paths(pf.at(b, k), rejects_nan)
            rep.ob('C13.T1', f, 'probability-nan-rejected', ok, '' if ok else show_facts(w))
