import json
"""Validation / parsing / distribution rules: C11, C12, C13."""
from .core import AnchorMissing, strip_sites, walk, show, callee_str, callee_decl, decl_matches, callee_key, is_param_call
from .paths import stores, calls, field_stores
from .pat import (num, is_const, unload, last_field, is_field, strip_casts, is_call, has_cmp, cmp_int_true,
                  all_paths, show_facts, field_chain, root_of, contains, base_of, find_calls)
from .tables import aggregates, unwrap, src_field, src_base
from .rules_limits import FW, ret_defs, shape, switch_conditions, is_false_const
from .inline import expand_calls


def is_ok_ret(v):
    return v[0] == 'agg' and v[2] == 'Ok'


def continue_of(S, pred):
    """path took the Continue (Ok) edge of `expr?` where expr contains a call satisfying pred"""
    for f in S:
        if f[0] == 'variant' and f[2] == 'Continue' and contains(f[1], pred):
            return True
    return False


# ------------------------------------------------------------------ distribution constructors (C13.R1, C01 UNWRAP-VALIDATED)

def ctor_calls(fa):
    """rand_distr constructor calls in a function: {ctor name: [(bb, [(variant, field) per arg], call expr)]}"""
    out = {}
    for (b, f, args, t) in calls(fa):
        cs = callee_str(f)
        if f.get('crate') == 'rand_distr' and cs.endswith('::new'):
            amap = []
            for a in args:
                sf = src_field(a)
                amap.append((sf[1], sf[2]) if sf and sf[0].endswith('dist::DistType') else ('?', show(a)))
            out.setdefault(cs, []).append((b, tuple(amap), fa.call_value(t, (b, len(fa.blocks[b]['s'])))))
    return out


def dist_ctor_table(ctx, rep=None):
    """agreement between Dist::validate and Dist::dist_sample; returns {ctor name: bool}"""
    prog, an = ctx.prog, ctx.an
    va = an.get(prog.fn(FW, 'Dist', 'validate'))
    sa = an.get(prog.fn(FW, 'Dist', 'dist_sample'))
    vc, sc = ctor_calls(va), ctor_calls(sa)
    res = {}
    pfv = an.paths(va.fn, history=True)
    for name in sorted(set(vc) | set(sc)):
        v, s = vc.get(name, []), sc.get(name, [])
        ok = len(v) == 1 and len(s) == 1 and v[0][1] == s[0][1] and all(x[0] != '?' for x in v[0][1])
        # in validate the result is propagated with `?`: some Try::branch consumes it
        if ok:
            cv = strip_sites(v[0][2])
            ok = any(callee_decl(f).endswith('Try::branch') and contains(strip_sites(a[0]), lambda x: x == cv) for (b, f, a, t) in calls(va))
        # in dist_sample it is unwrapped and sampled
        if ok:
            cs_ = strip_sites(s[0][2])
            ok = any(callee_str(f).endswith('::unwrap') and strip_sites(a[0]) == cs_ for (b, f, a, t) in calls(sa))
        res[name] = ok
        if rep is not None:
            rep.ob('C13.R1', va.fn, 'ctor:' + name.split('::')[-2].split('<')[0], ok,
                   'validate: %s / dist_sample: %s' % ([x[1] for x in v], [x[1] for x in s]))
    return res


def uniform_guard(ctx, fn, fa, b, d, need=None):
    """dist_sample's gen_range(low..high): low/high are the Uniform fields, the call is behind low != high,
    and validate's Uniform arm rejects NaN/infinite/reversed/overflowing ranges"""
    prog, an = ctx.prog, ctx.an
    lo, hi = d.get('start'), d.get('end')
    sl, sh = src_field(lo), src_field(hi)
    if not (sl and sh and sl[1] == 'Uniform' and sh[1] == 'Uniform' and sl[2] == 'low' and sh[2] == 'high'):
        return False
    pfh = an.paths(fn, history=True)
    st = pfh.at_entry(b)

    def neq(S):
        return has_cmp(S, 'eq', lambda l: src_field(l) == sl, lambda r: src_field(r) == sh, False) or \
            has_cmp(S, 'ne', lambda l: src_field(l) == sl, lambda r: src_field(r) == sh, True) or \
            has_cmp(S, 'lt', lambda l: src_field(l) == sl, lambda r: src_field(r) == sh, True)
    ok, w = all_paths(st, neq)
    if not (ok and st):
        return False
    uf = uniform_validate_facts(ctx)
    return all(v for k, v in uf.items() if need is None or k in need)


def uniform_validate_facts(ctx):
    """which rejecting edges every Ok path of Dist::validate's Uniform arm crosses"""
    prog, an = ctx.prog, ctx.an
    fn = prog.fn(FW, 'Dist', 'validate')
    fa = an.get(fn)
    pfh = an.paths(fn, history=True)
    need = {'low-not-nan': True, 'high-not-nan': True, 'low-finite': True, 'high-finite': True, 'low-le-high': True, 'width-finite': True}
    n = 0

    def fld(e, name):
        sf = src_field(e)
        return sf is not None and sf[1] == 'Uniform' and sf[2] == name
    for (b, k, v) in ret_defs(fa):
        if not is_ok_ret(v):
            continue
        for S in pfh.at(b, k):
            if not any(f[0] == 'variant' and f[2] == 'Uniform' for f in S):
                continue
            n += 1

            def bc(name, fname, pol):
                return any(f[0] == 'bcall' and f[1].endswith(name) and f[3] is pol and fld(f[2][0], fname) for f in S)
            need['low-not-nan'] &= bc('is_nan', 'low', False) or bc('is_finite', 'low', True)
            need['high-not-nan'] &= bc('is_nan', 'high', False) or bc('is_finite', 'high', True)
            need['low-finite'] &= bc('is_infinite', 'low', False) or bc('is_finite', 'low', True)
            need['high-finite'] &= bc('is_infinite', 'high', False) or bc('is_finite', 'high', True)
            need['low-le-high'] &= has_cmp(S, 'lt', lambda l: fld(l, 'high'), lambda r: fld(r, 'low'), False) or \
                has_cmp(S, 'le', lambda l: fld(l, 'low'), lambda r: fld(r, 'high'), True)
            need['width-finite'] &= any(f[0] == 'bcall' and ((f[1].endswith('is_infinite') and f[3] is False) or (f[1].endswith('is_finite') and f[3] is True)) and
                                        f[2][0][0] == 'bin' and f[2][0][1] == 'Sub' and fld(f[2][0][2], 'high') and fld(f[2][0][3], 'low') for f in S)
    if n == 0:
        return {k: False for k in need}
    return need


# ------------------------------------------------------------------ C13

def check_uniform_sampler(ctx, rep, rid):
    """what Dist::validate's Uniform arm licenses (finite low <= high with a finite width) is what the sampler needs only for the
    half-open gen_range(low..high) behind low != high; the inclusive sampler divides the width by 1 - 2^-52 and asserts the result finite"""
    prog, an = ctx.prog, ctx.an
    sfn = prog.fn(FW, 'Dist', 'dist_sample')
    sa = an.get(sfn)
    gr = [(b, f, a, t) for (b, f, a, t) in calls(sa) if callee_decl(f).endswith('Rng::gen_range')]
    rep.count_exact(rid, 'gen_range in dist_sample', len(gr), 1)
    for (b, f, a, t) in gr:
        rg = a[1]
        ok = rg[0] == 'agg' and rg[2] == 'Range' and not rg[1].endswith('RangeInclusive')
        rep.ob(rid, sfn, 'half-open-range', ok, 'gen_range(%s)' % shape(rg))
        if ok:
            rep.ob(rid, sfn, 'range-behind-low-ne-high', uniform_guard(ctx, sfn, sa, b, dict(rg[3])), '')


def check_C13(ctx, rep):
    prog, an = ctx.prog, ctx.an
    rep.rule('C13.R1', 'sibling agreement: for every DistType variant the rand_distr constructor whose result Dist::validate propagates with `?` '
             'is the same resolved function, with the same field-to-argument map, as the one Dist::dist_sample unwraps')
    rep.rule('C13.R2', 'every return of Dist::sample is f64::max(0.0, dist_sample + start) (which absorbs NaN) and, exactly when self.max > 0.0, '
             'f64::min(that, self.max); f64::clamp is not accepted (it propagates NaN)')
    rep.rule('C13.R3', 'Uniform: gen_range is called on the half-open low..high only behind low != high; validate\'s Uniform arm reaches Ok only '
             'across the six rejecting edges (NaN x2, infinite x2, low > high, infinite width)')
    rep.rule('C13.R4', 'speed guards: Binomial trials and probability, Geometric probability and Poisson lambda are compared against constants '
             'on every Ok path (constants reported)')
    rep.rule('C13.R5', 'consumers convert samples with saturating `as` casts only')
    vfn = prog.fn(FW, 'Dist', 'validate')
    sfn = prog.fn(FW, 'Dist', 'dist_sample')
    tab = dist_ctor_table(ctx, rep)
    variants = prog.variants('maybenot::dist::DistType')
    # exhaustive: every variant except Uniform has exactly one constructor
    va = an.get(vfn)
    sa = an.get(sfn)
    cov_v = {a[0][0] for cs in ctor_calls(va).values() for (b, a, e) in cs if a}
    cov_s = {a[0][0] for cs in ctor_calls(sa).values() for (b, a, e) in cs if a}
    for v in variants:
        if v == 'Uniform':
            continue
        rep.ob('C13.R1', vfn, 'variant-has-constructor:' + v, v in cov_v and v in cov_s, 'validate: %s, dist_sample: %s' % (v in cov_v, v in cov_s))
    rep.count_exact('C13.R1', 'constructor table rows', len(tab), len(variants) - 1)
    # each dist_sample arm returns the sample of the unwrapped constructor (or low for the constant uniform)
    pfs = an.paths(sfn, history=True)
    for (b, k, v) in ret_defs(sa):
        for S in pfs.at(b, k):
            var = [f[2] for f in S if f[0] == 'variant' and f[2] in variants]
            if not var:
                rep.ob('C13.R1', sfn, 'return-under-variant', False, 'return %s not under a DistType variant' % shape(v))
                continue
            vn = var[0]
            x = v
            while x[0] == 'cast':
                x = x[3]
            if vn == 'Uniform':
                ok = (is_call(x, 'gen_range')) or (src_field(x) is not None and src_field(x)[1:] == ('Uniform', 'low'))
            else:
                ok = is_call(x, 'Distribution::sample') and contains(x, lambda y: is_call(y, '::unwrap')) and \
                    contains(x, lambda y: is_call(y, '::new') and 'rand_distr' in y[1] and any((src_field(a) or ('', '', ''))[1] == vn for a in y[2]))
            rep.ob('C13.R1', sfn, 'arm-samples-own-constructor:' + vn, ok, 'returns %s' % shape(v))
    # R2
    fn = prog.fn(FW, 'Dist', 'sample')
    fa = an.get(fn)
    pf = an.paths(fn, history=True)

    def is_max0(e):
        if not (is_call(e, '::max') and 'f64' in e[1]):
            return False
        a, b2 = e[2]
        other = b2 if is_const(a, 0.0) else (a if is_const(b2, 0.0) else None)
        if other is None:
            return False
        return other[0] == 'bin' and other[1] == 'Add' and ((is_call(other[2], '::dist_sample') and is_field(other[3], 'start', 'Dist')) or
                                                            (is_call(other[3], '::dist_sample') and is_field(other[2], 'start', 'Dist')))

    def cap_operand(x):
        """the second operand of the cap: self.max, or (where no max is set) a value that cannot lower a non-negative
        sample to something wrong: +infinity, or a literal that is only used behind its own `> 0.0` test"""
        alts = x[1] if x[0] == 'phi' else (x,)
        flat = []
        for a in alts:
            a = unload(a) if a[0] in ('pick',) else a
            if is_call(a, 'unwrap_or') and len(a[2]) == 2:
                inner = a[2][0]
                ia = inner[1] if inner[0] == 'phi' else (inner,)
                for y in ia:
                    if y[0] == 'agg' and y[2] == 'Some':
                        flat.append(dict(y[3]).get('0'))
                    elif not (y[0] == 'agg' and y[2] == 'None'):
                        flat.append(y)
                flat.append(a[2][1])
            else:
                flat.append(a)
        has_max = any(is_field(y, 'max', 'Dist') for y in flat)
        rest = [y for y in flat if not is_field(y, 'max', 'Dist')]
        ok_rest = all((num(y) is not None and (num(y) == float('inf') or num(y) == 0.0)) or (y[0] == 'cdef' and y[1].endswith('INFINITY')) for y in rest)
        return has_max, ok_rest

    def judge(v):
        """(every alternative is max(0.0, sample + start) possibly capped, some alternative is capped by self.max)"""
        alts = v[1] if v[0] == 'phi' else (v,)
        allok, capped_by_max = True, False
        for a in alts:
            if is_max0(a):
                continue
            if is_call(a, '::min') and 'f64' in a[1] and len(a[2]) == 2:
                m0, x = (a[2][0], a[2][1]) if is_max0(a[2][0]) else (a[2][1], a[2][0])
                if is_max0(m0):
                    hm, okr = cap_operand(x)
                    if okr:
                        capped_by_max = capped_by_max or hm
                        continue
            allok = False
        return allok, capped_by_max
    n = 0
    for (b, k, v) in ret_defs(fa):
        for S in pf.at(b, k):
            n += 1
            capped = has_cmp(S, 'lt', lambda l: is_const(l, 0.0), lambda r: is_field(r, 'max', 'Dist'), True)
            exact_capped = is_call(v, '::min') and 'f64' in v[1] and ((is_max0(v[2][0]) and is_field(v[2][1], 'max', 'Dist')) or (is_max0(v[2][1]) and is_field(v[2][0], 'max', 'Dist')))
            allok, by_max = judge(v)
            if capped:
                rep.ob('C13.R2', fn, 'capped-return', exact_capped or (allok and by_max), 'returns %s when max > 0' % shape(v))
            else:
                unset = has_cmp(S, 'lt', lambda l: is_const(l, 0.0), lambda r: is_field(r, 'max', 'Dist'), False)
                tested = unset or capped
                # a return that did not branch on max at all must carry the cap in its value
                ok = (unset and (is_max0(v) or allok)) or (not tested and allok and by_max)
                rep.ob('C13.R2', fn, 'uncapped-return', ok, 'returns %s when max is not set' % shape(v))
    rep.count_floor('C13.R2', 'return paths of Dist::sample', n, 2)
    clamp_calls = [callee_str(f) for (b, f, a, t) in calls(fa) if callee_str(f).endswith('::clamp')]
    rep.ob('C13.R2', fn, 'no-clamp', not clamp_calls, 'clamp calls: %s' % clamp_calls)
    # R3
    uf = uniform_validate_facts(ctx)
    for k2, v2 in uf.items():
        rep.ob('C13.R3', vfn, 'uniform:' + k2, v2, 'every Ok path of the Uniform arm crosses the %s edge' % k2)
    check_uniform_sampler(ctx, rep, 'C13.R3')
    # R4 speed guards
    pfv = an.paths(vfn, history=True)
    guards = {'Binomial': [('trials', 'upper')], 'Geometric': [], 'Poisson': [('lambda', 'upper')]}
    consts_seen = {}
    for (b, k, v) in ret_defs(va):
        if not is_ok_ret(v):
            continue
        for S in pfv.at(b, k):
            var = [f[2] for f in S if f[0] == 'variant' and f[2] in variants]
            if not var:
                continue
            vn = var[0]

            def fld(e, name):
                sf = src_field(e)
                return sf is not None and sf[1] == vn and sf[2] == name
            if vn in ('Binomial', 'Geometric'):
                # probability == 0.0, or probability < MIN is false
                z = has_cmp(S, 'ne', lambda l: fld(l, 'probability'), lambda r: is_const(r, 0.0), False) or \
                    has_cmp(S, 'eq', lambda l: fld(l, 'probability'), lambda r: is_const(r, 0.0), True)
                lo = [f for f in S if f[0] == 'cmp' and f[1] == 'lt' and f[5] is False and fld(f[2], 'probability') and num(f[3]) is not None]
                for f in lo:
                    consts_seen[vn + '.probability.min'] = num(f[3])
                rep.ob('C13.R4', vfn, '%s:probability-lower-guard' % vn, z or bool(lo), '')
            if vn == 'Binomial':
                up = [f for f in S if f[0] == 'cmp' and f[1] == 'lt' and f[5] is False and num(f[2]) is not None and fld(f[3], 'trials')]
                for f in up:
                    consts_seen['Binomial.trials.max'] = num(f[2])
                rep.ob('C13.R4', vfn, 'Binomial:trials-upper-guard', bool(up), '')
            if vn == 'Poisson':
                up = [f for f in S if f[0] == 'cmp' and f[1] == 'lt' and f[5] is False and num(f[2]) is not None and fld(f[3], 'lambda')]
                for f in up:
                    consts_seen['Poisson.lambda.max'] = num(f[2])
                rep.ob('C13.R4', vfn, 'Poisson:lambda-upper-guard', bool(up), '')
    rep.extra['speed_guard_constants'] = consts_seen
    rep.count_floor('C13.R4', 'speed guard constants found', len(consts_seen), 3)
    # R5 consumers
    for (adt, name) in (('Action', 'sample_timeout'), ('Action', 'sample_duration'), ('Action', 'sample_limit'), ('Counter', 'sample_value')):
        f = prog.fn(FW, adt, name)
        fa2 = an.get(f)
        for (b, k, v) in ret_defs(fa2):
            if num(v) is not None:
                continue
            v = expand_calls(ctx, v)
            alts = [a for a in (v[1] if v[0] == 'phi' else (v,)) if num(a) is None]
            ok = bool(alts) and all(a[0] == 'cast' and a[1] == 'FloatToInt' and contains(a, lambda x: is_call(x, 'Dist::sample') or is_call(x, 'Dist::dist_sample'))
                                    for a in alts)
            rep.ob('C13.R5', f, 'saturating-cast', ok, 'returns %s' % shape(v))
        bad = [callee_str(c) for (b, c, a, t) in calls(fa2) if any(x in callee_str(c) for x in ('to_int_unchecked', 'TryInto', 'try_from', 'try_into', 'transmute'))]
        rep.ob('C13.R5', f, 'no-unchecked-conversion', not bad, 'conversions: %s' % bad)
    if ctx.tier == 'thorough':
        thorough_rand_distr(ctx, rep)
    rep.assumptions += ["prompt termination and panic-freedom of rand_distr's samplers for validated parameters is NOT decided (their loops depend on random words)",
                        'every CFG path is treated as feasible']
    rep.rule('C13.R6', 'premise of the sampling guarantees: every distribution that the framework can sample (timeout, duration and limit of each '
             'action, the value distribution of each counter) is validated by its owner before the machine is accepted')
    check_all_dists_validated(ctx, rep, 'C13.R6')
    return 'validate/sample interface of distributions: constructor agreement, NaN-absorbing clamp, Uniform guards, speed guards, saturating consumers'


def thorough_rand_distr(ctx, rep):
    """report-only inventory of the rand_distr sampler bodies + NaN rejection of the probability constructors"""
    prog, an = ctx.prog, ctx.an
    rep.rule('C13.T1', '(thorough) rand_distr constructors used by maybenot reject NaN probabilities: every Ok return of Binomial::new / '
             'Geometric::new lies behind an ordered comparison or finiteness test of p that is false for NaN')
    inv = {}
    for f in prog.crate_fns('rand_distr'):
        if not f.has_body or f.name != 'sample':
            continue
        fa = an.get(f)
        loops = len(fa.cfg.loops())
        asserts = sum(1 for b in fa.cfg.reach if fa.blocks[b]['t']['k'] == 'assert')
        panics = sum(1 for (b, c, a, t) in calls(fa) if 'panic' in callee_str(c) or callee_str(c).endswith('::unwrap') or callee_str(c).endswith('::expect'))
        inv[f.short()] = {'loops': loops, 'asserts': asserts, 'panicking_calls': panics}
    rep.extra['rand_distr_sampler_inventory'] = inv
    for (adt, pname) in (('Binomial', 2), ('Geometric', 1)):
        f = prog.fn_opt('rand_distr', adt, 'new')
        if f is None:
            rep.fail_closed('C13.T1', 'rand_distr::%s::new' % adt)
            continue
        fa = an.get(f)
        pf = an.paths(f, history=True)
        for (b, k, v) in ret_defs(fa):
            if not is_ok_ret(v):
                continue
            p = ('param', pname)

            def rejects_nan(S):
                for fct in S:
                    if fct[0] == 'cmp' and fct[5] is True and fct[1] in ('lt', 'le') and (fct[2] == p or fct[3] == p):
                        return True
                    if fct[0] == 'cmp' and fct[5] is False and fct[1] in ('lt', 'le') and False:
                        return True
                    if fct[0] == 'bcall' and fct[1].endswith('is_finite') and fct[3] is True:
                        return True
                    if fct[0] == 'bcall' and fct[1].endswith('is_nan') and fct[3] is False:
                        return True
                    # !(p >= 0 && p <= 1) style: a negated conjunction is expressed as edges, covered above
                return False
            ok, w = all_paths(pf.at(b, k), rejects_nan)
            rep.ob('C13.T1', f, 'probability-nan-rejected', ok, '' if ok else show_facts(w))


# ------------------------------------------------------------------ C12

def nan_safe_bounds(S, is_x, lo, hi, lo_strict=False):
    """facts on path S imply lo <= x <= hi (lo < x when lo_strict) and x is not NaN"""
    # RangeInclusive::contains
    for f in S:
        if f[0] == 'bcall' and f[1].endswith('contains') and f[3] is True and len(f[2]) == 2 and is_x(f[2][1]):
            r = f[2][0]
            if is_call(r, 'RangeInclusive::<Idx>::new') and num(r[2][0]) is not None and num(r[2][1]) is not None:
                if num(r[2][0]) >= lo and num(r[2][1]) <= hi and not (lo_strict and num(r[2][0]) <= lo):
                    return True
    low = up = False
    for f in S:
        if f[0] != 'cmp' or f[5] is not True or f[1] not in ('lt', 'le'):
            continue
        # c (<|<=) x
        if is_x(f[3]) and num(f[2]) is not None:
            c = num(f[2])
            if c > lo or (c == lo and (f[1] == 'lt' or not lo_strict)):
                low = True
        if is_x(f[2]) and num(f[3]) is not None:
            c = num(f[3])
            if c <= hi:
                up = True
    return low and up


def fa_block_term(fa, b):
    return fa.blocks[b]['t']


def insert_false_edge_fails(fa, pf, b):
    """the bool returned by the HashSet::insert call of block b is tested, and no Ok return is reachable on a path that saw it
    return false (the element was already present)"""
    t = fa.blocks[b]['t']
    if t['k'] != 'call' or t['d']['pr']:
        return False
    seen_test = False
    for (rb, rk, rv) in ret_defs(fa):
        if not is_ok_ret(rv):
            continue
        for S in pf.at(rb, rk):
            for f2 in S:
                if f2[0] == 'bcall' and f2[1].endswith('::insert') and 'HashSet' in f2[1]:
                    seen_test = True
                    if f2[3] is False:
                        return False
    # the test must exist somewhere: some path carries the false outcome (and, by the loop above, none of them returns Ok)
    for bb in sorted(fa.cfg.reach):
        for S in pf.at_entry(bb):
            if any(f2[0] == 'bcall' and f2[1].endswith('::insert') and 'HashSet' in f2[1] and f2[3] is False for f2 in S):
                return True
    return False


def check_all_dists_validated(ctx, rep, rid):
    """every Dist held by an Action variant or a Counter is validated by the owner's validate()"""
    prog, an = ctx.prog, ctx.an
    # Action::validate: every Dist field
    av = prog.fn(FW, 'Action', 'validate')
    aa = an.get(av)
    ap = an.paths(av, history=True)
    avariants = prog.adt('maybenot::action::Action')['variants']
    covered = set()
    for (b, k, v) in ret_defs(aa):
        if not is_ok_ret(v):
            continue
        for S in ap.at(b, k):
            var = [f[2] for f in S if f[0] == 'variant' and f[2] in [x['name'] for x in avariants]]
            nots = [x for f in S if f[0] == 'notvariant' for x in f[2]]
            names = var[:1] if var else [x['name'] for x in avariants if x['name'] not in nots]
            for n in names:
                covered.add(n)
                vd = prog.variant('maybenot::action::Action', n)
                for fl in vd['fields']:
                    if 'dist::Dist' not in fl['ty']:
                        continue
                    fname = fl['name']

                    def reads_field(y):
                        sf = src_field(y)
                        return sf is not None and sf[1] == n and sf[2] == fname
                    called = continue_of(S, lambda y: is_call(y, 'Dist::validate') and contains(y, lambda z: reads_field(z) or (isinstance(z, tuple) and z and z[0] == 'fld' and z[3] == fname and z[1][0] == 'var' and z[1][2] == n)))
                    optional = 'option::Option<' in fl['ty'][:30]
                    none = optional and any(f[0] == 'variant' and f[2] == 'None' and contains(f[1], lambda z: isinstance(z, tuple) and z and z[0] == 'fld' and z[3] == fname) for f in S)
                    rep.ob(rid, av, 'dist-field:%s.%s' % (n, fname), called or none, 'Dist::validate succeeded on %s.%s%s' % (n, fname, ' (or it is None)' if optional else ''))
    for x in avariants:
        rep.ob(rid, av, 'variant-covered:' + x['name'], x['name'] in covered, '')
    cv = prog.fn(FW, 'Counter', 'validate')
    ca = an.get(cv)
    cp = an.paths(cv, history=True)
    n_cv = 0
    for (b, k, v) in ret_defs(ca):
        v2 = expand_calls(ctx, v)
        if v2[0] == 'phi' or is_call(v2, 'Dist::validate'):
            # combinator form: Ok(()) when there is no dist, else the result of Dist::validate on it
            alts = v2[1] if v2[0] == 'phi' else (v2,)
            okc = all(is_ok_ret(a) or (is_call(a, 'Dist::validate') and contains(a, lambda y: isinstance(y, tuple) and y and y[0] == 'var' and y[2] == 'Some' and is_field(y[1], 'dist', 'Counter'))) for a in alts) and \
                any(is_call(a, 'Dist::validate') for a in alts)
            n_cv += 1
            rep.ob(rid, cv, 'counter-dist-validated', okc, 'returns %s' % shape(v2))
            continue
        if not is_ok_ret(v):
            continue
        for S in cp.at(b, k):
            n_cv += 1
            none = any(f[0] == 'variant' and f[2] == 'None' and is_field(f[1], 'dist', 'Counter') for f in S)
            val = continue_of(S, lambda y: is_call(y, 'Dist::validate'))
            rep.ob(rid, cv, 'counter-dist-validated', none or val, '')
    rep.count_floor(rid, 'judged return paths of Counter::validate', n_cv, 1)


def check_state_vectors(ctx, rep, r1, r3):
    """State::validate: every transition that passes has a NaN-safely established probability in (0, 1], a target in range (or a pseudo
    state), no duplicate target, and every vector a sum <= 1"""
    prog, an = ctx.prog, ctx.an
    # State::validate per element
    sv = prog.fn(FW, 'State', 'validate')
    sa = an.get(sv)
    sp = an.paths(sv)  # state mode: per-iteration facts are invalidated when the iterator advances
    loops = sa.cfg.loops()
    # the element loop: the loop whose body reads Trans fields
    elem_loops = []
    for h, body in loops.items():
        reads = False
        for b in body:
            for k, s in enumerate(sa.blocks[b]['s']):
                if 'p' in s and s['rv']['k'] != 'setdiscr':
                    e = sa.rvalue(s['rv'], (b, k))
                    if contains(e, lambda x: isinstance(x, tuple) and x and x[0] == 'fld' and 'Trans' in x[2]):
                        reads = True
        if reads:
            elem_loops.append(h)
    inner = [h for h in elem_loops if not any(h2 != h and h2 in loops[h] for h2 in elem_loops)]
    rep.count_exact(r3, 'transition element loops in State::validate', len(inner), 1)

    def is_t(e, idx):
        e = unload(e)
        return e[0] == 'fld' and e[3] == idx and 'Trans' in e[2]
    end = prog.const_val('maybenot::constants::STATE_END')
    sig = prog.const_val('maybenot::constants::STATE_SIGNAL')
    for h in inner:
        body = loops[h]
        for (x, lab) in sa.cfg.pred[h]:
            if x not in body:
                continue
            for S in sp.on_edge(x, h):
                okp = nan_safe_bounds(S, lambda e: is_t(e, '1'), 0.0, 1.0, lo_strict=True)
                rep.ob(r1, sv, 'probability:Trans.1', okp, 'every element that passes has 0 < p <= 1 established NaN-safely' + ('' if okp else '; witness: ' + show_facts(S)))
                # target bound
                in_range = cmp_int_true(S, 'lt', lambda l: is_t(l, '0'), lambda r: r == ('param', 2))
                is_end = cmp_int_true(S, 'eq', lambda l: is_t(l, '0'), lambda r: (r[0] == 'cdef' and r[1].endswith('STATE_END')) or is_const(r, int(end)))
                is_sig = cmp_int_true(S, 'eq', lambda l: is_t(l, '0'), lambda r: (r[0] == 'cdef' and r[1].endswith('STATE_SIGNAL')) or is_const(r, int(sig)))
                rep.ob(r3, sv, 'target-bound', in_range or is_end or is_sig, 'target < num_states or END or SIGNAL on every passing path' + ('' if (in_range or is_end or is_sig) else '; witness: ' + show_facts(S)))

        # the target is inserted into `seen` on every iteration
        ins = [b for (b, f, a, t) in calls(sa) if b in body and callee_str(f).endswith('::insert') and 'HashSet' in callee_str(f)]
        from .rules_limits import min_max_on_paths
        lo, hi = min_max_on_paths(sa, h, set(ins), body, stop_at_header=True)
        rep.ob(r3, sv, 'target-recorded-every-iteration', lo >= 1, 'insert on every iteration path: min %s' % lo)
        for (b, f, a, t) in calls(sa):
            if b in ins:
                rep.ob(r3, sv, 'records-the-target', is_t(a[1], '0'), 'insert(%s)' % show(a[1]))
                for S in sp.at_entry(b):
                    dup = any(f2[0] == 'bcall' and f2[1].endswith('contains') and f2[3] is False and 'HashSet' in f2[1] and
                              is_t(f2[2][1] if f2[2][1][0] != 'refv' else f2[2][1][1], '0') for f2 in S)
                    if not dup:
                        # `if !seen.insert(target) { Err(..)? }`: insert itself reports the duplicate; every path on from its
                        # false edge must fail
                        tt = fa_block_term(sa, b)
                        dup = insert_false_edge_fails(sa, sp, b)
                    rep.ob(r3, sv, 'duplicate-target-rejected', dup, 'the target is recorded only after seen.contains(target) was false' + ('' if dup else '; witness: ' + show_facts(S)))
    # per-event sum: at the outer loop back edge
    outer = [h for h in loops if h not in inner and any(i in loops[h] for i in inner)]
    rep.count_exact(r3, 'per-event loops in State::validate', len(outer), 1)
    sph = an.paths(sv, history=True)
    # the walk is unconditional: no Ok is produced on a path that did not enter the per-event loop (a memoised / skipped walk
    # accepts a state that was never checked against this num_states)
    n_ok = 0
    for h in outer:
        for (b, k, v) in ret_defs(sa):
            if contains(v, lambda y: isinstance(y, tuple) and y and y[0] == 'agg' and y[2] == 'Ok'):
                n_ok += 1
                rep.ob(r3, sv, 'transitions-walked-before-every-Ok', sa.cfg.dominates(h, b), 'the loop over the transition vectors dominates the Ok result')
    rep.count_floor(r3, 'Ok results of State::validate behind the transition walk', n_ok, 1)
    for h in outer:
        body = loops[h]
        for (x, lab) in sa.cfg.pred[h]:
            if x not in body:
                continue
            for S in sph.on_edge(x, h):
                no_vec = any(f[0] == 'variant' and f[2] == 'None' and not (is_call(unload(f[1]), 'Iterator>::next') or is_call(unload(f[1]), 'Iterator::next')) for f in S)
                if no_vec:
                    continue

                def is_sum(e):
                    if contains(e, lambda y: isinstance(y, tuple) and y and y[0] == 'bin' and y[1] == 'Add' and is_t(y[3], '1')) or e[0] in ('phi', 'rec', 'load'):
                        return True
                    # `vector.iter().map(|t| t.1).sum::<f32>()`
                    return contains(e, lambda y: is_call(y, 'Iterator::sum') or is_call(y, 'Sum>::sum')) and \
                        contains(e, lambda y: is_call(y, '<impl [T]>::iter') or is_call(y, 'Vec::<T, A>::iter') or is_call(y, 'into_iter'))
                up = has_cmp(S, 'lt', lambda l: is_const(l, 1.0), is_sum, False) or has_cmp(S, 'le', is_sum, lambda r: is_const(r, 1.0), True)
                rep.ob(r3, sv, 'per-event-sum-bounded', up, 'sum <= 1 established for every event with a vector' + ('' if up else '; witness: ' + show_facts(S)))
    # sum accumulation: sum += t.1 on every element iteration (a sum that is not a sum bounds nothing)
    for h in inner:
        body = loops[h]
        ops = []
        blocks_with = set()
        for b in body:
            for k, st0 in enumerate(sa.blocks[b]['s']):
                if 'p' in st0 and st0['rv']['k'] == 'bin':
                    e = sa.rvalue(st0['rv'], (b, k))
                    if isinstance(e, tuple) and e[0] == 'bin' and (is_t(e[2], '1') or is_t(e[3], '1')) and e[1] in ('Add', 'Sub', 'Mul', 'Div'):
                        ops.append(e[1])
                        blocks_with.add(b)
        uses_sum_adaptor = any(callee_str(f).endswith('Iterator::sum') or callee_str(f).endswith('Sum>::sum') for (b, f, a, t) in calls(sa))
        if ops or not uses_sum_adaptor:
            from .rules_limits import min_max_on_paths
            lo, hi = min_max_on_paths(sa, h, blocks_with, body, stop_at_header=True) if blocks_with else (0, 0)
            rep.ob(r3, sv, 'probabilities-are-added-up', set(ops) == {'Add'} and lo >= 1, 'arithmetic on Trans.1 in the element loop: %s, on every iteration: %s' % (sorted(set(ops)), lo >= 1))
    return sv, sa, sph


def check_C12(ctx, rep):
    prog, an = ctx.prog, ctx.an
    rep.rule('C12.R1', 'NaN-rejection: for every probability/fraction (Machine.max_padding_frac, Machine.max_blocking_frac, Trans.1, the two '
             'Framework::new fractions) every path to an Ok return crosses edges that imply "not NaN and within bounds": the TRUE edge of an '
             'ordered comparison on each side, or the true edge of RangeInclusive::contains; false edges of < / > imply nothing')
    rep.rule('C12.R2', 'Machine::new and from_str (and the v1 parser through Machine::new) return Ok(m) only after m.validate() succeeded on that '
             'same value; Framework::new validates every machine before Ok; Machine values are constructed only in Machine::new and in '
             'derived code')
    rep.rule('C12.R3', 'coverage of the validate tree: Machine::validate validates every state with num_states = states.len(); State::validate '
             'checks, for every transition element, target bound (< num_states or a pseudo-state), duplicates and probability, the per-event '
             'sum after the element loop, and validates the action and both counters; Action::validate validates every Dist / Option<Dist> '
             'field of every variant; Counter::validate its dist')
    rep.rule('C12.R4', 'a machine with zero states or more than STATE_MAX states is rejected')
    # ---- R1 machine fractions
    mv = prog.fn(FW, 'Machine', 'validate')
    ma = an.get(mv)
    mp = an.paths(mv, history=True)
    oks = [(b, k, v) for (b, k, v) in ret_defs(ma) if is_ok_ret(v)]
    rep.count_floor('C12.R1', 'Ok returns of Machine::validate', len(oks), 1)
    for fld_ in ('max_padding_frac', 'max_blocking_frac'):
        for (b, k, v) in oks:
            ok, w = all_paths(mp.at(b, k), lambda S: nan_safe_bounds(S, lambda e: is_field(e, fld_, 'Machine'), 0.0, 1.0))
            rep.ob('C12.R1', mv, 'fraction:' + fld_, ok, 'Ok only through NaN-safe bounds of %s' % fld_ + ('' if ok else '; witness: ' + show_facts(w)))
    nw = prog.fn(FW, 'Framework', 'new')
    na = an.get(nw)
    npf = an.paths(nw, history=True)
    oksn = [(b, k, v) for (b, k, v) in ret_defs(na) if is_ok_ret(v)]
    for (pi, nm) in ((2, 'max_padding_frac'), (3, 'max_blocking_frac')):
        for (b, k, v) in oksn:
            ok, w = all_paths(npf.at(b, k), lambda S: nan_safe_bounds(S, lambda e: e == ('param', pi) or e == ('refv', ('param', pi)) or unload(e) == ('local', pi), 0.0, 1.0))
            rep.ob('C12.R1', nw, 'fraction:' + nm, ok, 'Framework::new Ok only through NaN-safe bounds of %s' % nm + ('' if ok else '; witness: ' + show_facts(w)))
    rep.count_floor('C12.R1', 'Ok returns of Framework::new', len(oksn), 1)
    sv, sa, sph = check_state_vectors(ctx, rep, 'C12.R1', 'C12.R3')
    # action / counters validated
    oks_s = [(b, k, v) for (b, k, v) in ret_defs(sa) if is_ok_ret(v)]
    rep.count_floor('C12.R3', 'Ok returns of State::validate', len(oks_s), 1)
    for (b, k, v) in oks_s:
        for S in sph.at(b, k):
            for (what, pred, callee) in (('action', lambda e: is_field(e, 'action', 'State'), 'Action::validate'),
                                         ('counter.0', lambda e: unload(e)[0] == 'fld' and unload(e)[3] == '0' and is_field(unload(e)[1], 'counter', 'State'), 'Counter::validate'),
                                         ('counter.1', lambda e: unload(e)[0] == 'fld' and unload(e)[3] == '1' and is_field(unload(e)[1], 'counter', 'State'), 'Counter::validate')):
                none = any(f[0] == 'variant' and f[2] == 'None' and pred(f[1]) for f in S)
                val = continue_of(S, lambda y: is_call(y, callee) and contains(y, lambda z: isinstance(z, tuple) and z and z[0] == 'var' and z[2] == 'Some' and pred(z[1])))
                rep.ob('C12.R3', sv, 'validates:' + what, none or val, '%s is None or %s succeeded' % (what, callee))
    # Machine::validate -> State::validate for every state
    mloops = ma.cfg.loops()
    svc = [(b, f, a, t) for (b, f, a, t) in calls(ma) if callee_str(f).endswith('State::validate')]
    rep.count_exact('C12.R3', 'State::validate call sites in Machine::validate', len(svc), 1)
    for (b, f, a, t) in svc:
        hs = [h for h, body in mloops.items() if b in body]
        okl = len(hs) == 1
        if okl:
            body = mloops[hs[0]]
            from .rules_limits import min_max_on_paths
            lo, hi = min_max_on_paths(ma, hs[0], {b}, body, stop_at_header=True)
            okl = lo >= 1
            # iterates self.states
            nx = [(b2, f2, a2, t2) for (b2, f2, a2, t2) in calls(ma) if b2 in body and (callee_str(f2).endswith('Iterator>::next') or callee_decl(f2).endswith('Iterator::next'))]
            okl = okl and len(nx) == 1
            if okl:
                itl = nx[0][2][0]
                itl = itl[1][1] if itl[0] == 'ref' and itl[1][0] == 'local' else None
                dv = [ma.def_value(itl, bb, kk) for (bb, kk, part) in ma.defs().get(itl, [])] if itl is not None else []
                okl = len(dv) == 1 and contains(dv[0], lambda x: isinstance(x, tuple) and x and x[0] == 'fld' and x[3] == 'states') and is_call(dv[0], 'into_iter') or \
                    (len(dv) == 1 and contains(dv[0], lambda x: isinstance(x, tuple) and x and x[0] == 'fld' and x[3] == 'states'))
        rep.ob('C12.R3', mv, 'every-state-validated', bool(okl), 'State::validate inside the loop over self.states, on every iteration')
        ns = a[1]
        okn = is_call(ns, '::len') and contains(ns, lambda x: isinstance(x, tuple) and x and x[0] == 'fld' and x[3] == 'states')
        rep.ob('C12.R3', mv, 'num_states-is-states-len', okn, 'State::validate(_, %s)' % show(ns))
        # Ok only after the loop is exhausted; an Err from State::validate returns Err
        for (rb, rk, rv) in oks:
            okx = all(any(f2[0] == 'variant' and f2[2] == 'None' and contains(f2[1], lambda y: is_call(y, 'Iterator>::next') or is_call(y, 'Iterator::next')) for f2 in S) for S in mp.at(rb, rk))
            rep.ob('C12.R3', mv, 'Ok-only-after-all-states', okx, '')
        # the result is propagated
        okq = any(callee_decl(f2).endswith('Try::branch') and contains(strip_sites(a2[0]), lambda y: is_call(y, 'State::validate')) for (b2, f2, a2, t2) in calls(ma))
        if not okq:
            # no `?`: the error is returned as a value (`try_for_each(..)` as the tail expression).  Every return reached after
            # State::validate was found Err must be an Err, and such a path exists
            n_err = 0
            okq = True
            for (rb, rk, rv) in ret_defs(ma):
                for S in mp.at(rb, rk):
                    if any(f2[0] == 'variant' and f2[2] in ('Err', 'Break') and contains(f2[1], lambda y: is_call(y, 'State::validate')) for f2 in S):
                        n_err += 1
                        okq = okq and not is_ok_ret(rv)
            okq = okq and n_err >= 1
        rep.ob('C12.R3', mv, 'state-error-propagated', okq, 'State::validate(..)? ')
    # R4
    for (rb, rk, rv) in oks:
        def nonzero(S):
            return has_cmp(S, 'eq', lambda l: is_call(l, '::len'), lambda r: is_const(r, 0), False) or cmp_int_true(S, 'lt', lambda l: is_const(l, 0), lambda r: is_call(r, '::len'))

        def notmany(S):
            return has_cmp(S, 'lt', lambda l: l[0] == 'cdef' and l[1].endswith('STATE_MAX'), lambda r: is_call(r, '::len'), False) or \
                cmp_int_true(S, 'le', lambda l: is_call(l, '::len'), lambda r: r[0] == 'cdef' and r[1].endswith('STATE_MAX'))
        ok1, w1 = all_paths(mp.at(rb, rk), nonzero)
        ok2, w2 = all_paths(mp.at(rb, rk), notmany)
        rep.ob('C12.R4', mv, 'zero-states-rejected', ok1, '')
        rep.ob('C12.R4', mv, 'too-many-states-rejected', ok2, '')
    check_all_dists_validated(ctx, rep, 'C12.R3')
    # ---- R2
    check_validate_before_ok(ctx, rep, 'C12.R2')
    # Dist::validate arms (shared with C13.R1)
    tab = dist_ctor_table(ctx)
    rep.ob('C12.R3', prog.fn(FW, 'Dist', 'validate'), 'dist-arms-agree-with-sampler', all(tab.values()) and len(tab) == len(prog.variants('maybenot::dist::DistType')) - 1,
           'constructor table: %s' % {k.split('::')[-2]: v for k, v in tab.items()})
    uf = uniform_validate_facts(ctx)
    rep.ob('C12.R3', prog.fn(FW, 'Dist', 'validate'), 'uniform-parameters-rejected', all(uf.values()), '%s' % uf)
    # ... and the sampler those Uniform checks were written for is the one in use (validation accepts what *this* sampler handles)
    check_uniform_sampler(ctx, rep, 'C12.R3')
    if ctx.tier == 'thorough':
        thorough_rand_distr(ctx, rep)
    rep.assumptions += ['f32 summation error at the bound is not decided', 'every CFG path is treated as feasible',
                        'users of serde or of the public fields are re-validated by Framework::new']
    return 'NaN-safe range tests, validate-before-Ok on every constructor path, exhaustive coverage of the validate tree'


def check_validate_before_ok(ctx, rep, rid):
    prog, an = ctx.prog, ctx.an
    mnew = prog.fn(FW, 'Machine', 'new')
    fstr = prog.fn(FW, 'Machine', 'from_str', 'FromStr')
    for fn in (mnew, fstr):
        fa = an.get(fn)
        pf = an.paths(fn, history=True)
        n = 0
        for (b, k, v) in ret_defs(fa):
            if not is_ok_ret(v):
                continue
            n += 1
            m = dict(v[3]).get('0')
            ms = strip_sites(m)

            def validated(S):
                for f in S:
                    if f[0] == 'variant' and f[2] == 'Continue':
                        for y in walk(f[1]):
                            if is_call(y, 'Machine::validate'):
                                a0 = y[2][0]
                                a0 = a0[1] if a0[0] in ('refv',) else a0
                                if strip_sites(a0) == ms or show(a0).lstrip('&*') == show(ms).lstrip('&*'):
                                    return True
                return False
            ok, w = all_paths(pf.at(b, k), validated)
            rep.ob(rid, fn, 'validate-before-Ok', ok and bool(pf.at(b, k)), 'Ok(%s) only after validate()? on the same value' % shape(m) + ('' if ok else '; witness: ' + show_facts(w)))
        rep.count_floor(rid, 'Ok returns of ' + fn.short(), n, 1)
    # v1 parser goes through Machine::new
    p1 = prog.fn_opt(FW, None, 'parse_v1')
    if p1 is not None:
        pa = an.get(p1)
        for (b, k, v) in ret_defs(pa):
            okv = is_call(v, 'Machine::new') or (v[0] == 'agg' and v[2] == 'Err') or is_call(v, 'from_residual')
            rep.ob(rid, p1, 'v1-returns-Machine::new-or-Err', okv, 'returns %s' % shape(v))
        pm = prog.fn(FW, None, 'parse_v1_machine')
        pma = an.get(pm)
        for (b, k, v) in ret_defs(pma):
            okv = is_call(v, 'parse_v1') or (v[0] == 'agg' and v[2] == 'Err') or is_call(v, 'from_residual') or contains(v, lambda y: is_call(y, 'from_residual'))
            rep.ob(rid, pm, 'v1-machine-returns-parse_v1-or-Err', okv, 'returns %s' % shape(v))
    # Framework::new validates every machine before Ok
    nw = prog.fn(FW, 'Framework', 'new')
    na = an.get(nw)
    vcalls = [(b, f, a, t) for (b, f, a, t) in calls(na) if callee_str(f).endswith('Machine::validate')]
    rep.count_exact(rid, 'Machine::validate call sites in Framework::new', len(vcalls), 1)
    loops = na.cfg.loops()
    for (b, f, a, t) in vcalls:
        hs = [h for h, body in loops.items() if b in body]
        okl = len(hs) == 1
        if okl:
            from .rules_limits import min_max_on_paths
            lo, hi = min_max_on_paths(na, hs[0], {b}, loops[hs[0]], stop_at_header=True)
            okl = lo >= 1
            nx = [(b2, f2, a2, t2) for (b2, f2, a2, t2) in calls(na) if b2 in loops[hs[0]] and (callee_str(f2).endswith('Iterator>::next') or callee_decl(f2).endswith('Iterator::next'))]
            okl = okl and len(nx) == 1 and contains(a[0], lambda y: is_call(y, 'Iterator>::next') or is_call(y, 'Iterator::next'))
        rep.ob(rid, nw, 'every-machine-validated', bool(okl), 'validate() on each element of machines.as_ref()')
        okq = any(callee_decl(f2).endswith('Try::branch') and contains(strip_sites(a2[0]), lambda y: is_call(y, 'Machine::validate')) for (b2, f2, a2, t2) in calls(na))
        rep.ob(rid, nw, 'machine-error-propagated', okq, '')
    # constructors of Machine
    ctor = []
    for fn in prog.crate_fns(FW):
        if not fn.has_body or fn.derived or '::_::' in fn.key or '::_#' in fn.key or '::_:' in fn.key:
            continue
        fa = an.get(fn)
        if aggregates(fa, 'machine::Machine'):
            ctor.append(fn.short())
    rep.ob(rid, '<inventory>', 'Machine-constructed-only-in-Machine::new', ctor == ['Machine::new'], 'hand-written constructors: %s' % ctor)


# ------------------------------------------------------------------ C11

def const_eval(e):
    """numeric value of an expression built from constants with + - * (else None)"""
    n = num(e)
    if n is not None:
        return n
    if isinstance(e, tuple) and e and e[0] == 'bin' and e[1] in ('Add', 'Sub', 'Mul'):
        a, b = const_eval(e[2]), const_eval(e[3])
        if a is None or b is None:
            return None
        return a + b if e[1] == 'Add' else (a - b if e[1] == 'Sub' else a * b)
    if isinstance(e, tuple) and e and e[0] == 'cast':
        return const_eval(e[3])
    if isinstance(e, tuple) and e and e[0] in ('pick',):
        return const_eval(e[1])
    return None


def lower_bound(e):
    """a lower bound of an unsigned expression (unknown terms count as 0)"""
    n = const_eval(e)
    if n is not None:
        return n
    if isinstance(e, tuple) and e and e[0] == 'bin' and e[1] == 'Add':
        return lower_bound(e[2]) + lower_bound(e[3])
    if isinstance(e, tuple) and e and e[0] == 'bin' and e[1] == 'Mul':
        return lower_bound(e[2]) * lower_bound(e[3])
    if isinstance(e, tuple) and e and e[0] in ('cast', 'pick'):
        return lower_bound(e[-1] if e[0] == 'cast' else e[1])
    return 0


def len_guard(S, is_buf, ctx=None):
    """largest K such that the path established len(buf) >= K"""
    best = 0
    for f in S:
        if f[0] != 'cmp':
            continue
        if ctx is not None:
            f = f[:2] + (expand_calls(ctx, f[2]), expand_calls(ctx, f[3])) + f[4:]
        # !(len < K)  or  K <= len
        if f[1] == 'lt' and f[5] is False and is_call(f[2], '::len') and is_buf(f[2]):
            best = max(best, lower_bound(f[3]))
        if f[1] == 'le' and f[5] is True and is_call(f[3], '::len') and is_buf(f[3]):
            best = max(best, lower_bound(f[2]))
        if f[1] == 'lt' and f[5] is True and is_call(f[3], '::len') and is_buf(f[3]):
            best = max(best, lower_bound(f[2]) + 1)
        if f[1] == 'eq' and f[5] is True:
            for a, b in ((f[2], f[3]), (f[3], f[2])):
                if is_call(a, '::len') and is_buf(a) and const_eval(b) is not None:
                    best = max(best, const_eval(b))
    return best



def mentions_read(fa, e, depth=3):
    """the expression contains the result of Read::read, directly or through a loop-carried local (('rec', l): a local whose value
    at this point is defined later in the loop)"""
    if contains(e, lambda y: is_call(y, 'Read>::read')):
        return True
    if depth == 0:
        return False
    for y in walk(e):
        if isinstance(y, tuple) and len(y) == 2 and y[0] == 'rec' and isinstance(y[1], int):
            for (bb, kk, part) in fa.defs().get(y[1], []):
                if mentions_read(fa, fa.def_value(y[1], bb, kk), depth - 1):
                    return True
    return False


def is_running_total(e):
    return contains(e, lambda y: isinstance(y, tuple) and y and (y[0] == 'phi' or (y[0] == 'bin' and y[1] in ('Add', 'AddWithOverflow'))))


VEC_GROWERS = ('resize', 'resize_with', 'extend', 'extend_from_slice', 'extend_from_within', 'push', 'append', 'insert', 'set_len', 'reserve', 'splice')


def truncated_to_read(fa, src, bdes):
    """the other form of `&buf[..bytes_read]`: the whole read buffer after `buf.truncate(bytes_read)`; the single truncate dominates
    the deserialize call, its length argument is the result of the read, and no call that can grow a Vec receives the buffer"""
    seen = set()
    work = [x[1] for x in walk(src) if isinstance(x, tuple) and x and x[0] == 'local']
    bufs = set()
    while work:
        l = work.pop()
        if l in seen:
            continue
        seen.add(l)
        for (bb, kk, part) in fa.defs().get(l, []):
            d = fa.def_value(l, bb, kk)
            if is_call(d, 'from_elem'):
                bufs.add(l)
            for x in walk(d):
                if isinstance(x, tuple) and x and x[0] == 'local':
                    work.append(x[1])
    if len(bufs) != 1:
        return False
    buf = next(iter(bufs))
    trunc = []
    for (b, f, a, t) in calls(fa):
        cs = callee_str(f)
        for i, x in enumerate(a):
            if x[0] == 'ref' and x[1] == ('local', buf):
                if cs.endswith('Vec::<T, A>::truncate') and i == 0:
                    trunc.append((b, a))
                elif cs.split('::')[-1] in VEC_GROWERS:
                    return False
    if len(trunc) != 1:
        return False
    tb, ta = trunc[0]
    return mentions_read(fa, ta[1]) and fa.cfg.dominates(tb, bdes)


def check_read_until_full(ctx, rep, fs, fa):
    an = ctx.an
    reads = [b for (b, f, a, t) in calls(fa) if callee_str(f).endswith('Read>::read') and 'ZlibDecoder' in callee_str(f)]
    des = [b for (b, f, a, t) in calls(fa) if callee_str(f).endswith('Options::deserialize')]
    if len(reads) != 1 or len(des) != 1:
        rep.fail_closed('C11.R8', 'from_str: one decoder read site and one deserialize site (found %d / %d)' % (len(reads), len(des)))
        return
    r, d = reads[0], des[0]
    loops = fa.cfg.loops()
    inl = [(h, body) for h, body in loops.items() if r in body]
    rep.ob('C11.R8', fs, 'read-in-a-loop', bool(inl), 'the Read::read call on the decoder is %sinside a loop' % ('' if inl else 'not '))
    if not inl:
        return
    h, body = min(inl, key=lambda x: len(x[1]))
    pf = an.paths(fs, history=True, entry=h)

    def is_read_result(e):
        # the count returned by this iteration's read, not the running total
        return mentions_read(fa, e) and not is_running_total(e)

    def is_buf_len(e):
        return contains(e, lambda y: isinstance(y, tuple) and y and y[0] == 'call' and (y[1].endswith('::len') or y[1].endswith('::capacity'))) or \
            contains(e, lambda y: isinstance(y, tuple) and y and y[0] == 'cdef' and y[1] == 'maybenot::constants::MAX_DECOMPRESSED_SIZE')

    def done(S):
        for f in S:
            if f[0] == 'cmp' and f[1] == 'eq' and f[5] is True and ((is_read_result(f[2]) and is_const(f[3], 0)) or (is_read_result(f[3]) and is_const(f[2], 0))):
                return True     # n == 0: end of stream
            if f[0] == 'eqc' and is_read_result(f[1]) and str(f[2]) in ('0', '[0]', '(0,)'):
                return True
            if f[0] == 'cmp' and f[1] == 'lt' and f[5] is False and is_buf_len(f[3]) and not is_buf_len(f[2]):
                return True     # !(filled < buf.len()): buffer full
            if f[0] == 'cmp' and f[1] == 'le' and f[5] is True and is_buf_len(f[2]) and not is_buf_len(f[3]):
                return True     # buf.len() <= filled
        return False
    n = 0
    for x in sorted(body):
        for (y, lab) in fa.cfg.succ[x]:
            if y in body or not fa.cfg.can_reach(y, d):
                continue
            for S in pf.on_edge(x, y, lab):
                n += 1
                ok = done(S)
                rep.ob('C11.R8', fs, 'loop-exit-only-at-eof-or-full', ok, '' if ok else 'the read loop is left towards deserialize without a 0-byte read or a full buffer: %s' % show_facts(S))
    rep.count_floor('C11.R8', 'exits of the read loop towards deserialize', n, 1)
    # progress: a read of 0 bytes ends the loop (a stream shorter than the buffer would otherwise spin forever)
    eof_exit = False
    for x in sorted(body):
        for (y, lab) in fa.cfg.succ[x]:
            if y in body:
                continue
            for S in pf.on_edge(x, y, lab):
                for f in S:
                    if (f[0] == 'cmp' and f[1] == 'eq' and f[5] is True and ((is_read_result(f[2]) and is_const(f[3], 0)) or (is_read_result(f[3]) and is_const(f[2], 0)))) or \
                            (f[0] == 'eqc' and is_read_result(f[1]) and str(f[2]) in ('0', '[0]', '(0,)')):
                        eof_exit = True
    rep.ob('C11.R8', fs, 'loop-ends-at-end-of-stream', eof_exit, 'an exit of the read loop is taken when read() returned 0')
    # the fill count starts at zero: the first read goes to the start of the buffer and buf[..count] is exactly what was read
    accs = 0
    for l, ds in fa.defs().items():
        dvs = [fa.def_value(l, bb, kk) for (bb, kk, part) in ds]
        steps = [d for d in dvs if isinstance(d, tuple) and d and d[0] == 'bin' and d[1] in ('Add', 'AddWithOverflow') and mentions_read(fa, d)]
        if not steps or len(dvs) < 2:
            continue
        accs += 1
        inits = [d for d in dvs if d not in steps]
        ok0 = bool(inits) and all(is_const(d, 0) for d in inits)
        rep.ob('C11.R8', fs, 'fill-count-starts-at-zero', ok0, 'the running total of bytes read is initialised with %s' % [shape(d)[:20] for d in inits])
    rep.count_floor('C11.R8', 'running totals of bytes read', accs, 1)

def check_take_form(ctx, rep, fs, fa):
    """the other bounded inflate: `ZlibDecoder::new(..).take(MAX_DECOMPRESSED_SIZE).read_to_end(&mut vec)`; the limit sits on the
    decoder's *output*, the decoder is used for nothing else, and what is deserialised is the vector that was filled"""
    dec = [(b, a, fa.place_expr(fa.blocks[b]['t']['d'], (b, 0))) for (b, f, a, t) in calls(fa) if callee_str(f).endswith('ZlibDecoder::<R>::new')]
    takes = [(b, a, fa.place_expr(fa.blocks[b]['t']['d'], (b, 0))) for (b, f, a, t) in calls(fa) if callee_str(f).endswith('Read::take')]
    rep.ob('C11.R2', fs, 'take-form:one-decoder-one-take', len(dec) == 1 and len(takes) == 1, 'ZlibDecoder::new calls %d, Read::take calls %d' % (len(dec), len(takes)))
    if len(dec) != 1 or len(takes) != 1:
        return
    dl, tl = dec[0][2], takes[0][2]
    ta = takes[0][1]
    on_dec = contains(ta[0], lambda y: is_call(y, 'ZlibDecoder::<R>::new')) or (dl[0] == 'local' and contains(ta[0], lambda y: y == dl))
    rep.ob('C11.R2', fs, 'take-form:limit-on-the-decoder-output', on_dec, 'take() is applied to %s' % shape(ta[0]))
    lim = contains(ta[1], lambda y: isinstance(y, tuple) and y and y[0] == 'cdef' and y[1] == 'maybenot::constants::MAX_DECOMPRESSED_SIZE')
    rep.ob('C11.R2', fs, 'take-form:limit-is-MAX_DECOMPRESSED_SIZE', lim, 'take(%s)' % shape(ta[1]))
    readers = []
    for (b, f, a, t) in calls(fa):
        cs = callee_str(f)
        if cs.endswith('ZlibDecoder::<R>::new') or cs.endswith('Read::take'):
            continue
        direct = lambda x, l: l[0] == 'local' and strip_sites(x) in (l, ('ref', l), ('load', l))
        uses_dec = any(direct(x, dl) for x in a)
        uses_take = any(direct(x, tl) for x in a)
        if uses_dec:
            rep.ob('C11.R2', fs, 'decoder-borrowed-by:' + cs.split('::')[-1], False, 'the decoder is used outside take(): %s' % cs)
        if uses_take:
            okr = cs.endswith('Read::read_to_end') or cs.endswith('Read::read')
            rep.ob('C11.R2', fs, 'take-form:reader:' + cs.split('::')[-1], okr, 'the limited reader is used through %s' % cs)
            if cs.endswith('Read::read_to_end'):
                readers.append((b, a))
    rep.ob('C11.R8', fs, 'take-form:read_to_end-on-the-limited-reader', len(readers) == 1, 'read_to_end calls on the limited reader: %d' % len(readers))
    for (b, f, a, t) in calls(fa):
        if callee_str(f).endswith('Options::deserialize'):
            src = a[1]
            buf = None
            if readers:
                for x in walk(readers[0][1][1]):
                    if isinstance(x, tuple) and x and x[0] == 'local':
                        buf = x
            seen, work, ok = set(), [x for x in walk(src) if isinstance(x, tuple) and x and x[0] == 'local'], False
            while work:
                l = work.pop()
                if l in seen:
                    continue
                seen.add(l)
                if l == buf:
                    ok = True
                for (bb, kk, part) in fa.defs().get(l[1], []):
                    work += [x for x in walk(fa.def_value(l[1], bb, kk)) if isinstance(x, tuple) and x and x[0] == 'local']
            rep.ob('C11.R2', fs, 'deserialises-only-bytes-read', ok and readers and fa.cfg.dominates(readers[0][0], b), 'deserialize(%s) of the vector filled by read_to_end' % shape(src))
            rep.ob('C11.R2', fs, 'deserialises-with-limit', contains(a[0], lambda x: is_call(x, 'with_limit')), '')


def field_unread_by_framework(ctx, adt, field):
    """no function reachable from Framework::trigger_events reads `adt.field`, and the field is private"""
    prog, an = ctx.prog, ctx.an
    a = prog.adts[adt]
    fl = [f for v in a['variants'] for f in v['fields'] if f['name'] == field]
    if not fl or fl[0].get('pub'):
        return False
    key = ('unread', adt, field)
    if key in ctx.cache if hasattr(ctx, 'cache') else False:
        return ctx.cache[key]
    from .effects import Closure
    te = prog.fn(FW, 'Framework', 'trigger_events')
    cl = Closure(prog, [te] + prog.closures_of(te))
    res = True
    for k, g in cl.nodes.items():
        if g.crate != FW or not g.has_body:
            continue
        ga = an.get(g)
        for b in ga.cfg.reach:
            bb = ga.blocks[b]
            for kk, st in enumerate(bb['s']):
                if 'p' not in st or st['rv']['k'] == 'setdiscr':
                    continue
                e = ga.rvalue(st['rv'], (b, kk))
                pe = ga.place_expr(st['p'], (b, kk))
                if contains(e, lambda y: isinstance(y, tuple) and y and y[0] == 'fld' and y[3] == field and y[2] == adt) or \
                        contains(pe, lambda y: isinstance(y, tuple) and y and y[0] == 'fld' and y[3] == field and y[2] == adt):
                    res = False
            t = bb['t']
            if t['k'] == 'call':
                for x in t['a']:
                    if contains(ga.operand(x, (b, len(bb['s']))), lambda y: isinstance(y, tuple) and y and y[0] == 'fld' and y[3] == field and y[2] == adt):
                        res = False
    return res


def check_wire_layout(ctx, rep, rid):
    from .layout import wire_fingerprint, frozen
    prog, an = ctx.prog, ctx.an
    fz = frozen()
    if fz is None:
        rep.fail_closed(rid, 'sa/known_layout.json')
        return
    ver = str(prog.const_val('maybenot::constants::VERSION'))
    fp, lay = wire_fingerprint(prog, an)
    if ver != fz['version']:
        rep.ob(rid, 'constants', 'layout-free-under-a-new-VERSION', True, 'VERSION %s (table frozen for %s)' % (ver, fz['version']))
        return
    diff = []
    if fp != fz['fingerprint']:
        old = fz['layout']
        for k in sorted(set(old) | set(lay)):
            a, b = old.get(k), lay.get(k)
            if a is None or b is None:
                continue    # a renamed type: the fingerprint ignores names, the report cannot line it up
            if json.dumps(a) != json.dumps(b):
                av = [v[0] or '_' for v in a[1]]
                bv = [v[0] or '_' for v in b[1]]
                diff.append('%s: variants %s -> %s' % (k.split('::')[-1], av, bv) if av != bv else '%s: field types changed' % k.split('::')[-1])
    rep.ob(rid, 'wire-layout', 'layout-unchanged-under-VERSION-%s' % ver, fp == fz['fingerprint'], 'types %d; %s' % (len(lay), '; '.join(diff) or 'fingerprint matches the table'))


def check_C11(ctx, rep):
    prog, an = ctx.prog, ctx.an
    rep.rule('C11.R1', 'writer/reader agreement: serialize and from_str build the same bincode options (same resolved calls, same limit constant), '
             'use the same base64 engine constant, the same VERSION constant, and a zlib encoder resp. decoder')
    rep.rule('C11.R2', 'bounded inflate: in from_str the ZlibDecoder value is only constructed and read through one Read::read site into (a tail of) a '
             'buffer of exactly MAX_DECOMPRESSED_SIZE bytes that nothing can grow; no read_to_end/read_to_string/bytes/take/copy is applied to it; bincode deserialises '
             'buf[..bytes_read] (or the buffer truncated to bytes_read) with the limit')
    rep.rule('C11.R3', 'every Ok of from_str, Machine::new and the v1 parser is behind Machine::validate on the returned value (= C12.R2)')
    rep.rule('C11.R4', 'derive completeness: every crate-local type reachable from Machine\'s fields has derived Serialize and Deserialize and '
             'the derived bodies cover every declared field (serialize writes each field once, under its own name, from that field; visit_seq '
             'reads one element per field): this is how skip / rename / with would show, the helper attributes themselves are not part of the '
             'lowered program; name() is digest(serialize())')
    rep.rule('C11.R5', 'panic inventory of from_str: the two str slices are behind is_ascii and a length check of the string that is sliced (len >= 3 '
             'of the parameter, or of the derived string when a derived string is sliced), the unwrap behind the is_err return')
    rep.rule('C11.R6', 'legacy v1 parser: every slice / index of the input buffers with a constant bound is covered by a dominating length '
             'check (constant propagation of the read cursor, lower bound of the guard expression); non-constant bounds are reported as '
             'undischarged-out-of-scope, not as violations')
    fs = prog.fn(FW, 'Machine', 'from_str', 'FromStr')
    se = prog.fn(FW, 'Machine', 'serialize')
    fa = an.get(fs)
    sa_ = an.get(se)
    # ---- R1
    def opt_chain(fa_):
        out = []
        lim = None
        for (b, f, a, t) in calls(fa_):
            cs = callee_str(f)
            if cs.startswith('bincode::') or 'bincode::' in cs:
                out.append(cs)
                if cs.endswith('with_limit'):
                    lim = a[1]
        return out, lim
    c1, l1 = opt_chain(fa)
    c2, l2 = opt_chain(sa_)
    mk = lambda c: [x for x in c if not x.endswith('serialize') and not x.endswith('deserialize')]
    rep.ob('C11.R1', fs, 'same-bincode-options', mk(c1) == mk(c2) and len(mk(c1)) >= 2, 'from_str: %s / serialize: %s' % (mk(c1), mk(c2)))

    def limit_const(e):
        for x in walk(e):
            if isinstance(x, tuple) and x and x[0] == 'cdef':
                return x[1]
        return None
    rep.ob('C11.R1', fs, 'same-limit-constant', l1 is not None and l2 is not None and limit_const(l1) == limit_const(l2) == 'maybenot::constants::MAX_DECOMPRESSED_SIZE',
           'limits %s / %s' % (show(l1), show(l2)))
    rep.ob('C11.R1', fs, 'deserialize-serialize-pair', any(x.endswith('Options::deserialize') for x in c1) and any(x.endswith('Options::serialize') for x in c2), '')

    def engine(fa_, meth):
        for (b, f, a, t) in calls(fa_):
            if callee_decl(f).endswith('Engine::' + meth):
                return strip_sites(a[0])
        return None
    e1, e2 = engine(fa, 'decode'), engine(sa_, 'encode')
    rep.ob('C11.R1', fs, 'same-base64-engine', e1 is not None and e1 == e2, 'decode with %s / encode with %s' % (show(e1), show(e2)))

    def uses_const(fa_, key):
        for b in fa_.cfg.reach:
            bb = fa_.blocks[b]
            for k, s in enumerate(bb['s']):
                if 'p' in s and s['rv']['k'] != 'setdiscr':
                    if contains(fa_.rvalue(s['rv'], (b, k)), lambda x: isinstance(x, tuple) and x and x[0] == 'cdef' and x[1] == key):
                        return True
        for body in fa_.fn.promoted:
            if key in str(body):
                return True
        return False
    rep.ob('C11.R1', fs, 'same-version-constant', uses_const(fa, 'maybenot::constants::VERSION') and uses_const(sa_, 'maybenot::constants::VERSION'), '')
    # the version prefix is formatted the same way on both sides: the format template from_str compares the first two characters
    # with (a lone placeholder) is a prefix of the template serialize writes with (that placeholder followed by the payload)

    def templates(fn_):
        out = []
        for bb in fn_.blocks:
            for st in bb['s']:
                x = st.get('rv', {}).get('x', {}) if 'rv' in st else {}
                k = x.get('k') if isinstance(x, dict) else None
                if isinstance(k, dict) and str(k.get('text', '')).startswith('b"'):
                    out.append(k['text'][2:-1])
        return out
    import re as _re
    bare = lambda t: not _re.search(r'[A-Za-z ,:]{4,}', _re.sub(r'\\x[0-9a-f]{2}', '', t))
    tf = [t for t in templates(fs) if bare(t)]
    ts = templates(se)
    okt = len(tf) == 1 and len(ts) == 1 and tf[0].endswith('\\x00') and ts[0].startswith(tf[0][:-4]) and len(ts[0]) > len(tf[0])
    rep.ob('C11.R1', fs, 'version-prefix-formatted-alike', okt, 'from_str compares with template %s, serialize writes with %s' % (tf, ts))
    zdec = [cs for (b, f, a, t) in calls(fa) for cs in [callee_str(f)] if 'ZlibDecoder' in cs]
    zenc = [cs for (b, f, a, t) in calls(sa_) for cs in [callee_str(f)] if 'ZlibEncoder' in cs]
    rep.ob('C11.R1', fs, 'zlib-pair', any(c.endswith('::new') for c in zdec) and any(c.endswith('::new') for c in zenc), 'decoder calls %s / encoder calls %s' % (zdec, zenc))
    # ---- R2 / R8: two accepted forms of the bounded inflate
    rep.rule('C11.R8', 'the bounded read is repeated until the buffer is full or the stream ends: Read::read may return after any part of '
             'the payload (flate2 consumes its input in 32 KiB blocks), so the call sits in a loop and every way out of that loop towards '
             'the deserialisation has just seen a read of 0 bytes, or the fill count reach the buffer length (error returns excepted); '
             'or, in the Take form, read_to_end on decoder.take(MAX_DECOMPRESSED_SIZE) reads to the end of stream or the limit by contract')
    if any(callee_str(f).endswith('Read::take') for (b, f, a, t) in calls(fa)) and zdec:
        check_take_form(ctx, rep, fs, fa)
    else:
        # ---- R2
        def allowed_use(c):
            return ('ZlibDecoder' in c) and (c.endswith('ZlibDecoder::<R>::new') or (c.endswith('Read>::read') and 'io::Read' in c))
        for c in zdec:
            rep.ob('C11.R2', fs, 'decoder-use:' + c.split('::')[-1], allowed_use(c), 'ZlibDecoder used through %s' % c)
        rep.count_exact('C11.R2', 'Read::read calls on the decoder', sum(1 for c in zdec if c.endswith('Read>::read')), 1)
        deny = ('read_to_end', 'read_to_string', 'read_exact', '::bytes', 'io::copy', '::take', 'read_vectored', 'BufReader', '::chain', 'read_buf')
        for (b, f, a, t) in calls(fa):
            cs = callee_str(f)
            if any(d in cs for d in deny) and 'str' not in cs.split('::')[-2:][0]:
                rep.ob('C11.R2', fs, 'unbounded-read:' + cs.split('::')[-1], False, 'call to %s in from_str' % cs)
        # the decoder is not handed to any other function (e.g. by &mut) except read
        dec_locals = set()
        for (pe, v, site, mp) in stores(fa):
            if is_call(v, 'ZlibDecoder::<R>::new') and pe[0] == 'local':
                dec_locals.add(pe[1])
        for (b, f, a, t) in calls(fa):
            for x in a:
                if x[0] == 'ref' and x[1][0] == 'local' and x[1][1] in dec_locals:
                    rep.ob('C11.R2', fs, 'decoder-borrowed-by:' + callee_str(f).split('::')[-1], allowed_use(callee_str(f)), '%s' % callee_str(f))
        for (b, f, a, t) in calls(fa):
            if callee_str(f).endswith('Read>::read') and 'ZlibDecoder' in callee_str(f):
                buf = a[1]
                ok = contains(buf, lambda x: is_call(x, 'from_elem') and x[2][1][0] == 'cdef' and x[2][1][1] == 'maybenot::constants::MAX_DECOMPRESSED_SIZE')
                if not ok:
                    # buffer is a local vec: look at its definition
                    for x in walk(buf):
                        if isinstance(x, tuple) and x and x[0] == 'local':
                            dv = [fa.def_value(x[1], bb, kk) for (bb, kk, part) in fa.defs().get(x[1], [])]
                            ok = ok or any(is_call(d, 'from_elem') and d[2][1][0] == 'cdef' and d[2][1][1] == 'maybenot::constants::MAX_DECOMPRESSED_SIZE' for d in dv)
                rep.ob('C11.R2', fs, 'read-buffer-is-MAX_DECOMPRESSED_SIZE', ok, 'read into %s' % shape(buf))
        for (b, f, a, t) in calls(fa):
            if callee_str(f).endswith('Options::deserialize'):
                src = a[1]
                ok = contains(src, lambda x: isinstance(x, tuple) and x and x[0] == 'agg' and x[2] == 'RangeTo') and contains(src, lambda x: is_call(x, 'Read>::read'))
                if not ok:
                    ok = truncated_to_read(fa, src, b)
                rep.ob('C11.R2', fs, 'deserialises-only-bytes-read', ok, 'deserialize(%s)' % shape(src))
                okl = contains(a[0], lambda x: is_call(x, 'with_limit'))
                rep.ob('C11.R2', fs, 'deserialises-with-limit', okl, '')
        # ---- R8: completeness of the bounded read (finding F8)
        check_read_until_full(ctx, rep, fs, fa)
    # ---- R9 wire layout
    rep.rule('C11.R9', 'the wire layout belongs to the format version: bincode is positional, so for VERSION 2 the types reachable from Machine keep '
             'their variants in order (by name: the position of a variant is its meaning on the wire), their serialised field types in order, and '
             'Event keeps its order (its discriminant indexes State.transitions). A different layout under the same VERSION silently '
             're-interprets every stored machine string; a new VERSION is free to choose its layout')
    check_wire_layout(ctx, rep, 'C11.R9')
    # ---- R3
    check_validate_before_ok(ctx, rep, 'C11.R3')
    rep.rule('C11.R7', 'Machine::new stores each parameter in the same-named field; the v1 parser passes its decoded header values in that order; '
             'MAX_DECOMPRESSED_SIZE is the documented 1 MiB')
    check_machine_new_table(ctx, rep, 'C11.R7')
    rep.ob('C11.R7', 'constants', 'MAX_DECOMPRESSED_SIZE-is-1MiB', int(prog.const_val('maybenot::constants::MAX_DECOMPRESSED_SIZE')) == 1 << 20,
           'MAX_DECOMPRESSED_SIZE = %s' % prog.const_val('maybenot::constants::MAX_DECOMPRESSED_SIZE'))
    # ---- R4
    reach = set()
    work = ['maybenot::machine::Machine']
    while work:
        p = work.pop()
        if p in reach or p not in prog.adts:
            continue
        reach.add(p)
        for v in prog.adts[p]['variants']:
            for fl in v['fields']:
                for q in prog.adts:
                    if q.startswith('maybenot::') and q in fl['ty'] and q not in reach:
                        work.append(q)
    rep.count_floor('C11.R4', 'types reachable from Machine', len(reach), 8)
    for p in sorted(reach):
        a = prog.adts[p]
        ser = [i for i in prog.impls if i['crate'] == FW and i['self_ty'].split('<')[0] == p and (i['trait'].endswith('ser::Serialize') or i['trait'].endswith('serde::Serialize'))]
        de = [i for i in prog.impls if i['crate'] == FW and i['self_ty'].split('<')[0] == p and ('de::Deserialize' in i['trait'] or i['trait'].endswith('serde::Deserialize'))]
        rep.ob('C11.R4', p.split('::')[-1], 'derived-Serialize', len(ser) == 1 and ser[0]['derived'], 'impls: %d' % len(ser))
        rep.ob('C11.R4', p.split('::')[-1], 'derived-Deserialize', len(de) == 1 and de[0]['derived'], 'impls: %d' % len(de))
        # derive helper attributes are not part of the lowered program, so the effect of skip / rename / with is read off the derived
        # bodies: every declared field is written once under its own name, and read back once
        fields = [(v['name'], fl['name']) for v in a['variants'] for fl in v['fields']]
        named = sorted(fl for (vn, fl) in fields if not fl.isdigit())
        if len(ser) == 1 and ser[0]['derived']:
            sf = prog.fns.get(ser[0]['items'][0]['key'])
            keys, total, vals_ok = [], 0, True
            for (b, f, ar, t) in (calls(an.get(sf)) if sf is not None else []):
                cs = callee_str(f)
                last = cs.split('::')[-1]
                if last == 'serialize_field':
                    total += 1
                    if len(ar) == 3:
                        k = ar[1][2].strip('"') if ar[1][0] == 'ktext' else None
                        keys.append(k)
                        vals_ok = vals_ok and k is not None and contains(ar[2], lambda y: isinstance(y, tuple) and y and y[0] == 'fld' and y[3] == k)
                elif last in ('serialize_newtype_variant', 'serialize_newtype_struct'):
                    total += 1
            # a private field that is not written is tolerated when nothing reachable from Framework::trigger_events reads it (a memo
            # of validation, say): such a field cannot make the parsed machine drive a framework differently
            missing = sorted(set(named) - set(k for k in keys if k))
            cache = [m for m in missing if field_unread_by_framework(ctx, p, m)]
            okf = sf is not None and total == len(fields) - len(cache) and sorted(k or '?' for k in keys) == [n_ for n_ in named if n_ not in cache] and vals_ok
            rep.ob('C11.R4', p.split('::')[-1], 'serialize-writes-every-field-under-its-name', okf,
                   'declared fields %d, written %d, not written %s%s' % (len(fields), total, missing, (' (of which never read while driving a framework: %s)' % cache) if cache else ''))
            fields = [(vn, fl) for (vn, fl) in fields if fl not in cache]
        if len(de) == 1 and de[0]['derived']:
            pre = de[0]['items'][0]['key']
            nread = 0
            for k2, g in prog.fns.items():
                if k2.startswith(pre + '::') and k2.endswith('::visit_seq'):
                    nread += sum(1 for (b, f, ar, t) in calls(an.get(g)) if callee_str(f).endswith('SeqAccess::next_element'))
            rep.ob('C11.R4', p.split('::')[-1], 'deserialize-reads-every-field', nread == len(fields), 'declared fields %d, read in visit_seq %d' % (len(fields), nread))
    nm = prog.fn(FW, 'Machine', 'name')
    na = an.get(nm)
    okn = any(callee_str(f).endswith('digest') and contains(a[0], lambda x: is_call(x, 'Machine::serialize')) for (b, f, a, t) in calls(na))
    rep.ob('C11.R4', nm, 'name-is-digest-of-serialize', okn, '')
    # ---- R5
    pf = an.paths(fs, history=True)
    n_sl = 0
    for (b, f, a, t) in calls(fa):
        cs = callee_str(f)
        if 'Index<I> for str' in cs and cs.endswith('::index'):
            n_sl += 1
            rg = a[1]
            hi = 0
            if rg[0] == 'agg':
                d = dict(rg[3])
                hi = max([const_eval(x) or 0 for x in d.values()] + [0])
            st = pf.at_entry(b)
            # the length that was checked is the length of the string that is sliced: the parameter itself, or (when the slice is
            # taken from a derived string such as s.trim()) that derived value
            recv = a[0]
            while isinstance(recv, tuple) and recv and recv[0] in ('ref', 'load', 'deref', 'pick', 'refv'):
                recv = recv[1]
            recv = strip_sites(recv)
            if recv == ('param', 1):
                same = lambda l: contains(l, lambda x: x == ('param', 1)) and not contains(l, lambda x: isinstance(x, tuple) and x and x[0] == 'call' and not (x[1].endswith('::len') or x[1].endswith('as_bytes')))
            else:
                same = lambda l, recv=recv: contains(strip_sites(l), lambda x: x == recv)
            ok, w = all_paths(st, lambda S: len_guard(S, same) >= hi and
                              any(f2[0] == 'bcall' and f2[1].endswith('is_ascii') and f2[3] is True for f2 in S))
            rep.ob('C11.R5', fs, 'str-slice:%s' % show(rg)[:40], ok and bool(st), 'slice %s behind len >= %d and is_ascii' % (show(rg), hi))
        if cs.endswith('Result::<T, E>::unwrap'):
            st = pf.at_entry(b)
            rs = strip_sites(a[0])
            ok, w = all_paths(st, lambda S: any(f2[0] == 'bcall' and f2[1].endswith('is_err') and f2[3] is False and
                                                (strip_sites(f2[2][0]) == rs or show(f2[2][0]).lstrip('&*') == show(rs).lstrip('&*')) for f2 in S))
            rep.ob('C11.R5', fs, 'unwrap-behind-is_err', ok and bool(st), 'unwrap(%s)' % shape(a[0]))
    rep.count_exact('C11.R5', 'str slices in from_str', n_sl, 2)
    # the right version is accepted: parsing goes on past the version test exactly when the prefix EQUALS the formatted VERSION
    des_b = [b for (b, f, a, t) in calls(fa) if callee_str(f).endswith('Engine::decode')]
    if des_b:
        sts = pf.at_entry(des_b[0])
        vers = lambda e: contains(e, lambda y: is_call(y, 'fmt::format') or is_call(y, 'alloc::fmt::format'))
        okv, w = all_paths(sts, lambda S: any((f[0] == 'bcall' and (f[1].endswith('PartialEq>::ne') or f[1].endswith('PartialEq::ne') or f[1].endswith('::ne')) and f[3] is False and any(vers(x) for x in f[2])) or
                                             (f[0] == 'bcall' and (f[1].endswith('PartialEq>::eq') or f[1].endswith('PartialEq::eq') or f[1].endswith('::eq')) and f[3] is True and any(vers(x) for x in f[2])) or
                                             (f[0] == 'cmp' and ((f[1] == 'ne' and f[5] is False) or (f[1] == 'eq' and f[5] is True)) and (vers(f[2]) or vers(f[3]))) for f in S))
        rep.ob('C11.R5', fs, 'decoding-only-behind-an-equal-version-prefix', okv and bool(sts), '' if okv else 'witness: ' + show_facts(w))
    # ---- R6 v1 parser
    v1 = [prog.fn_opt(FW, None, n) for n in ('parse_v1_machine', 'parse_v1', 'parse_state', 'parse_dist')]
    undis = []
    if all(v1):
        for fn in v1:
            fa1 = an.get(fn)
            pf1 = an.paths(fn, history=True)
            for b in sorted(fa1.cfg.reach):
                bb = fa1.blocks[b]
                t = bb['t']
                at = (b, len(bb['s']))
                if t['k'] == 'call' and 'indirect' not in t['f']:
                    cs = callee_str(t['f'])
                    args = tuple(fa1.operand(x, at) for x in t['a'])
                    need = None
                    bufe = None
                    if decl_matches(t['f'], ('ops::index::Index::index', 'ops::Index::index')) and len(args) == 2 and args[1][0] == 'agg' and args[1][2] in ('Range', 'RangeTo', 'RangeFrom', 'RangeInclusive'):
                        d = dict(args[1][3])
                        vals = [const_eval(x) for x in d.values()]
                        bufe = args[0]
                        if all(v is not None for v in vals):
                            need = max(vals)
                        else:
                            undis.append('%s: %s[%s]' % (fn.name, show(bufe)[:20], show(args[1])[:60]))
                            continue
                    elif cs.endswith('::split_at') and len(args) == 2:
                        bufe = args[0]
                        need = const_eval(args[1])
                        if need is None:
                            undis.append('%s: split_at(%s)' % (fn.name, show(args[1])))
                            continue
                    if need is None:
                        continue
                    # which buffer: the slice/vec the index applies to
                    def same_buf(l, bufe=bufe, fa1=fa1):
                        bs = {x[1] for x in walk(strip_sites(bufe)) if isinstance(x, tuple) and x and x[0] in ('param', 'local')}
                        # a buffer moved out of an inlined helper's result: follow single-definition moves
                        work = [x for x in bs if isinstance(x, int)]
                        while work:
                            l0 = work.pop()
                            ds = fa1.defs().get(l0, [])
                            if len(ds) == 1:
                                dv = unload(strip_sites(fa1.def_value(l0, ds[0][0], ds[0][1])))
                                if isinstance(dv, tuple) and dv and dv[0] == 'local' and dv[1] not in bs:
                                    bs.add(dv[1])
                                    work.append(dv[1])
                        ls = {x[1] for x in walk(l) if isinstance(x, tuple) and x and x[0] in ('param', 'local')}
                        return bool(bs & ls)
                    st = pf1.at_entry(b)
                    ok, w = all_paths(st, lambda S: len_guard(S, same_buf, ctx) >= need)
                    rep.ob('C11.R6', fn, 'const-slice:%s..%d' % (show(bufe)[-12:], need), ok and bool(st), '%s needs len >= %d; guard on path: %s' % (cs.split('::')[-1], need, 'ok' if ok else 'missing/too small'), site='%s:%d' % (fn.file, bb['ln']))
                elif t['k'] == 'assert' and t['mk'] == 'BoundsCheck':
                    c = fa1.operand(t['c'], at)
                    if c[0] == 'bin' and c[1] == 'Lt':
                        ix = const_eval(c[2])
                        if ix is None:
                            undis.append('%s: [%s]' % (fn.name, show(c[2])[:40]))
                            continue
                        st = pf1.at_entry(b)
                        lnexpr = c[3]

                        def same_buf2(l, lnexpr=lnexpr):
                            bs = {x[1] for x in walk(strip_sites(lnexpr)) if isinstance(x, tuple) and x and x[0] in ('param', 'local')}
                            ls = {x[1] for x in walk(l) if isinstance(x, tuple) and x and x[0] in ('param', 'local')}
                            return bool(bs & ls)
                        ok, w = all_paths(st, lambda S: len_guard(S, same_buf2, ctx) >= ix + 1)
                        rep.ob('C11.R6', fn, 'const-index:%d' % ix, ok and bool(st), 'index %d needs len >= %d' % (ix, ix + 1), site='%s:%d' % (fn.file, bb['ln']))
        rep.extra['v1_undischarged_out_of_scope'] = undis
        rep.count_floor('C11.R6', 'constant-bound accesses checked in the v1 parser', sum(1 for o in rep.obligations if o['rule'] == 'C11.R6'), 10)
    rep.assumptions += ['that one Read::read returns the whole payload, memory use inside flate2/bincode, and rejection of every mutated encoding are NOT decided',
                        'v1 parser accesses with non-constant bounds are out of scope (need a relational numeric domain)',
                        'Read::read returns at most buf.len()']
    return 'pipeline structure of Machine::from_str/serialize, bounded inflate, validate-before-Ok, serde derive completeness, constant-bound slice guards of the v1 parser'


def check_machine_new_table(ctx, rep, rid):
    """Machine::new stores its i-th parameter in the i-th declared field (u64/u64 and f64/f64 pairs could be swapped silently)"""
    prog, an = ctx.prog, ctx.an
    mn = prog.fn(FW, 'Machine', 'new')
    fa = an.get(mn)
    order = [f['name'] for f in prog.adt('maybenot::machine::Machine')['variants'][0]['fields']]
    aggs = aggregates(fa, 'machine::Machine')
    rep.count_exact(rid, 'Machine aggregates in Machine::new', len(aggs), 1)
    rep.ob(rid, mn, 'one-parameter-per-field', len(mn.inputs) == len(order), 'parameters %d, fields %d' % (len(mn.inputs), len(order)))
    for (site, var, flds, ln) in aggs:
        for j, f in enumerate(order):
            e = flds.get(f)
            x = unload(e) if e is not None else None
            pi = e[1] if e is not None and e[0] == 'param' else (x[1] if x is not None and x[0] == 'local' else None)
            rep.ob(rid, mn, 'field:' + f, pi == j + 1, '%s = parameter #%s' % (f, pi))
