"""C02 (padding budgets), C03 (blocking budgets), C07 (per-state limits)."""
from .core import AnchorMissing, strip_sites, walk, show, callee_str, callee_decl, decl_matches
from .paths import stores, calls, field_stores
from .pat import (checked_access_fact, num, is_const, unload, last_field, is_field, strip_casts, is_call, has_cmp,
                  cmp_int_true, all_paths, show_facts, field_chain, root_of, contains, base_of)

FW = 'maybenot'


def fw_fns(prog):
    names = ['new', 'trigger_events', 'process_event', 'transition', 'update_counter', 'schedule_action',
             'decrement_limit', 'below_action_limits', 'below_limit_blocking', 'below_limit_padding', 'num_machines']
    return {n: prog.fn(FW, 'Framework', n) for n in names}


def is_set_test(op, l, r, frac):
    """the comparison decides "is this fraction limit set": frac > 0.0, or its complement frac <= 0.0 (an early exit when
    unset; the two differ only for NaN, which construction rejects, and then neither form denies)"""
    return (op == 'Gt' and frac(l) and is_const(r, 0.0)) or (op == 'Lt' and frac(r) and is_const(l, 0.0)) or \
        (op == 'Le' and frac(l) and is_const(r, 0.0)) or (op == 'Ge' and frac(r) and is_const(l, 0.0))


def ret_defs(fa):
    """definition sites of the return place _0: [(bb, k, value)]"""
    out = []
    for (b, k, part) in fa.defs().get(0, []):
        out.append((b, k, fa.def_value(0, b, k)))
    return out


def is_false_const(v):
    return v[0] == 'const' and v[1] == 'bool' and v[2] == 'false'


def is_true_const(v):
    return v[0] == 'const' and v[1] == 'bool' and v[2] == 'true'


def is_state_limit_gt0(v):
    """v == (runtime.state_limit > 0)"""
    if v[0] != 'bin':
        return False
    if v[1] == 'Gt' and is_field(v[2], 'state_limit', 'MachineRuntime') and is_const(v[3], 0):
        return True
    if v[1] == 'Lt' and is_field(v[3], 'state_limit', 'MachineRuntime') and is_const(v[2], 0):
        return True
    if v[1] == 'Ne' and ((is_field(v[2], 'state_limit', 'MachineRuntime') and is_const(v[3], 0)) or
                         (is_field(v[3], 'state_limit', 'MachineRuntime') and is_const(v[2], 0))):
        return True
    return False


def shape(v):
    """line-free description of a returned value"""
    s = show(v)
    return s if len(s) < 80 else s[:77] + '...'


# ------------------------------------------------------------------ shared: R1/R2

def pair_components(v):
    """{component key: expr} of a two-component value: a tuple or a two-field struct"""
    if v[0] == 'tuple' and len(v[2]) == 2:
        return {'0': v[2][0], '1': v[2][1]}
    if v[0] == 'agg' and len(v[3]) == 2:
        return {k: e for (k, e) in v[3]}
    return None


def uc_components(ctx):
    """(key of the schedule permission, key of the state-changed flag) in update_counter's return value:
    the permission is the component that reads actions[mi].is_none() after the recursion"""
    fn = ctx.prog.fn(FW, 'Framework', 'update_counter')
    fa = ctx.an.get(fn)
    for (b, k_, v) in ret_defs(fa):
        comp = pair_components(v)
        if comp is None:
            continue
        ks = list(comp)
        for i, k in enumerate(ks):
            if is_call(comp[k], 'is_none'):
                return k, ks[1 - i]
    return '0', '1'


def rule_gating(ctx, rep, pid):
    """R1: schedule_action has one call site, dominated by allow_schedule && below_limits where
    below_limits is the result of below_action_limits evaluated after the state store."""
    prog, an = ctx.prog, ctx.an
    F = fw_fns(prog)
    rep.rule(pid + '.R1', 'schedule_action is called only from transition, only on paths where the result of '
             'below_action_limits(runtime[mi], machines[mi]) is true and the allow flag from update_counter is true; '
             'the action slot is written Some only inside schedule_action')
    sites = []
    for name, fn in F.items():
        fa = an.get(fn)
        for (b, f, args, t) in calls(fa):
            if callee_str(f).endswith('::schedule_action') and f.get('crate') == FW:
                sites.append((fn, fa, b, args))
    rep.count_exact(pid + '.R1', 'schedule_action call sites', len(sites), 1)
    for (fn, fa, b, args) in sites:
        rep.ob(pid + '.R1', fn, 'schedule_action-caller', fn.name == 'transition', 'caller is %s' % fn.name)
        pf = an.paths(fn)
        st = pf.at_entry(b)

        akey = uc_components(ctx)[0]

        def guarded(S):
            bl = False
            al = False
            for f in S:
                if f[0] == 'bcall' and f[3] is True and f[1].endswith('::below_action_limits'):
                    bl = True
                if f[0] == 'btrue' and f[2] is True:
                    e = f[1]
                    if is_call(e, '::below_action_limits'):
                        bl = True
                    # allow_schedule = update_counter(..).0
                    x = unload(e)
                    if x[0] == 'fld' and x[3] == akey and is_call(unload(x[1]), '::update_counter'):
                        al = True
                    if is_call(e, '::update_counter'):
                        al = True
            return bl and al
        ok, w = all_paths(st, guarded)
        rep.ob(pid + '.R1', fn, 'schedule_action-guard', ok,
               'every path to the call crosses the true edges of below_action_limits(..) and update_counter(..).0'
               + ('' if ok else '; witness path: ' + show_facts(w)))
        # below_action_limits evaluated after the state store on the same path: the call's block
        # must not be able to reach a store of current_state/state_limit before schedule_action
        bal_blocks = [bb for (bb, f2, a2, t2) in calls(fa) if callee_str(f2).endswith('::below_action_limits')]
        st_blocks = {s[0] for (pe, v, s) in field_stores(fa, 'current_state') + field_stores(fa, 'state_limit')}
        bad = [sb for bb in bal_blocks for sb in st_blocks if fa.cfg.can_reach(bb, sb) and fa.cfg.can_reach(sb, b) and sb != bb]
        rep.ob(pid + '.R1', fn, 'limits-evaluated-after-state-store', len(bal_blocks) == 1 and not bad,
               'below_action_limits call sites: %d; state stores between evaluation and scheduling: %d' % (len(bal_blocks), len(bad)))
        # the runtime/machine passed are runtime[mi] / machines[mi] with mi the function parameter
        for bb in bal_blocks:
            for (b2, f2, a2, t2) in calls(fa):
                if b2 == bb:
                    if len(a2) >= 2 and a2[1] == ('param', 2) and fn.inputs[1:2] == ['usize']:
                        # index form: below_action_limits(mi, ..)
                        rep.ob(pid + '.R1', fn, 'limits-evaluated-on-own-runtime', True, 'arguments: %s' % ', '.join(show(x)[:60] for x in a2[1:]))
                        continue
                    if len(a2) < 3:
                        rep.ob(pid + '.R1', fn, 'limits-evaluated-on-own-runtime', False, 'arguments: %s' % ', '.join(show(x)[:60] for x in a2[1:]))
                        continue
                    okr = a2[1][0] == 'ref' and unload(a2[1][1])[0] == 'idx' and unload(a2[1][1])[2] == ('param', 2) and is_field(unload(a2[1][1])[1], 'runtime')
                    m = a2[2]
                    okm = m[0] == 'ref' and m[1][0] == 'idx' and m[1][2] == ('param', 2) and 'machines' in field_chain(m[1])
                    rep.ob(pid + '.R1', fn, 'limits-evaluated-on-own-runtime', okr and okm,
                           'arguments: %s, %s' % (show(a2[1]), show(a2[2])))
    # Some-writes of the action slot
    for name, fn in F.items():
        fa = an.get(fn)
        for (pe, v, site) in field_stores(fa, 'actions', 'Framework'):
            if unload(pe)[0] != 'idx':
                continue
            is_none = (v[0] == 'agg' and v[2] == 'None')
            if not is_none:
                rep.ob(pid + '.R1', fn, 'action-slot-written-non-None', fn.name == 'schedule_action',
                       'value %s' % shape(v))


def rule_kind_table(ctx, rep, pid):
    """R2: kind -> predicate table in below_action_limits, exhaustive over Action variants"""
    prog, an = ctx.prog, ctx.an
    fn = prog.fn(FW, 'Framework', 'below_action_limits')
    rep.rule(pid + '.R2', 'in below_action_limits each Action variant returns: SendPadding -> below_limit_padding, '
             'BlockOutgoing -> below_limit_blocking, any other variant with a `limit` field -> state_limit > 0, '
             'variants without a limit field -> true; no action -> false')
    fa = an.get(fn)
    pf = an.paths(fn)
    variants = prog.adt('maybenot::action::Action')['variants']
    covered = {}
    for (b, k, v) in ret_defs(fa):
        for S in pf.at(b, k):
            vs = [f[2] for f in S if f[0] == 'variant' and 'action' in show(f[1]) and f[2] in [x['name'] for x in variants]]
            nots = [f[2] for f in S if f[0] == 'notvariant']
            opt = [f[2] for f in S if f[0] == 'variant' and f[2] in ('None', 'Some')]
            if 'None' in opt:
                rep.ob(pid + '.R2', fn, 'no-action', is_false_const(v), 'returns %s when the state has no action' % shape(v))
                continue
            if vs:
                names = [vs[0]]
            else:
                excl = set(x for n in nots for x in n)
                names = [x['name'] for x in variants if x['name'] not in excl]
            for n in names:
                covered.setdefault(n, []).append(v)
    for var in variants:
        n = var['name']
        has_limit = any(f['name'] == 'limit' for f in var['fields'])
        vals = covered.get(n, [])
        if not vals:
            rep.ob(pid + '.R2', fn, 'variant:' + n, False, 'no return found for Action::%s' % n)
            continue
        for v in vals:
            if n == 'SendPadding':
                ok = is_call(v, '::below_limit_padding')
            elif n == 'BlockOutgoing':
                ok = is_call(v, '::below_limit_blocking')
            elif has_limit:
                ok = is_state_limit_gt0(v)
            else:
                ok = is_true_const(v)
            rep.ob(pid + '.R2', fn, 'variant:' + n, ok, 'Action::%s returns %s' % (n, shape(v)))
    # arguments passed through unchanged
    for (b, f, args, t) in calls(fa):
        if callee_str(f).endswith('::below_limit_padding') or callee_str(f).endswith('::below_limit_blocking'):
            ok = args[0] == ('param', 1) and args[1] == ('param', 2) and args[2] == ('param', 3)
            rep.ob(pid + '.R2', fn, 'passes-own-args:' + callee_str(f).split('::')[-1], ok, 'args ' + ', '.join(show(a) for a in args))


# ------------------------------------------------------------------ C02

def padding_ratio_ok(ratio, who):
    """ratio == padding / (padding + normal) with the right counters for `who`"""
    r = ratio
    if r[0] != 'bin' or r[1] != 'Div':
        return False
    numr = strip_casts(r[2])
    den = strip_casts(r[3])
    if who == 'machine':
        pn, nn, adt = 'padding_sent', 'normal_sent', 'MachineRuntime'
    else:
        pn, nn, adt = 'padding_sent_packets', 'normal_sent_packets', 'Framework'
    if not is_field(numr, pn, adt):
        return False
    if den[0] != 'bin' or den[1] != 'Add':
        return False
    a, b = den[2], den[3]
    return (is_field(a, pn, adt) and is_field(b, nn, adt)) or (is_field(a, nn, adt) and is_field(b, pn, adt))


def total_ok(e, who):
    if who == 'machine':
        pn, nn, adt = 'padding_sent', 'normal_sent', 'MachineRuntime'
    else:
        pn, nn, adt = 'padding_sent_packets', 'normal_sent_packets', 'Framework'
    e = strip_casts(e)
    if e[0] != 'bin' or e[1] != 'Add':
        return False
    a, b = e[2], e[3]
    return (is_field(a, pn, adt) and is_field(b, nn, adt)) or (is_field(a, nn, adt) and is_field(b, pn, adt))


def check_padding(ctx, rep, pid):
    prog, an = ctx.prog, ctx.an
    fn = prog.fn(FW, 'Framework', 'below_limit_padding')
    fa = an.get(fn)
    pf = an.paths(fn)
    rep.rule(pid + '.R3', 'must-consult: every return of below_limit_padding that is not the constant false lies on '
             'paths that took the true edge of padding_sent < allowed_padding_packets, or for BOTH the machine and '
             'the framework fraction: the fraction is not set (f > 0.0 false), or its ratio test ratio >= f was false, '
             'or its packet total was zero')
    rep.rule(pid + '.R4', 'comparison table: budget test is strict padding_sent < allowed_padding_packets; '
             'deny test is ratio >= fraction with ratio = own padding/(own padding+own normal) resp. global; '
             'fraction set iff > 0.0')

    def frac_is(e, who):
        return is_field(e, 'max_padding_frac', 'Machine' if who == 'machine' else 'Framework')

    def budget(S):
        return has_cmp(S, 'lt', lambda l: is_field(l, 'padding_sent', 'MachineRuntime'),
                       lambda r: is_field(r, 'allowed_padding_packets', 'Machine'), True)

    def gate(S, who):
        # fraction not set
        if has_cmp(S, 'lt', lambda l: is_const(l, 0.0), lambda r: frac_is(r, who), False):
            return True
        if has_cmp(S, 'le', lambda l: frac_is(l, who), lambda r: is_const(r, 0.0), True):
            return True
        # ratio >= frac is false
        if has_cmp(S, 'le', lambda l: frac_is(l, who), lambda r: padding_ratio_ok(r, who), False):
            return True
        if has_cmp(S, 'lt', lambda l: padding_ratio_ok(l, who), lambda r: frac_is(r, who), True):
            return True
        # zero total
        if cmp_int_true(S, 'le', lambda l: total_ok(l, who), lambda r: is_const(r, 0)):
            return True
        if cmp_int_true(S, 'eq', lambda l: total_ok(l, who), lambda r: is_const(r, 0)):
            return True
        return False

    n_ret = 0
    for (b, k, v) in ret_defs(fa):
        n_ret += 1
        if is_false_const(v):
            # deny returns: must be justified by a ratio >= fraction test (R4)
            st = pf.at(b, k)

            def deny_ok(S):
                for who in ('machine', 'global'):
                    if has_cmp(S, 'le', lambda l: frac_is(l, who), lambda r: padding_ratio_ok(r, who), True):
                        return True
                return False
            ok, w = all_paths(st, deny_ok)
            rep.ob(pid + '.R4', fn, 'deny-return', ok, 'a `false` return is reached only through ratio >= fraction'
                   + ('' if ok else '; witness: ' + show_facts(w)))
            continue
        st = pf.at(b, k)
        for who in ('machine', 'global'):
            ok, w = all_paths(st, lambda S: budget(S) or gate(S, who))
            rep.ob(pid + '.R3', fn, 'ret[%s]:%s-fraction-consulted' % (shape(v), who), ok,
                   'budget edge or %s fraction gate on every path' % who + ('' if ok else '; witness path: ' + show_facts(w)))
    rep.count_floor(pid + '.R3', 'returns of below_limit_padding', n_ret, 2)
    # R4: the comparisons present in the function
    sw = switch_conditions(fa)
    found = {'budget': False, 'm_set': False, 'g_set': False, 'm_ratio': False, 'g_ratio': False}
    for (b, e) in sw:
        e = strip_sites(e)
        if e[0] != 'bin':
            continue
        op, l, r = e[1], e[2], e[3]
        if (op == 'Lt' and is_field(l, 'padding_sent', 'MachineRuntime') and is_field(r, 'allowed_padding_packets')) or \
           (op == 'Gt' and is_field(r, 'padding_sent', 'MachineRuntime') and is_field(l, 'allowed_padding_packets')):
            found['budget'] = True
        for who, key in (('machine', 'm'), ('global', 'g')):
            if is_set_test(op, l, r, lambda x: frac_is(x, who)):
                found[key + '_set'] = True
            if (op == 'Ge' and padding_ratio_ok(l, who) and frac_is(r, who)) or (op == 'Le' and padding_ratio_ok(r, who) and frac_is(l, who)):
                found[key + '_ratio'] = True
        # any other comparison involving these operands with a different operator is a violation
        involved = [x for x in (l, r) if is_field(x, 'allowed_padding_packets') or frac_is(x, 'machine') or frac_is(x, 'global')]
        if involved:
            okop = False
            if any(is_field(x, 'allowed_padding_packets') for x in (l, r)):
                okop = (op == 'Lt' and is_field(r, 'allowed_padding_packets')) or (op == 'Gt' and is_field(l, 'allowed_padding_packets'))
                okop = okop and (is_field(l, 'padding_sent', 'MachineRuntime') or is_field(r, 'padding_sent', 'MachineRuntime'))
            else:
                for who in ('machine', 'global'):
                    if frac_is(l, who) or frac_is(r, who):
                        other = r if frac_is(l, who) else l
                        if num(other) is not None:
                            okop = is_set_test(op, l, r, lambda x: frac_is(x, who))
                        else:
                            okop = (op == 'Ge' and padding_ratio_ok(l, who) and frac_is(r, who)) or \
                                   (op == 'Le' and padding_ratio_ok(r, who) and frac_is(l, who)) or \
                                   (op == 'Lt' and padding_ratio_ok(l, who) and frac_is(r, who)) or \
                                   (op == 'Gt' and padding_ratio_ok(r, who) and frac_is(l, who))
            rep.ob(pid + '.R4', fn, 'comparison:' + shape(e), okop, 'operator/operands of %s' % shape(e))
    for k2, v2 in found.items():
        rep.ob(pid + '.R4', fn, 'table-entry:' + k2, v2, 'comparison %s present' % k2)


def switch_conditions(fa):
    out = []
    for b in sorted(fa.cfg.reach):
        bb = fa.blocks[b]
        t = bb['t']
        if t['k'] == 'switch':
            out.append((b, fa.operand(t['d'], (b, len(bb['s'])))))
        # materialised conditions (`let reached = f >= max; ... if reached`): a comparison stored in a
        # bool local that has several definitions is tested later through that local
        for k, st in enumerate(bb['s']):
            if 'p' not in st or st['p']['pr']:
                continue
            rv = st['rv']
            if rv['k'] == 'bin' and rv['op'] in ('Eq', 'Ne', 'Lt', 'Le', 'Gt', 'Ge') and len(fa.defs().get(st['p']['l'], ())) > 1:
                out.append((b, fa.rvalue(rv, (b, k))))
            elif rv['k'] == 'use' and fa.fn.local_ty(st['p']['l']) == 'bool' and len(fa.defs().get(st['p']['l'], ())) > 1 \
                    and ('m' in rv['x'] or 'c' in rv['x']):
                e = fa.operand(rv['x'], (b, k))
                if isinstance(e, tuple) and e and e[0] == 'bin' and e[1] in ('Eq', 'Ne', 'Lt', 'Le', 'Gt', 'Ge'):
                    out.append((b, e))
    return out


def check_accounting_padding(ctx, rep, pid):
    """R5: counters are incremented exactly once in the right arms of process_event; no other writer"""
    prog, an = ctx.prog, ctx.an
    F = fw_fns(prog)
    rep.rule(pid + '.R5', 'accounting: in process_event, padding_sent_packets is incremented exactly once on every path '
             'through the PaddingSent arm (including the unknown-id return), runtime[mi].padding_sent exactly once iff '
             'the id passed the bounds check, NormalSent increments the global counter once and every machine once; '
             'no other function writes the four counters')
    counters = [('padding_sent_packets', 'Framework'), ('normal_sent_packets', 'Framework'),
                ('padding_sent', 'MachineRuntime'), ('normal_sent', 'MachineRuntime')]
    for name, fn in F.items():
        fa = an.get(fn)
        for (fld, adt) in counters:
            for (pe, v, site) in field_stores(fa, fld, adt):
                if name == 'new':
                    continue
                rep.ob(pid + '.R5', fn, 'writer:' + fld, name == 'process_event', '%s written in %s' % (fld, name))
    # also aggregate constructions in new are the only initialisers: checked by inventory of writers above
    fn = F['process_event']
    fa = an.get(fn)
    # increments as "called" pseudo facts: use path counting over the CFG
    inc_blocks = {}
    for (fld, adt) in counters:
        for (pe, v, site) in field_stores(fa, fld, adt):
            vv = v
            ok_inc = vv[0] == 'bin' and vv[1] in ('Add', 'AddWithOverflow') and is_const(vv[3], 1) and is_field(vv[2], fld, adt)
            if not ok_inc:
                # value may come through the (x, overflow) tuple
                ok_inc = contains(vv, lambda x: isinstance(x, tuple) and x and x[0] == 'bin' and x[1] in ('Add', 'AddWithOverflow') and is_const(x[3], 1) and is_field(x[2], fld, adt))
            rep.ob(pid + '.R5', fn, 'increment-by-one:' + fld, ok_inc, 'stored value %s' % shape(v))
            inc_blocks.setdefault(fld, []).append(site[0])
    pf = an.paths(fn)
    counts = path_counts(fa, inc_blocks)
    # classify returns by the TriggerEvent variant on the path
    for r in fa.cfg.returns:
        for S in pf.at_entry(r):
            var = [f[2] for f in S if f[0] == 'variant' and 'TriggerEvent' in str(f)]
    # per-variant expectations evaluated on the arm sub-graphs
    arms = event_arms(prog, fa)
    for var, head in arms.items():
        region = fa.cfg.reachable_from(head)
        for (fld, adt) in counters:
            lo, hi = min_max_on_paths(fa, head, set(inc_blocks.get(fld, [])), region)
            if var == 'PaddingSent' and fld == 'padding_sent_packets':
                ok = (lo, hi) == (1, 1)
            elif var == 'PaddingSent' and fld == 'padding_sent':
                ok = (lo, hi) == (0, 1)
            elif var == 'NormalSent' and fld == 'normal_sent_packets':
                ok = (lo, hi) == (1, 1)
            elif var == 'NormalSent' and fld == 'normal_sent':
                ok = lo == 0 and hi == 'loop'
            else:
                ok = (lo, hi) == (0, 0)
            rep.ob(pid + '.R5', fn, 'arm:%s:%s' % (var, fld), ok, 'increments of %s on paths through the %s arm: min %s max %s' % (fld, var, lo, hi))
    # padding_sent increment iff bounds check passed: the store block is dominated by the false edge of mi >= len
    for (pe, v, site) in field_stores(fa, 'padding_sent', 'MachineRuntime'):
        st = pf.at(site[0], site[1])
        ok, w = all_paths(st, lambda S: cmp_int_true(S, 'lt', lambda l: True, lambda r: is_call(r, 'len')) or
                          checked_access_fact(S, lambda i: True, True))
        rep.ob(pid + '.R5', fn, 'per-machine-padding-after-bounds-check', ok, 'store dominated by id < runtime.len()')
        # and the index is the event's machine id
        p = unload(pe)
        idx = base_of(p)
        okid = idx is not None and idx[0] == 'idx' and is_call(idx[2], 'into_raw')
        rep.ob(pid + '.R5', fn, 'per-machine-padding-indexed-by-event-id', okid, 'index %s' % (show(idx[2]) if idx and idx[0] == 'idx' else '?'))
    # the unknown-id early return happens after the global increment: min==1 covers it.
    # normal_sent per machine: inside a loop over 0..runtime.len(), once per iteration
    for (pe, v, site) in field_stores(fa, 'normal_sent', 'MachineRuntime'):
        loops = fa.cfg.loops()
        inloop = [h for h, body in loops.items() if site[0] in body]
        okl = False
        for h in inloop:
            body = loops[h]
            lo, hi = min_max_on_paths(fa, h, {site[0]}, body, stop_at_header=True)
            okl = (lo, hi) == (1, 1)
        rep.ob(pid + '.R5', fn, 'normal_sent-once-per-machine-iteration', okl, 'exactly one increment on every path around the machine loop')
        p = unload(pe)
        idx = base_of(p)
        okix = idx is not None and idx[0] == 'idx' and is_range_loop_var(fa, idx[2])
        rep.ob(pid + '.R5', fn, 'normal_sent-indexed-by-loop-variable', okix, 'index %s' % (show(idx[2]) if idx is not None and idx[0] == 'idx' else '?'))


def loop_iter_source(fa, e):
    """e is the payload of Iterator::next(): ('range',) for a Range, ('slice',) for a slice iterator,
    ('filter', closure value, inner iterator value) for Filter<..>; None otherwise"""
    e = unload(e)
    if not (e[0] == 'fld' and e[1][0] == 'var' and e[1][2] == 'Some'):
        return None
    c = unload(e[1][1])
    if not is_call(c, '::next'):
        return None
    name = c[1]
    if 'adapters::filter::Filter<' in name:
        recv = c[2][0] if c[2] else None
        if recv and recv[0] == 'ref' and recv[1][0] == 'local':
            l = recv[1][1]
            for (b, k, part) in fa.defs().get(l, []):
                if part:
                    continue
                for x in walk(fa.def_value(l, b, k)):
                    if is_call(x, 'Iterator::filter') and len(x[2]) == 2 and x[2][1][0] == 'closure':
                        return ('filter', x[2][1], x[2][0])
        return None
    if 'adapters::' in name:
        return None
    if 'range::Range<' in name:
        return ('range',)
    if 'slice::iter::Iter<' in name:
        return ('slice',)
    return None


def is_range_loop_var(fa, e, allow_filter=False):
    """e is the payload of Iterator::next on a Range (the `for mi in a..b` induction variable);
    with allow_filter also of a Filter over a Range (a subset of the range, in order)"""
    src = loop_iter_source(fa, e)
    if src is None:
        return False
    if src[0] == 'range':
        return True
    if src[0] == 'filter' and allow_filter:
        return src[2][0] == 'agg' and src[2][1].endswith('range::Range')
    return False


def event_arms(prog, fa):
    """TriggerEvent variant -> head block of its arm in process_event (switch on discriminant of *e)"""
    names = {v['discr']: v['name'] for v in prog.adt('maybenot::event::TriggerEvent')['variants']}
    for b in sorted(fa.cfg.reach):
        bb = fa.blocks[b]
        t = bb['t']
        if t['k'] != 'switch':
            continue
        e = fa.operand(t['d'], (b, len(bb['s'])))
        if e[0] == 'discr' and e[2].split('<')[0].lstrip('&').endswith('event::TriggerEvent'):
            arms = {}
            for (v, tgt) in t['ts']:
                if v in names:
                    arms[names[v]] = tgt
            missing = [n for n in names.values() if n not in arms]
            if len(missing) == 1:
                arms[missing[0]] = t['o']
            elif missing:
                continue  # a partial match on the event (e.g. an inlined accessor): not the dispatch
            fa._dispatch_block = b
            return arms
    raise AnchorMissing('process_event: switch on TriggerEvent discriminant')


def path_counts(fa, inc_blocks):
    return None


def min_max_on_paths(fa, head, marks, region, stop_at_header=False):
    """[min,max] number of marked blocks on paths from head to function return (or back to head when
    stop_at_header) staying inside region.  max is 'loop' when a marked block lies on a cycle."""
    cfg = fa.cfg
    # detect marked block on a cycle within region (excluding the header when stop_at_header)
    loops = cfg.loops()
    for h, body in loops.items():
        if stop_at_header and h == head:
            continue
        if h in region and (marks & body):
            on_cycle = True
            # min over paths
            lo = _min_paths(cfg, head, marks, region, stop_at_header)
            return lo, 'loop'
    lo = _min_paths(cfg, head, marks, region, stop_at_header)
    hi = _max_paths(cfg, head, marks, region, stop_at_header)
    return lo, hi


def _min_paths(cfg, head, marks, region, stop_at_header):
    import heapq
    dist = {head: 1 if head in marks else 0}
    pq = [(dist[head], head)]
    best = None
    while pq:
        d, x = heapq.heappop(pq)
        if d > dist.get(x, 1 << 30):
            continue
        succs = [(y, l) for (y, l) in cfg.succ[x] if y in region]
        if not cfg.succ[x]:
            best = d if best is None else min(best, d)
        for (y, l) in succs:
            if stop_at_header and y == head:
                best = d if best is None else min(best, d)
                continue
            nd = d + (1 if y in marks else 0)
            if nd < dist.get(y, 1 << 30):
                dist[y] = nd
                heapq.heappush(pq, (nd, y))
        if stop_at_header and not succs and cfg.succ[x]:
            pass
    return best if best is not None else 0


def _max_paths(cfg, head, marks, region, stop_at_header):
    # longest path in the DAG obtained by ignoring back edges
    memo = {}
    onstack = set()

    def go(x):
        if x in memo:
            return memo[x]
        if x in onstack:
            return None
        onstack.add(x)
        best = None
        if not cfg.succ[x]:
            best = 0
        for (y, l) in cfg.succ[x]:
            if y not in region:
                continue
            if stop_at_header and y == head:
                best = 0 if best is None else max(best, 0)
                continue
            if cfg.dominates(y, x):
                continue  # back edge
            r = go(y)
            if r is not None:
                best = r if best is None else max(best, r)
        onstack.discard(x)
        res = None if best is None else best + (1 if x in marks else 0)
        memo[x] = res
        return res
    r = go(head)
    return r if r is not None else 0


INIT_FIELDS = {
    'C02': {'max_padding_frac', 'normal_sent_packets', 'padding_sent_packets', 'padding_sent', 'normal_sent', 'current_state'},
    'C03': {'max_blocking_frac', 'current_time', 'framework_start', 'blocking_started', 'blocking_active', 'blocking_duration',
            'machine_start', 'allowed_blocked_microsec', 'current_state'},
}


def rule_initial_state(ctx, rep, pid):
    from .rules_fw import check_initial_state
    rep.rule(pid + '.R7', 'initial-state table of Framework::new: the two fraction parameters land in the same-named fields, all clocks start at '
             'current_time, counters and durations start at zero, blocking inactive, no signal pending; MachineRuntime starts in state 0 with '
             'zero counters and allowed_blocked_microsec from the machine')
    check_initial_state(ctx, rep, pid + '.R7', only=INIT_FIELDS.get(pid))


def rule_dispatch_discipline(ctx, rep, rid, arms_of_interest):
    """process_event: nothing returns before the event kind was dispatched, and within the named arms every
    piece of accounting happens before the machines are notified (no store reachable from a transition call)"""
    prog, an = ctx.prog, ctx.an
    fn = prog.fn(FW, 'Framework', 'process_event')
    fa = an.get(fn)
    pf = an.paths(fn, history=True)
    names = set(prog.variants('maybenot::event::TriggerEvent'))
    for r in fa.cfg.returns:
        st = pf.at_entry(r)
        ok, w = all_paths(st, lambda S: any(f[0] == 'variant' and f[2] in names and root_of(f[1]) == ('param', 2) for f in S) or
                          any(f[0] == 'notvariant' and root_of(f[1]) == ('param', 2) for f in S))
        rep.ob(rid, fn, 'no-return-before-dispatch', ok and bool(st), '' if ok else 'a path returns without having switched on the event kind: ' + show_facts(w))
    arms = event_arms(prog, fa)
    # ... and "switched on the event kind" means the dispatch itself, not a test inside some accessor of the event
    db = getattr(fa, '_dispatch_block', None)
    for r in fa.cfg.returns:
        rep.ob(rid, fn, 'dispatch-dominates-every-return', db is not None and fa.cfg.dominates(db, r),
               'the match over all TriggerEvent variants is on every path to the return')
    acct_fields = ('padding_sent_packets', 'normal_sent_packets', 'padding_sent', 'normal_sent', 'blocking_active', 'blocking_started', 'blocking_duration')
    for var in arms_of_interest:
        head = arms.get(var)
        if head is None:
            continue
        region = {b for b in fa.cfg.reachable_from(head) if fa.cfg.dominates(head, b)}
        tcalls = [b for (b, f, a, t) in calls(fa) if b in region and callee_str(f).endswith('Framework::<M, R, T>::transition')]
        acct = []
        for (pe, v, site, mp) in stores(fa):
            lf = last_field(pe)
            if site[0] in region and lf and lf[1] in acct_fields and lf[1] not in ('padding_sent', 'normal_sent'):
                acct.append((lf[1], site[0]))
        for (b, f, a, t) in calls(fa):
            if b in region and decl_matches(f, ('AddAssign::add_assign',)) and a and a[0][0] == 'ref' and is_field(a[0][1], 'blocking_duration', 'Framework'):
                acct.append(('blocking_duration', b))
        bad = [(n, sb) for (n, sb) in acct for tb in tcalls if tb != sb and fa.cfg.can_reach(tb, sb)]
        rep.ob(rid, fn, 'arm:%s:framework-accounting-precedes-transitions' % var, not bad,
               'framework-wide accounting reachable after a machine was already notified: %s' % sorted({n for n, _ in bad}) if bad else 'ok')


def per_helper_or_composite(ctx, rep, pid, rules):
    """The rules about what each of the three limit predicates returns are run first; when they fail (the predicates were
    restructured, renamed away or re-parameterised) the same clauses are judged on the composite of transition
    (rules_gate.py).  Either form is a necessary condition of the property on the program; the check passes with one."""
    from .report import Report
    from .rules_gate import gate_composite
    sub = Report(rep.pid, rep.tier)
    try:
        for r in rules:
            r(ctx, sub, pid)
    except AnchorMissing as e:
        sub.fail_closed(pid + '.anchor', str(e))
    except (IndexError, KeyError, TypeError, AttributeError) as e:
        # a predicate with another parameter list than the rules expect: not judged here
        sub.fail_closed(pid + '.anchor', 'per-predicate rules not applicable (%s: %s)' % (type(e).__name__, e))
    if not sub.failing():
        rep.absorb(sub)
        return
    sub2 = Report(rep.pid, rep.tier)
    try:
        gate_composite(ctx, sub2, pid)
    except AnchorMissing as e:
        sub2.fail_closed(pid + '.G', str(e))
    except Exception as e:   # the composite is a fallback: its own failure must not hide the first verdict
        sub2.fail_closed(pid + '.G', 'internal error %s: %s' % (type(e).__name__, e))
    if not sub2.failing():
        rep.absorb(sub2)
        rep.notes.append('limit predicates judged on the composite of transition; per-predicate rules failed on: '
                         + ', '.join(o['construct'] for o in sub.failing()[:6]))
        rep.extra['gate_composite'] = {'used': True, 'per_predicate_failures': [o['key'] for o in sub.failing()][:20]}
    else:
        rep.absorb(sub)
        rep.extra['gate_composite'] = {'used': False, 'composite_failures': [o['key'] for o in sub2.failing()][:20]}


def check_C02(ctx, rep):
    pid = 'C02'
    rule_initial_state(ctx, rep, pid)
    rep.rule(pid + '.R8', 'dispatch discipline in process_event: no path returns before the event kind was dispatched; framework-wide accounting of an arm happens before any machine is notified')
    rule_dispatch_discipline(ctx, rep, pid + '.R8', ('PaddingSent', 'NormalSent'))
    rule_gating(ctx, rep, pid)
    per_helper_or_composite(ctx, rep, pid, (rule_kind_table, check_padding))
    check_accounting_padding(ctx, rep, pid)
    rep.assumptions += ['every CFG path is treated as feasible', 'floating point ratio values are not decided',
                        'fractions are validated NaN-free (C12.R1)']
    return 'static path analysis of gating, completeness and strictness of the padding limit tests and of the counters they read'


# ------------------------------------------------------------------ C03

def is_sds(e, a_field, b_field):
    """e == a.saturating_duration_since(b) with a, b loads of the named fields"""
    e = unload(e)
    if not is_call(e, 'saturating_duration_since'):
        return False
    a, b = e[2][0], e[2][1]
    a = a[1] if a[0] == 'ref' else a
    return is_field(a, a_field) and is_field(b, b_field)


def check_blocking(ctx, rep, pid):
    prog, an = ctx.prog, ctx.an
    fn = prog.fn(FW, 'Framework', 'below_limit_blocking')
    fa = an.get(fn)
    rec = lambda f: callee_decl(f).endswith('AddAssign::add_assign')
    pf = an.paths(fn, rec, tag='add_assign')
    rep.rule(pid + '.R3', 'must-consult: every return of below_limit_blocking that is not the constant false lies on paths '
             'that (a) took the true edges of the action\'s replace flag and of blocking_active, or (b) took the true edge of '
             'm_block_dur < allowed_blocked_microsec, or (c) for BOTH fractions: not set (f > 0.0 false) or blocked/elapsed >= f was false')
    rep.rule(pid + '.R4', 'comparison table: budget test strict <; deny iff share >= fraction with share = '
             'div_duration_f64(own resp. global blocked duration, now - machine_start resp. framework_start); the blocked '
             'durations are the stored blocking_duration plus, on every path where blocking_active is true, '
             'now.saturating_duration_since(blocking_started)')
    # locals holding the two durations: initial value from the fields
    durs = {}
    for (pe, v, site, mp) in stores(fa):
        if pe[0] == 'local' and not mp['pr']:
            vv = unload(v)
            if is_field(vv, 'blocking_duration', 'MachineRuntime'):
                durs['machine'] = pe[1]
            elif is_field(vv, 'blocking_duration', 'Framework'):
                durs['global'] = pe[1]
    if set(durs) != {'machine', 'global'}:
        rep.fail_closed(pid + '.R4', 'below_limit_blocking: locals initialised from runtime.blocking_duration and self.blocking_duration')
        return

    def is_dur(e, who):
        e = unload(e)
        return e == ('local', durs[who])

    # every writer of the two locals
    for who, l in durs.items():
        for (b, k, part) in fa.defs().get(l, []):
            v = fa.def_value(l, b, k)
            ok = is_field(v, 'blocking_duration', 'MachineRuntime' if who == 'machine' else 'Framework')
            rep.ob(pid + '.R4', fn, '%s-duration-init' % who, ok, 'initialised from %s' % shape(v))
        for (b, f, args, t) in calls(fa):
            for i, a in enumerate(args):
                if a == ('ref', ('local', l)) and fa.fn.local_ty(t['a'][i].get('m', t['a'][i].get('c'))['l']).startswith('&mut'):
                    ok = callee_decl(f).endswith('AddAssign::add_assign') and is_sds(args[1], 'current_time', 'blocking_started')
                    rep.ob(pid + '.R4', fn, '%s-duration-update' % who, ok, '%s(%s)' % (callee_str(f), ', '.join(show(x) for x in args)))
                    st = pf.at_entry(b)
                    ok2, w = all_paths(st, lambda S: any(f2[0] == 'btrue' and f2[2] is True and is_field(f2[1], 'blocking_active', 'Framework') for f2 in S))
                    rep.ob(pid + '.R4', fn, '%s-duration-update-only-while-blocking' % who, ok2, 'update guarded by blocking_active')

    def frac_is(e, who):
        return is_field(e, 'max_blocking_frac', 'Machine' if who == 'machine' else 'Framework')

    def share_ok(e, who):
        e = unload(e)
        if not is_call(e, 'div_duration_f64'):
            return False
        a, b = e[2][0], e[2][1]
        start = 'machine_start' if who == 'machine' else 'framework_start'
        return is_dur(a, who) and is_sds(b, 'current_time', start)

    def ongoing_counted(S, who):
        """if blocking is active on this path, the ongoing block was added to the duration"""
        active = any(f[0] == 'btrue' and f[2] is True and is_field(f[1], 'blocking_active', 'Framework') for f in S)
        if not active:
            return True
        return any(f[0] == 'called' and f[1].endswith('add_assign') and f[2][0] == ('ref', ('local', durs[who]))
                   and is_sds(f[2][1], 'current_time', 'blocking_started') for f in S)

    def replace_case(S):
        act = any(f[0] == 'btrue' and f[2] is True and is_field(f[1], 'blocking_active', 'Framework') for f in S)
        rp = False
        for f in S:
            if f[0] == 'btrue' and f[2] is True:
                e = f[1]
                alts = e[1] if e[0] == 'phi' else (e,)
                if any(is_field(x, 'replace') and 'BlockOutgoing' in str(x) for x in alts) and \
                        all((is_field(x, 'replace') and 'BlockOutgoing' in str(x)) or is_const(x, 0) for x in alts):
                    rp = True
        return act and rp

    def budget(S):
        return has_cmp(S, 'lt', lambda l: is_dur(l, 'machine'), lambda r: is_field(r, 'allowed_blocked_microsec', 'MachineRuntime'), True) \
            and ongoing_counted(S, 'machine')

    def gate(S, who):
        if has_cmp(S, 'lt', lambda l: is_const(l, 0.0), lambda r: frac_is(r, who), False):
            return True
        if has_cmp(S, 'le', lambda l: frac_is(l, who), lambda r: share_ok(r, who), False) and ongoing_counted(S, who):
            return True
        if has_cmp(S, 'lt', lambda l: share_ok(l, who), lambda r: frac_is(r, who), True) and ongoing_counted(S, who):
            return True
        return False

    n_ret = 0
    for (b, k, v) in ret_defs(fa):
        n_ret += 1
        st = pf.at(b, k)
        if is_false_const(v):
            def deny_ok(S):
                return any(has_cmp(S, 'le', lambda l: frac_is(l, who), lambda r: share_ok(r, who), True) for who in ('machine', 'global'))
            ok, w = all_paths(st, deny_ok)
            rep.ob(pid + '.R4', fn, 'deny-return', ok, 'a `false` return is reached only through share >= fraction' + ('' if ok else '; witness: ' + show_facts(w)))
            continue
        for who in ('machine', 'global'):
            ok, w = all_paths(st, lambda S: replace_case(S) or budget(S) or gate(S, who))
            rep.ob(pid + '.R3', fn, 'ret[%s]:%s-fraction-consulted' % (shape(v), who), ok,
                   'replace-while-blocking, budget edge or %s fraction gate on every path' % who + ('' if ok else '; witness path: ' + show_facts(w)))
    rep.count_floor(pid + '.R3', 'returns of below_limit_blocking', n_ret, 3)
    # R4 operator table
    found = {'budget': False, 'm_set': False, 'g_set': False, 'm_share': False, 'g_share': False}
    for (b, e) in switch_conditions(fa):
        e2 = strip_sites(e)
        if e2[0] == 'call':
            name = e2[1]
            if name.endswith('PartialOrd::lt') or name.endswith('PartialOrd::gt') or name.endswith('PartialOrd::le') or name.endswith('PartialOrd::ge'):
                a, c = e2[2]
                a = ('load', a[1]) if a[0] == 'ref' else a
                c = ('load', c[1]) if c[0] == 'ref' else c
                if any(is_field(x, 'allowed_blocked_microsec') for x in (a, c)):
                    ok = (name.endswith('::lt') and is_dur(a, 'machine') and is_field(c, 'allowed_blocked_microsec')) or \
                         (name.endswith('::gt') and is_dur(c, 'machine') and is_field(a, 'allowed_blocked_microsec'))
                    found['budget'] = found['budget'] or ok
                    rep.ob(pid + '.R4', fn, 'comparison:budget', ok, shape(e2))
        if e2[0] != 'bin':
            continue
        op, l, r = e2[1], e2[2], e2[3]
        for who, key in (('machine', 'm'), ('global', 'g')):
            if frac_is(l, who) or frac_is(r, who):
                other = r if frac_is(l, who) else l
                if num(other) is not None:
                    ok = is_set_test(op, l, r, lambda x: frac_is(x, who))
                    found[key + '_set'] = found[key + '_set'] or ok
                else:
                    ok = (op in ('Ge', 'Lt') and share_ok(l, who) and frac_is(r, who)) or (op in ('Le', 'Gt') and share_ok(r, who) and frac_is(l, who))
                    found[key + '_share'] = found[key + '_share'] or ok
                rep.ob(pid + '.R4', fn, 'comparison:' + shape(e2)[:60], ok, 'operator/operands of %s' % shape(e2))
    for k2, v2 in found.items():
        rep.ob(pid + '.R4', fn, 'table-entry:' + k2, v2, 'comparison %s present' % k2)


def check_accounting_blocking(ctx, rep, pid):
    prog, an = ctx.prog, ctx.an
    F = fw_fns(prog)
    rep.rule(pid + '.R5', 'accounting: blocking_started/blocking_active are set only when blocking was not active (a repeated '
             'BlockingBegin does not restart the clock); in the BlockingEnd arm the only value added to the global and per-machine '
             'blocking_duration is now.saturating_duration_since(blocking_started) computed while blocking_active was true (else zero), '
             'and the flag is cleared there; writers of these fields are new and process_event only')
    fields = [('blocking_started', 'Framework'), ('blocking_active', 'Framework'), ('blocking_duration', 'Framework'),
              ('blocking_duration', 'MachineRuntime'), ('machine_start', 'MachineRuntime'), ('framework_start', 'Framework'),
              ('allowed_blocked_microsec', 'MachineRuntime'), ('current_time', 'Framework')]
    for name, fn in F.items():
        fa = an.get(fn)
        for (fld, adt) in fields:
            ws = field_stores(fa, fld, adt)
            # &mut borrows handed to calls
            for (b, f, args, t) in calls(fa):
                if decl_matches(f, ('AddAssign::add_assign',)) and args and args[0][0] == 'ref' and is_field(args[0][1], fld, adt):
                    ws.append((args[0][1], ('call', callee_str(f), args), (b, 0)))
            for (pe, v, site) in ws:
                if name == 'new':
                    continue
                allowed = 'trigger_events' if fld == 'current_time' else 'process_event'
                rep.ob(pid + '.R5', fn, 'writer:%s.%s' % (adt, fld), name == allowed, '%s.%s written in %s' % (adt, fld, name))
    # the clock the accounting reads is the clock of this call: trigger_events stores its current_time parameter before any event is processed
    te_ = F['trigger_events']
    tea = an.get(te_)
    cts = [(pe, v, site) for (pe, v, site) in field_stores(tea, 'current_time', 'Framework')]
    pev = [b for (b, f, a, t) in calls(tea) if callee_str(f).endswith('::process_event')]
    okc = len(cts) == 1 and strip_sites(cts[0][1]) in (('param', 3), ('load', ('param', 3))) and bool(pev) and all(tea.cfg.dominates(cts[0][2][0], b) for b in pev)
    rep.ob(pid + '.R5', te_, 'call-time-stored-before-events', okc, 'stores of current_time in trigger_events: %d' % len(cts))
    fn = F['process_event']
    fa = an.get(fn)
    pf = an.paths(fn, history=True)
    n = 0
    for (pe, v, site) in field_stores(fa, 'blocking_started', 'Framework'):
        n += 1
        st = pf.at(site[0], site[1])
        ok, w = all_paths(st, lambda S: any(f[0] == 'btrue' and f[2] is False and is_field(f[1], 'blocking_active', 'Framework') for f in S))
        rep.ob(pid + '.R5', fn, 'blocking_started-only-when-not-active', ok, 'store dominated by the false edge of blocking_active')
        rep.ob(pid + '.R5', fn, 'blocking_started-value', is_field(v, 'current_time', 'Framework'), 'value %s' % shape(v))
    rep.count_exact(pid + '.R5', 'stores to blocking_started in process_event', n, 1)
    for (pe, v, site) in field_stores(fa, 'blocking_active', 'Framework'):
        st = pf.at(site[0], site[1])
        if is_const(v, 1):
            ok, w = all_paths(st, lambda S: any(f[0] == 'variant' and f[2] == 'BlockingBegin' for f in S))
            rep.ob(pid + '.R5', fn, 'blocking_active-set-in-BlockingBegin', ok, '')
        elif is_const(v, 0):
            ok, w = all_paths(st, lambda S: any(f[0] == 'variant' and f[2] == 'BlockingEnd' for f in S) and
                              any(f[0] == 'btrue' and f[2] is True and is_field(f[1], 'blocking_active', 'Framework') for f in S))
            rep.ob(pid + '.R5', fn, 'blocking_active-cleared-in-BlockingEnd', ok, '')
        else:
            rep.ob(pid + '.R5', fn, 'blocking_active-value', False, 'non-constant value %s' % shape(v))
    # the converse: every BlockingBegin / BlockingEnd event is accounted, whatever machine it names
    rs = lambda pe_, val_: is_field(pe_, 'blocking_active', 'Framework')
    pfs = an.paths(fn, history=True, record_stores=rs, tag='blkacct')
    for r in fa.cfg.returns:
        for S in pfs.at_entry(r):
            kinds = {f[2] for f in S if f[0] == 'variant' and root_of(f[1]) == ('param', 2) and f[2] in ('BlockingBegin', 'BlockingEnd')}
            stored = [f for f in S if f[0] == 'stored' and f[1][1] == 'blocking_active']
            act = [f[2] for f in S if f[0] == 'btrue' and is_field(f[1], 'blocking_active', 'Framework')]
            if 'BlockingBegin' in kinds:
                ok = any(is_const(f[3], 1) for f in stored) or (True in act)
                rep.ob(pid + '.R5', fn, 'every-BlockingBegin-marks-blocking-active', ok,
                       '' if ok else 'a path handles BlockingBegin and returns without blocking_active being (or becoming) true: ' + show_facts(S))
            if 'BlockingEnd' in kinds:
                ok = any(is_const(f[3], 0) for f in stored) or (False in act)
                rep.ob(pid + '.R5', fn, 'every-BlockingEnd-clears-blocking-active', ok,
                       '' if ok else 'a path handles BlockingEnd and returns with blocking_active possibly still set: ' + show_facts(S))
    # additions to the durations
    adds = 0
    for (b, f, args, t) in calls(fa):
        if not decl_matches(f, ('AddAssign::add_assign',)):
            continue
        tgt = args[0][1] if args[0][0] == 'ref' else None
        if tgt is None or not (is_field(tgt, 'blocking_duration')):
            continue
        adds += 1
        val = args[1]
        alts = val[1] if val[0] == 'phi' else (val,)
        okv = all(is_sds(x, 'current_time', 'blocking_started') or is_call(unload(x), 'Duration::zero') for x in alts) and \
            any(is_sds(x, 'current_time', 'blocking_started') for x in alts)
        who = 'global' if is_field(tgt, 'blocking_duration', 'Framework') else 'machine'
        rep.ob(pid + '.R5', fn, '%s-duration-added-value' % who, okv, 'adds %s' % shape(val))
        st = pf.at_entry(b)
        ok, w = all_paths(st, lambda S: any(f2[0] == 'variant' and f2[2] == 'BlockingEnd' for f2 in S))
        rep.ob(pid + '.R5', fn, '%s-duration-added-in-BlockingEnd' % who, ok, '')
        if who == 'machine':
            idx = base_of(tgt)
            okix = idx is not None and idx[0] == 'idx' and is_range_loop_var(fa, idx[2])
            rep.ob(pid + '.R5', fn, 'machine-duration-indexed-by-loop-variable', okix, '')
    rep.count_exact(pid + '.R5', 'additions to blocking_duration', adds, 2)
    # the non-zero definition of `blocked` is computed under blocking_active
    for b in sorted(fa.cfg.reach):
        bb = fa.blocks[b]
        t = bb['t']
        if t['k'] == 'call' and callee_decl(t['f']).endswith('saturating_duration_since'):
            st = pf.at_entry(b)
            ok, w = all_paths(st, lambda S: any(f[0] == 'btrue' and f[2] is True and is_field(f[1], 'blocking_active', 'Framework') for f in S))
            rep.ob(pid + '.R5', fn, 'elapsed-computed-while-active', ok, 'saturating_duration_since under blocking_active')


def check_clock(ctx, rep, pid):
    prog = ctx.prog
    rep.rule(pid + '.R6', 'clock discipline: the trait time::Instant exposes exactly one operation, saturating_duration_since, so the '
             'generic framework cannot subtract instants any other way; the std impl delegates to Instant::saturating_duration_since; '
             'div_duration_f64 divides self by rhs')
    tr = prog.traits.get('maybenot::time::Instant')
    if not tr:
        rep.fail_closed(pid + '.R6', 'trait maybenot::time::Instant')
        return
    fns_ = [i['name'] for i in tr['items'] if i['kind'].lower().startswith('fn') or 'Fn' in i['kind']]
    rep.ob(pid + '.R6', 'time::Instant', 'trait-methods', fns_ == ['saturating_duration_since'], 'methods: %s' % fns_)
    an = ctx.an
    f = prog.fn(FW, 'Instant', 'saturating_duration_since', 'Instant')
    fa = an.get(f)
    cs = calls(fa)
    ok = len(cs) == 1 and callee_str(cs[0][1]).endswith('time::Instant::saturating_duration_since') and cs[0][1].get('crate') == 'std'
    ok = ok and cs[0][2][1] == ('param', 2)
    rep.ob(pid + '.R6', f, 'delegates-to-std-saturating', ok, 'calls: %s' % [callee_str(c[1]) for c in cs])
    d = prog.fn(FW, 'Duration', 'div_duration_f64', 'Duration')
    da = an.get(d)
    rv = [v for (b, k, v) in ret_defs(da)]
    okd = len(rv) == 1 and rv[0][0] == 'bin' and rv[0][1] == 'Div' and is_call(rv[0][2], 'as_secs_f64') and is_call(rv[0][3], 'as_secs_f64') \
        and rv[0][2][2][0] in (('ref', ('local', 1)), ('param', 1), ('ref', ('param', 1))) or (len(rv) == 1 and is_call(rv[0], 'div_duration_f64') and rv[0][2][0] == ('param', 1))
    if len(rv) == 1 and rv[0][0] == 'bin' and is_call(rv[0][2], 'as_secs_f64') and is_call(rv[0][3], 'as_secs_f64'):
        def pidx(a):
            for x in walk(a):
                if x and x[0] == 'param':
                    return x[1]
                if x and x[0] == 'local':
                    return x[1]
            return None
        okd = rv[0][1] == 'Div' and pidx(rv[0][2][2][0]) == 1 and pidx(rv[0][3][2][0]) == 2
    rep.ob(pid + '.R6', d, 'self-divided-by-rhs', bool(okd), 'returns %s' % (shape(rv[0]) if rv else '?'))
    z = prog.fn(FW, 'Duration', 'from_micros', 'Duration')
    za = an.get(z)
    rv = [v for (b, k, v) in ret_defs(za)]
    okz = len(rv) == 1 and is_call(rv[0], 'Duration::from_micros') and rv[0][2][0] == ('param', 1)
    rep.ob(pid + '.R6', z, 'from_micros-delegates', okz, 'returns %s' % (shape(rv[0]) if rv else '?'))


def check_C03(ctx, rep):
    pid = 'C03'
    rule_initial_state(ctx, rep, pid)
    rep.rule(pid + '.R8', 'dispatch discipline in process_event: no path returns before the event kind was dispatched (a BlockingBegin/BlockingEnd is accounted whatever id it carries); the blocking state is updated before any machine is notified')
    rule_dispatch_discipline(ctx, rep, pid + '.R8', ('BlockingBegin', 'BlockingEnd'))
    from .rules_fw import check_time_impl
    check_time_impl(ctx, rep, pid + '.R6')
    rule_gating(ctx, rep, pid)
    per_helper_or_composite(ctx, rep, pid, (rule_kind_table, check_blocking))
    check_accounting_blocking(ctx, rep, pid)
    check_clock(ctx, rep, pid)
    rep.assumptions += ['every CFG path is treated as feasible', 'values of the quotients (e.g. 0/0) are not decided',
                        "the caller's Instant/Duration implementation honours the documented contract of saturating_duration_since"]
    return 'static path analysis of gating, completeness, strictness and accounting of the blocking limit tests, and of the clock discipline'


# ------------------------------------------------------------------ C07

def next_state_payload(e):
    """e is the payload of the Option returned by State::sample_state"""
    e = unload(e)
    return e[0] == 'fld' and e[1][0] == 'var' and e[1][2] == 'Some' and is_call(unload(e[1][1]), '::sample_state')


def is_transition_result_unchanged(f):
    """fact: transition(self, mi, ev) == StateChange::Unchanged (true)"""
    if f[0] != 'cmp' or f[1] != 'eq' or f[5] is not True:
        return None
    for a, c in ((f[2], f[3]), (f[3], f[2])):
        if is_call(a, '::transition') and c[0] == 'agg' and c[1].endswith('StateChange') and c[2] == 'Unchanged':
            return a
    return None


def check_state_limit_writers(ctx, rep, pid):
    prog, an = ctx.prog, ctx.an
    F = fw_fns(prog)
    rep.rule(pid + '.R1', 'state_limit is written only by new (sample_limit of state 0), by transition — only on the true edge of '
             'curr_state != next_state, on every such path exactly once before the limits are evaluated, with sample_limit of the ENTERED '
             'state\'s action or STATE_LIMIT_MAX — and by decrement_limit (minus one, guarded by > 0): sampled once per stay, '
             'self-transitions do not refresh, re-entry does')
    for name, fn in F.items():
        fa = an.get(fn)
        for (pe, v, site) in field_stores(fa, 'state_limit', 'MachineRuntime'):
            rep.ob(pid + '.R1', fn, 'writer:state_limit', name in ('new', 'transition', 'decrement_limit'), 'state_limit written in %s' % name)
    # transition
    fn = F['transition']
    fa = an.get(fn)
    pfh = an.paths(fn, history=True)
    sl = field_stores(fa, 'state_limit', 'MachineRuntime')
    rep.count_exact(pid + '.R1', 'state_limit stores in transition', len(sl), 1)
    for (pe, v, site) in sl:
        st = pfh.at(site[0], site[1])
        ok, w = all_paths(st, lambda S: has_cmp(S, 'ne', lambda l: is_field(l, 'current_state', 'MachineRuntime'), next_state_payload, True)
                          or has_cmp(S, 'eq', lambda l: is_field(l, 'current_state', 'MachineRuntime'), next_state_payload, False))
        rep.ob(pid + '.R1', fn, 'limit-resampled-only-on-state-change', ok, 'store reached only via curr_state != next_state' + ('' if ok else '; witness ' + show_facts(w)))
        idx = base_of(unload(pe))
        rep.ob(pid + '.R1', fn, 'limit-stored-for-own-machine', idx is not None and idx[0] == 'idx' and idx[2] == ('param', 2) and is_field(idx[1], 'runtime'), show(pe))
        alts = v[1] if v[0] == 'phi' else (v,)
        okv = True
        for a in alts:
            if a[0] == 'cdef' and a[1].endswith('STATE_LIMIT_MAX'):
                continue
            if is_call(a, '::sample_limit'):
                act = a[2][0]
                act = act[1] if act[0] in ('refv', 'ref') else act
                act = unload(act)
                # ((machines[mi].states[next_state].action as Some).0
                good = act[0] == 'fld' and act[1][0] == 'var' and act[1][2] == 'Some' and is_field(act[1][1], 'action', 'State')
                if good:
                    sidx = base_of(act[1][1])
                    good = sidx is not None and sidx[0] == 'idx' and next_state_payload(sidx[2]) and is_field(sidx[1], 'states', 'Machine')
                    midx = base_of(sidx[1]) if good else None
                    good = good and midx is not None and midx[0] == 'idx' and midx[2] == ('param', 2)
                okv = okv and good
            else:
                okv = False
        rep.ob(pid + '.R1', fn, 'limit-value-from-entered-state', okv and any(is_call(a, '::sample_limit') for a in alts), 'value %s' % shape(v))
        # No-action alternative only when the entered state has no action
        # every path from the state store to the limits evaluation passes the limit store exactly once
        cs_stores = [s for (p2, v2, s) in field_stores(fa, 'current_state', 'MachineRuntime') if next_state_payload(v2)]
        bal = [b for (b, f, a, t) in calls(fa) if callee_str(f).endswith('::below_action_limits')]
        for s2 in cs_stores:
            if not bal:
                break
            region = fa.cfg.reachable_from(s2[0], avoid=())
            lo, hi = count_between(fa, s2[0], bal[0], {site[0]})
            rep.ob(pid + '.R1', fn, 'limit-resampled-on-every-state-change', (lo, hi) == (1, 1),
                   'state_limit stores between the current_state store and the limit evaluation: min %s max %s' % (lo, hi))
    # the sampled state is entered: it is stored, for the machine's own runtime, on every path that goes on to evaluate the limits
    csn = [(pe, v, site) for (pe, v, site) in field_stores(fa, 'current_state', 'MachineRuntime') if next_state_payload(v)]
    rep.count_floor(pid + '.R1', 'stores of the sampled state to current_state in transition', len(csn), 1)
    bal2 = [b for (b, f, a, t) in calls(fa) if callee_str(f).endswith('::below_action_limits')]
    sls = [site[0] for (pe, v, site) in sl]
    if csn and sls:
        # the limit store (reached only on the change edge, see above) is preceded by the state store on every path
        for lb in sls:
            ok = any(fa.cfg.dominates(site[0], lb) for (pe, v, site) in csn)
            rep.ob(pid + '.R1', fn, 'state-stored-before-limit-resampled', ok, 'the store of the sampled state dominates the limit store')
    for (pe, v, site) in csn:
        idx = base_of(unload(pe))
        rep.ob(pid + '.R1', fn, 'state-stored-for-own-machine', idx is not None and idx[0] == 'idx' and idx[2] == ('param', 2) and is_field(idx[1], 'runtime'), show(pe))
    # the store of a regular next state
    for (pe, v, site) in field_stores(fa, 'current_state', 'MachineRuntime'):
        if next_state_payload(v):
            st = pfh.at(site[0], site[1])
            ok, w = all_paths(st, lambda S: has_cmp(S, 'ne', lambda l: is_field(l, 'current_state', 'MachineRuntime'), next_state_payload, True))
            rep.ob(pid + '.R1', fn, 'state-store-on-change-edge', ok, '')
    # what transition reports to its caller (the decrement sites act on it): after a regular step, Unchanged exactly when the state
    # is the one from before the step and the chained CounterZero transition changed nothing
    uc = [b for (b, f, a, t) in calls(fa) if callee_str(f).endswith('::update_counter')]
    is_cs = lambda e: is_field(e, 'current_state', 'MachineRuntime')
    is_chg = lambda e: contains(e, lambda y: is_call(y, '::update_counter')) and not is_cs(e)
    n_res = 0
    results = []
    for b in sorted(fa.cfg.reach):
        for k, st0 in enumerate(fa.blocks[b]['s']):
            if 'p' in st0 and st0['rv']['k'] == 'agg' and not st0['p']['pr']:
                v = fa.rvalue(st0['rv'], (b, k))
                if isinstance(v, tuple) and v and v[0] == 'agg' and v[1].endswith('StateChange'):
                    results.append((b, k, v))
    for (b, k, v) in results:
        if not uc or not any(fa.cfg.dominates(u, b) for u in uc):
            continue
        n_res += 1
        sts = pfh.at(b, k) if k is not None else pfh.at_entry(b)
        same = lambda S, pol: any(f[0] == 'cmp' and f[1] == 'eq' and f[5] is pol and is_cs(f[2]) and is_cs(f[3]) for f in S) or \
            any(f[0] == 'cmp' and f[1] == 'ne' and f[5] is (not pol) and is_cs(f[2]) and is_cs(f[3]) for f in S)
        chained = lambda S, pol: any(f[0] == 'btrue' and f[2] is pol and is_chg(f[1]) for f in S)
        if v[2] == 'Unchanged':
            ok, w = all_paths(sts, lambda S: same(S, True) and chained(S, False))
        else:
            ok, w = all_paths(sts, lambda S: same(S, False) or chained(S, True))
        rep.ob(pid + '.R2', fn, 'transition-reports-%s-truthfully' % v[2], ok and bool(sts), '' if ok else 'witness: ' + show_facts(w))
    rep.count_floor(pid + '.R2', 'results of transition after a regular step', n_res, 2)
    # decrement_limit
    fn = F['decrement_limit']
    fa = an.get(fn)
    pf = an.paths(fn)
    rep.count_floor(pid + '.R1', 'decrements of state_limit in decrement_limit', len(field_stores(fa, 'state_limit', 'MachineRuntime')), 1)
    # the completed action is counted before the limit is tested: the LimitReached test (has_limit) is preceded by the decrement on
    # every path where the limit was positive
    hl = [b for (b, f, a, t) in calls(fa) if callee_str(f).endswith('::has_limit')]
    dec = [site[0] for (pe, v, site) in field_stores(fa, 'state_limit', 'MachineRuntime')]
    for hb in hl:
        for S in an.paths(fn, history=True, record_stores=lambda pe, val: is_field(pe, 'state_limit', 'MachineRuntime'), tag='dec').at_entry(hb):
            positive = cmp_int_true(S, 'lt', lambda l: is_const(l, 0), lambda r: is_field(r, 'state_limit', 'MachineRuntime')) or \
                cmp_int_true(S, 'ne', lambda l: is_field(l, 'state_limit', 'MachineRuntime'), lambda r: is_const(r, 0))
            stored = any(f[0] == 'stored' for f in S)
            zero_before = cmp_int_true(S, 'eq', lambda l: is_field(l, 'state_limit', 'MachineRuntime'), lambda r: is_const(r, 0)) or \
                has_cmp(S, 'lt', lambda l: is_const(l, 0), lambda r: is_field(r, 'state_limit', 'MachineRuntime'), False)
            rep.ob(pid + '.R1', fn, 'limit-test-follows-the-decrement', stored or zero_before or not positive,
                   'on every path to the LimitReached test a positive limit was decremented' + ('' if (stored or zero_before or not positive) else '; witness ' + show_facts(S)))
    for (pe, v, site) in field_stores(fa, 'state_limit', 'MachineRuntime'):
        okv = v[0] == 'bin' and v[1] == 'Sub' and is_field(v[2], 'state_limit', 'MachineRuntime') and is_const(v[3], 1)
        # `x = x.saturating_sub(1)` is `if x > 0 { x -= 1 }`
        sat = is_call(v, '::saturating_sub') and len(v[2]) == 2 and is_field(v[2][0], 'state_limit', 'MachineRuntime') and is_const(v[2][1], 1)
        okv = okv or sat
        rep.ob(pid + '.R1', fn, 'decrement-by-one', okv, 'value %s' % shape(v))
        st = pf.at(site[0], site[1])
        ok, w = all_paths(st, lambda S: sat or cmp_int_true(S, 'lt', lambda l: is_const(l, 0), lambda r: is_field(r, 'state_limit', 'MachineRuntime')))
        rep.ob(pid + '.R1', fn, 'decrement-guarded-by-positive', ok, 'state_limit > 0 holds (not invalidated) at the decrement')
        idx = base_of(unload(pe))
        rep.ob(pid + '.R1', fn, 'decrement-own-machine', idx is not None and idx[0] == 'idx' and idx[2] == ('param', 2), show(pe))
    # new
    fn = F['new']
    fa = an.get(fn)
    for (pe, v, site) in field_stores(fa, 'state_limit', 'MachineRuntime'):
        okv = is_call(v, '::sample_limit')
        if okv:
            act = v[2][0]
            act = act[1] if act[0] in ('refv', 'ref') else act
            act = unload(act)
            okv = act[0] == 'fld' and act[1][0] == 'var' and is_field(act[1][1], 'action', 'State')
            sidx = base_of(act[1][1]) if okv else None
            okv = okv and sidx is not None and sidx[0] == 'idx' and is_const(sidx[2], 0)
        rep.ob(pid + '.R1', fn, 'initial-limit-from-state-0', okv, 'value %s' % shape(v))
    rep.count_floor(pid + '.R1', 'stores of the initial state_limit in Framework::new', len(field_stores(fa, 'state_limit', 'MachineRuntime')), 1)


def count_between(fa, a, b, marks):
    """[min,max] number of marked blocks on paths from block a to block b (b excluded)"""
    cfg = fa.cfg
    region = {x for x in cfg.reachable_from(a) if cfg.can_reach(x, b)}
    memo_min, memo_max = {}, {}

    def go(x, stack):
        if x == b:
            return (0, 0)
        if x in memo_min:
            return (memo_min[x], memo_max[x])
        if x in stack:
            return None
        stack.add(x)
        lo, hi = None, None
        for (y, l) in cfg.succ[x]:
            if y not in region:
                continue
            r = go(y, stack)
            if r is None:
                continue
            lo = r[0] if lo is None else min(lo, r[0])
            hi = r[1] if hi is None else max(hi, r[1])
        stack.discard(x)
        if lo is None:
            return None
        m = 1 if x in marks else 0
        memo_min[x], memo_max[x] = lo + m, hi + m
        return (lo + m, hi + m)
    r = go(a, set())
    return r if r else (0, 0)


def check_decrement_sites(ctx, rep, pid):
    prog, an = ctx.prog, ctx.an
    F = fw_fns(prog)
    rep.rule(pid + '.R2', 'decrement_limit is called only from the PaddingSent, BlockingBegin and TimerBegin arms of process_event, '
             'each call reached only through transition(mi, same event) == Unchanged and current_state != STATE_END for the machine '
             'named by the event (for the broadcast BlockingBegin: mi == event id), with that same id as argument')
    sites = []
    for name, fn in F.items():
        fa = an.get(fn)
        for (b, f, args, t) in calls(fa):
            if callee_str(f).endswith('::decrement_limit') and f.get('crate') == FW:
                sites.append((fn, fa, b, args))
    want = sorted(v['name'] for v in prog.adt('maybenot::event::TriggerEvent')['variants']
                  if v['name'] in ('PaddingSent', 'BlockingBegin', 'TimerBegin'))
    got = []
    for (fn, fa, b, args) in sites:
        rep.ob(pid + '.R2', fn, 'decrement_limit-caller', fn.name == 'process_event', 'called from %s' % fn.name)
        if fn.name != 'process_event':
            continue
        pfh = an.paths(fn, history=True)
        st = pfh.at_entry(b)
        mi = args[1]
        for S in st:
            var = [f[2] for f in S if f[0] == 'variant' and f[2] in ('PaddingSent', 'BlockingBegin', 'TimerBegin', 'TimerEnd', 'NormalSent',
                                                                  'NormalRecv', 'PaddingRecv', 'TunnelRecv', 'TunnelSent', 'BlockingEnd') and 'param' in str(f[1])]
            v = var[0] if var else '?'
            got.append(v)
            tr = [is_transition_result_unchanged(f) for f in S]
            tr = [x for x in tr if x]
            ok_tr = any(x[2][1] == strip_sites(mi) and x[2][2][0] == 'agg' and x[2][2][2] == v for x in tr)
            ok_end = cmp_int_true(S, 'ne', lambda l: is_field(l, 'current_state', 'MachineRuntime') and base_of(l)[0] == 'idx' and base_of(l)[2] == strip_sites(mi),
                                  lambda r: r[0] == 'cdef' and r[1].endswith('STATE_END'))

            def is_event_id(e):
                return is_call(e, 'into_raw') and is_field(e[2][0], 'machine', 'TriggerEvent') and ('var', ('deref', ('param', 2)), v) in list(walk(e))
            smi = strip_sites(mi)

            def is_mi(e):
                # mi itself, or Some(mi) (`Some(mi) == self.machine_index(id)`)
                while True:
                    if e == smi or strip_sites(e) == smi:
                        return True
                    if isinstance(e, tuple) and e and e[0] in ('refv', 'ref', 'load', 'pick'):
                        e = e[1]
                        continue
                    break
                return isinstance(e, tuple) and e and e[0] == 'agg' and e[2] == 'Some' and any(strip_sites(x[1]) == smi for x in e[3])

            def has_event_id(e):
                return is_event_id(e) or contains(e, lambda y: isinstance(y, tuple) and is_event_id(y))
            ok_id = is_event_id(smi) or has_cmp(S, 'eq', is_mi, has_event_id, True)
            rep.ob(pid + '.R2', fn, 'arm:%s:unchanged-guard' % v, ok_tr, 'transition(self, id, Event::%s) == Unchanged on the path' % v)
            rep.ob(pid + '.R2', fn, 'arm:%s:not-ended-guard' % v, ok_end, 'current_state != STATE_END on the path')
            rep.ob(pid + '.R2', fn, 'arm:%s:own-id' % v, ok_id, 'argument %s is the id carried by the event' % show(mi))
    rep.ob(pid + '.R2', '<inventory>', 'decrement-sites', sorted(set(got)) == want and len(sites) == 3, 'arms with a decrement: %s (sites %d)' % (sorted(set(got)), len(sites)))


def check_limit_reached(ctx, rep, pid):
    prog, an = ctx.prog, ctx.an
    fn = prog.fn(FW, 'Framework', 'decrement_limit')
    fa = an.get(fn)
    pf = an.paths(fn)
    rep.rule(pid + '.R3', 'in decrement_limit the internal LimitReached transition is raised exactly on the paths where, after the '
             'decrement, state_limit == 0 and the current state\'s action has a limit; the pending action slot of that machine is '
             'cleared first on every such path; no return bypasses the test')
    tr = [(b, f, args, t) for (b, f, args, t) in calls(fa) if callee_str(f).endswith('::transition')]
    rep.count_exact(pid + '.R3', 'LimitReached call sites', len(tr), 1)

    def zero(S):
        return cmp_int_true(S, 'eq', lambda l: is_field(l, 'state_limit', 'MachineRuntime'), lambda r: is_const(r, 0))

    def haslim(S):
        return any(f[0] == 'bcall' and f[3] is True and f[1].endswith('::has_limit') for f in S)
    for (b, f, args, t) in tr:
        ev = args[2]
        rep.ob(pid + '.R3', fn, 'event-is-LimitReached', ev[0] == 'agg' and ev[2] == 'LimitReached' and args[1] == ('param', 2), 'transition(%s)' % ', '.join(show(a) for a in args[1:]))
        st = pf.at_entry(b)
        ok, w = all_paths(st, lambda S: zero(S) and haslim(S))
        rep.ob(pid + '.R3', fn, 'raised-only-when-limit-zero-and-limited', ok, '' if ok else 'witness ' + show_facts(w))
        # slot cleared before
        clear = [s for (pe, v, s) in field_stores(fa, 'actions', 'Framework') if v[0] == 'agg' and v[2] == 'None'
                 and unload(pe)[0] == 'idx' and unload(pe)[2] == ('param', 2)]
        okc = bool(clear) and all(fa.cfg.dominates(c[0], b) for c in clear[:1])
        # and the clearing itself is under the same guard (does not clear otherwise)
        okg = True
        for c in clear:
            ok2, w2 = all_paths(pf.at_entry(c[0]), lambda S: zero(S) and haslim(S))
            okg = okg and ok2
        rep.ob(pid + '.R3', fn, 'pending-action-cleared-before-LimitReached', okc, 'actions[mi] = None dominates the call')
        rep.ob(pid + '.R3', fn, 'pending-action-cleared-only-on-limit', okg, '')
    # completeness: every return not passing the call crossed a false edge of one of the three tests
    called = {b for (b, f, args, t) in tr}
    rec = lambda f: callee_str(f).endswith('::transition')
    pfc = an.paths(fn, rec, tag='transition')
    for r in fa.cfg.returns:
        def ok_ret(S):
            if any(f[0] == 'called' for f in S):
                return True
            nz = cmp_int_true(S, 'ne', lambda l: is_field(l, 'state_limit', 'MachineRuntime'), lambda r: is_const(r, 0)) or \
                has_cmp(S, 'eq', lambda l: is_field(l, 'state_limit', 'MachineRuntime'), lambda r: is_const(r, 0), False)
            nl = any(f[0] == 'bcall' and f[3] is False and f[1].endswith('::has_limit') for f in S)
            na = any(f[0] == 'variant' and f[2] == 'None' and is_field(f[1], 'action', 'State') for f in S)
            return nz or nl or na
        ok, w = all_paths(pfc.at_entry(r), ok_ret)
        rep.ob(pid + '.R3', fn, 'no-return-bypasses-limit-test', ok, '' if ok else 'witness path returns without LimitReached: ' + show_facts(w))
    # has_limit table
    hl = prog.fn(FW, 'Action', 'has_limit')
    ha = an.get(hl)
    hp = an.paths(hl)
    anames = [x['name'] for x in prog.adt('maybenot::action::Action')['variants']]
    for (b, k, v) in ret_defs(ha):
        for S in hp.at(b, k):
            var = [f[2] for f in S if f[0] == 'variant' and f[2] in anames]
            nots = [x for f in S if f[0] == 'notvariant' for x in f[2] if x in anames]
            names = var[:1] if var else [x['name'] for x in prog.adt('maybenot::action::Action')['variants'] if x['name'] not in nots]
            for n in names:
                hasl = any(fl['name'] == 'limit' for fl in prog.variant('maybenot::action::Action', n)['fields'])
                if hasl and num(v) is not None:
                    # constant under a tested limit: must agree with the test (matches!-style)
                    def lim(f2):
                        return contains(f2[1], lambda x: isinstance(x, tuple) and x and x[0] == 'fld' and x[3] == 'limit' and x[2].endswith('Action')) and \
                            contains(f2[1], lambda x: isinstance(x, tuple) and x and x[0] == 'var' and x[2] == n)
                    some = any(f2[0] == 'variant' and f2[2] == 'Some' and lim(f2) for f2 in S)
                    none = any(f2[0] == 'variant' and f2[2] == 'None' and lim(f2) for f2 in S)
                    ok = (bool(num(v)) and some) or (not num(v) and none)
                elif hasl:
                    ok = is_call(v, 'is_some')
                    if ok:
                        x = v[2][0]
                        alts = x[1] if x[0] == 'phi' else (x,)
                        alts = [a[1] if a[0] in ('ref', 'refv') else a for a in alts]
                        ok = all(is_field(a, 'limit', 'Action') for a in alts) and any(('var', ('deref', ('param', 1)), n) in list(walk(a)) for a in alts)
                else:
                    ok = is_false_const(v)
                rep.ob(pid + '.R3', hl, 'has_limit:' + n, ok, 'returns %s' % shape(v))


def check_limit_everywhere(ctx, rep, pid):
    prog, an = ctx.prog, ctx.an
    rep.rule(pid + '.R4', 'for every Action variant with a limit field, every non-false return of its limit predicate is the value of '
             'state_limit > 0 of the runtime passed in (a sampled limit of zero yields no action)')
    for name in ('below_limit_padding', 'below_limit_blocking'):
        fn = prog.fn(FW, 'Framework', name)
        fa = an.get(fn)
        for (b, k, v) in ret_defs(fa):
            if is_false_const(v):
                continue
            ok = is_state_limit_gt0(v) and root_of(v[2] if is_field(v[2], 'state_limit') else v[3]) == ('param', 2)
            rep.ob(pid + '.R4', fn, 'ret[%s]' % shape(v), ok, 'non-false return is runtime.state_limit > 0')


def check_C07(ctx, rep):
    pid = 'C07'
    from .rules_fw import check_sample_limit
    rep.rule('C07.R5', 'Action::sample_limit: STATE_LIMIT_MAX (= u64::MAX) only for actions without a limit distribution, otherwise the rounded, saturating-cast sample of that action\'s own limit distribution')
    check_sample_limit(ctx, rep, 'C07.R5')
    check_state_limit_writers(ctx, rep, pid)
    check_decrement_sites(ctx, rep, pid)
    # "completions for other machines or unknown ids never consume the limit": the id compared with runtime.len() and used as the
    # index is the id the integration reported (MachineId's accessors are lossless)
    rep.rule('C07.R6', 'MachineId::from_raw / into_raw are identity wrappers around usize: the id guarded and indexed with is the id reported')
    from .rules_fw import check_helpers_ids
    check_helpers_ids(ctx, rep, 'C07.R6')
    check_limit_reached(ctx, rep, pid)
    per_helper_or_composite(ctx, rep, pid, (check_limit_everywhere, rule_kind_table))
    rep.assumptions += ['every CFG path is treated as feasible', 'counts over concrete histories are not decided']
    return 'static who-may-write inventory of state_limit, guards of its three writers, call-site guards of decrement_limit and completeness of the LimitReached test'
