"""C02 (padding budgets), C03 (blocking budgets), C07 (per-state limits)."""
from .core import AnchorMissing, strip_sites, walk, show, callee_str, callee_decl, decl_matches
from .paths import stores, calls, field_stores
from .pat import (num, is_const, unload, last_field, is_field, strip_casts, is_call, has_cmp,
                  cmp_int_true, all_paths, show_facts, field_chain, root_of, contains, base_of)

FW = 'maybenot'


def fw_fns(prog):
    names = ['new', 'trigger_events', 'process_event', 'transition', 'update_counter', 'schedule_action',
             'decrement_limit', 'below_action_limits', 'below_limit_blocking', 'below_limit_padding', 'num_machines']
    return {n: prog.fn(FW, 'Framework', n) for n in names}


def ret_defs(fa):
    """definition sites of the return place _0: [(bb, k, value)]"""
    out = []
    for (b, k, part) in fa.defs().get(0, []):
        out.append((b, k, fa.def_value(0, b, k)))
    return out


def is_false_const(v):
    return v[0] == 'const' and v[1] == 'bool' and v[2] == 'false'


def is_true_const(v):
    return v[0] == 'const' and v[1] == 'bool' and v[2] == 'true'


def is_state_limit_gt0(v):
    """v == (runtime.state_limit > 0)"""
    if v[0] != 'bin':
        return False
    if v[1] == 'Gt' and is_field(v[2], 'state_limit', 'MachineRuntime') and is_const(v[3], 0):
        return True
    if v[1] == 'Lt' and is_field(v[3], 'state_limit', 'MachineRuntime') and is_const(v[2], 0):
        return True
    if v[1] == 'Ne' and ((is_field(v[2], 'state_limit', 'MachineRuntime') and is_const(v[3], 0)) or
                         (is_field(v[3], 'state_limit', 'MachineRuntime') and is_const(v[2], 0))):
        return True
    return False


def shape(v):
    """line-free description of a returned value"""
    s = show(v)
    return s if len(s) < 80 else s[:77] + '...'


# ------------------------------------------------------------------ shared: R1/R2

def rule_gating(ctx, rep, pid):
    """R1: schedule_action has one call site, dominated by allow_schedule && below_limits where
    below_limits is the result of below_action_limits evaluated after the state store."""
    prog, an = ctx.prog, ctx.an
    F = fw_fns(prog)
    rep.rule(pid + '.R1', 'schedule_action is called only from transition, only on paths where the result of '
             'below_action_limits(runtime[mi], machines[mi]) is true and the allow flag from update_counter is true; '
             'the action slot is written Some only inside schedule_action')
    sites = []
    for name, fn in F.items():
        fa = an.get(fn)
        for (b, f, args, t) in calls(fa):
            if callee_str(f).endswith('::schedule_action') and f.get('crate') == FW:
                sites.append((fn, fa, b, args))
    rep.count_exact(pid + '.R1', 'schedule_action call sites', len(sites), 1)
    for (fn, fa, b, args) in sites:
        rep.ob(pid + '.R1', fn, 'schedule_action-caller', fn.name == 'transition', 'caller is %s' % fn.name)
        pf = an.paths(fn)
        st = pf.at_entry(b)

        def guarded(S):
            bl = False
            al = False
            for f in S:
                if f[0] == 'bcall' and f[3] is True and f[1].endswith('::below_action_limits'):
                    bl = True
                if f[0] == 'btrue' and f[2] is True:
                    e = f[1]
                    if is_call(e, '::below_action_limits'):
                        bl = True
                    # allow_schedule = update_counter(..).0
                    x = unload(e)
                    if x[0] == 'fld' and x[3] == '0' and is_call(unload(x[1]), '::update_counter'):
                        al = True
                    if is_call(e, '::update_counter'):
                        al = True
            return bl and al
        ok, w = all_paths(st, guarded)
        rep.ob(pid + '.R1', fn, 'schedule_action-guard', ok,
               'every path to the call crosses the true edges of below_action_limits(..) and update_counter(..).0'
               + ('' if ok else '; witness path: ' + show_facts(w)))
        # below_action_limits evaluated after the state store on the same path: the call's block
        # must not be able to reach a store of current_state/state_limit before schedule_action
        bal_blocks = [bb for (bb, f2, a2, t2) in calls(fa) if callee_str(f2).endswith('::below_action_limits')]
        st_blocks = {s[0] for (pe, v, s) in field_stores(fa, 'current_state') + field_stores(fa, 'state_limit')}
        bad = [sb for bb in bal_blocks for sb in st_blocks if fa.cfg.can_reach(bb, sb) and fa.cfg.can_reach(sb, b) and sb != bb]
        rep.ob(pid + '.R1', fn, 'limits-evaluated-after-state-store', len(bal_blocks) == 1 and not bad,
               'below_action_limits call sites: %d; state stores between evaluation and scheduling: %d' % (len(bal_blocks), len(bad)))
        # the runtime/machine passed are runtime[mi] / machines[mi] with mi the function parameter
        for bb in bal_blocks:
            for (b2, f2, a2, t2) in calls(fa):
                if b2 == bb:
                    okr = a2[1][0] == 'ref' and unload(a2[1][1])[0] == 'idx' and unload(a2[1][1])[2] == ('param', 2) and is_field(unload(a2[1][1])[1], 'runtime')
                    m = a2[2]
                    okm = m[0] == 'ref' and m[1][0] == 'idx' and m[1][2] == ('param', 2) and 'machines' in field_chain(m[1])
                    rep.ob(pid + '.R1', fn, 'limits-evaluated-on-own-runtime', okr and okm,
                           'arguments: %s, %s' % (show(a2[1]), show(a2[2])))
    # Some-writes of the action slot
    for name, fn in F.items():
        fa = an.get(fn)
        for (pe, v, site) in field_stores(fa, 'actions', 'Framework'):
            if unload(pe)[0] != 'idx':
                continue
            is_none = (v[0] == 'agg' and v[2] == 'None')
            if not is_none:
                rep.ob(pid + '.R1', fn, 'action-slot-written-non-None', fn.name == 'schedule_action',
                       'value %s' % shape(v))


def rule_kind_table(ctx, rep, pid):
    """R2: kind -> predicate table in below_action_limits, exhaustive over Action variants"""
    prog, an = ctx.prog, ctx.an
    fn = prog.fn(FW, 'Framework', 'below_action_limits')
    rep.rule(pid + '.R2', 'in below_action_limits each Action variant returns: SendPadding -> below_limit_padding, '
             'BlockOutgoing -> below_limit_blocking, any other variant with a `limit` field -> state_limit > 0, '
             'variants without a limit field -> true; no action -> false')
    fa = an.get(fn)
    pf = an.paths(fn)
    variants = prog.adt('maybenot::action::Action')['variants']
    covered = {}
    for (b, k, v) in ret_defs(fa):
        for S in pf.at(b, k):
            vs = [f[2] for f in S if f[0] == 'variant' and 'action' in show(f[1]) and f[2] in [x['name'] for x in variants]]
            nots = [f[2] for f in S if f[0] == 'notvariant']
            opt = [f[2] for f in S if f[0] == 'variant' and f[2] in ('None', 'Some')]
            if 'None' in opt:
                rep.ob(pid + '.R2', fn, 'no-action', is_false_const(v), 'returns %s when the state has no action' % shape(v))
                continue
            if vs:
                names = [vs[0]]
            else:
                excl = set(x for n in nots for x in n)
                names = [x['name'] for x in variants if x['name'] not in excl]
            for n in names:
                covered.setdefault(n, []).append(v)
    for var in variants:
        n = var['name']
        has_limit = any(f['name'] == 'limit' for f in var['fields'])
        vals = covered.get(n, [])
        if not vals:
            rep.ob(pid + '.R2', fn, 'variant:' + n, False, 'no return found for Action::%s' % n)
            continue
        for v in vals:
            if n == 'SendPadding':
                ok = is_call(v, '::below_limit_padding')
            elif n == 'BlockOutgoing':
                ok = is_call(v, '::below_limit_blocking')
            elif has_limit:
                ok = is_state_limit_gt0(v)
            else:
                ok = is_true_const(v)
            rep.ob(pid + '.R2', fn, 'variant:' + n, ok, 'Action::%s returns %s' % (n, shape(v)))
    # arguments passed through unchanged
    for (b, f, args, t) in calls(fa):
        if callee_str(f).endswith('::below_limit_padding') or callee_str(f).endswith('::below_limit_blocking'):
            ok = args[0] == ('param', 1) and args[1] == ('param', 2) and args[2] == ('param', 3)
            rep.ob(pid + '.R2', fn, 'passes-own-args:' + callee_str(f).split('::')[-1], ok, 'args ' + ', '.join(show(a) for a in args))


# ------------------------------------------------------------------ C02

def padding_ratio_ok(ratio, who):
    """ratio == padding / (padding + normal) with the right counters for `who`"""
    r = ratio
    if r[0] != 'bin' or r[1] != 'Div':
        return False
    numr = strip_casts(r[2])
    den = strip_casts(r[3])
    if who == 'machine':
        pn, nn, adt = 'padding_sent', 'normal_sent', 'MachineRuntime'
    else:
        pn, nn, adt = 'padding_sent_packets', 'normal_sent_packets', 'Framework'
    if not is_field(numr, pn, adt):
        return False
    if den[0] != 'bin' or den[1] != 'Add':
        return False
    a, b = den[2], den[3]
    return (is_field(a, pn, adt) and is_field(b, nn, adt)) or (is_field(a, nn, adt) and is_field(b, pn, adt))


def total_ok(e, who):
    if who == 'machine':
        pn, nn, adt = 'padding_sent', 'normal_sent', 'MachineRuntime'
    else:
        pn, nn, adt = 'padding_sent_packets', 'normal_sent_packets', 'Framework'
    e = strip_casts(e)
    if e[0] != 'bin' or e[1] != 'Add':
        return False
    a, b = e[2], e[3]
    return (is_field(a, pn, adt) and is_field(b, nn, adt)) or (is_field(a, nn, adt) and is_field(b, pn, adt))


def check_padding(ctx, rep, pid):
    prog, an = ctx.prog, ctx.an
    fn = prog.fn(FW, 'Framework', 'below_limit_padding')
    fa = an.get(fn)
    pf = an.paths(fn)
    rep.rule(pid + '.R3', 'must-consult: every return of below_limit_padding that is not the constant false lies on '
             'paths that took the true edge of padding_sent < allowed_padding_packets, or for BOTH the machine and '
             'the framework fraction: the fraction is not set (f > 0.0 false), or its ratio test ratio >= f was false, '
             'or its packet total was zero')
    rep.rule(pid + '.R4', 'comparison table: budget test is strict padding_sent < allowed_padding_packets; '
             'deny test is ratio >= fraction with ratio = own padding/(own padding+own normal) resp. global; '
             'fraction set iff > 0.0')

    def frac_is(e, who):
        return is_field(e, 'max_padding_frac', 'Machine' if who == 'machine' else 'Framework')

    def budget(S):
        return has_cmp(S, 'lt', lambda l: is_field(l, 'padding_sent', 'MachineRuntime'),
                       lambda r: is_field(r, 'allowed_padding_packets', 'Machine'), True)

    def gate(S, who):
        # fraction not set
        if has_cmp(S, 'lt', lambda l: is_const(l, 0.0), lambda r: frac_is(r, who), False):
            return True
        if has_cmp(S, 'le', lambda l: frac_is(l, who), lambda r: is_const(r, 0.0), True):
            return True
        # ratio >= frac is false
        if has_cmp(S, 'le', lambda l: frac_is(l, who), lambda r: padding_ratio_ok(r, who), False):
            return True
        if has_cmp(S, 'lt', lambda l: padding_ratio_ok(l, who), lambda r: frac_is(r, who), True):
            return True
        # zero total
        if cmp_int_true(S, 'le', lambda l: total_ok(l, who), lambda r: is_const(r, 0)):
            return True
        if cmp_int_true(S, 'eq', lambda l: total_ok(l, who), lambda r: is_const(r, 0)):
            return True
        return False

    n_ret = 0
    for (b, k, v) in ret_defs(fa):
        n_ret += 1
        if is_false_const(v):
            # deny returns: must be justified by a ratio >= fraction test (R4)
            st = pf.at(b, k)

            def deny_ok(S):
                for who in ('machine', 'global'):
                    if has_cmp(S, 'le', lambda l: frac_is(l, who), lambda r: padding_ratio_ok(r, who), True):
                        return True
                return False
            ok, w = all_paths(st, deny_ok)
            rep.ob(pid + '.R4', fn, 'deny-return', ok, 'a `false` return is reached only through ratio >= fraction'
                   + ('' if ok else '; witness: ' + show_facts(w)))
            continue
        st = pf.at(b, k)
        for who in ('machine', 'global'):
            ok, w = all_paths(st, lambda S: budget(S) or gate(S, who))
            rep.ob(pid + '.R3', fn, 'ret[%s]:%s-fraction-consulted' % (shape(v), who), ok,
                   'budget edge or %s fraction gate on every path' % who + ('' if ok else '; witness path: ' + show_facts(w)))
    rep.count_floor(pid + '.R3', 'returns of below_limit_padding', n_ret, 2)
    # R4: the comparisons present in the function
    sw = switch_conditions(fa)
    found = {'budget': False, 'm_set': False, 'g_set': False, 'm_ratio': False, 'g_ratio': False}
    for (b, e) in sw:
        e = strip_sites(e)
        if e[0] != 'bin':
            continue
        op, l, r = e[1], e[2], e[3]
        if (op == 'Lt' and is_field(l, 'padding_sent', 'MachineRuntime') and is_field(r, 'allowed_padding_packets')) or \
           (op == 'Gt' and is_field(r, 'padding_sent', 'MachineRuntime') and is_field(l, 'allowed_padding_packets')):
            found['budget'] = True
        for who, key in (('machine', 'm'), ('global', 'g')):
            if (op == 'Gt' and frac_is(l, who) and is_const(r, 0.0)) or (op == 'Lt' and frac_is(r, who) and is_const(l, 0.0)):
                found[key + '_set'] = True
            if (op == 'Ge' and padding_ratio_ok(l, who) and frac_is(r, who)) or (op == 'Le' and padding_ratio_ok(r, who) and frac_is(l, who)):
                found[key + '_ratio'] = True
        # any other comparison involving these operands with a different operator is a violation
        involved = [x for x in (l, r) if is_field(x, 'allowed_padding_packets') or frac_is(x, 'machine') or frac_is(x, 'global')]
        if involved:
            okop = False
            if any(is_field(x, 'allowed_padding_packets') for x in (l, r)):
                okop = (op == 'Lt' and is_field(r, 'allowed_padding_packets')) or (op == 'Gt' and is_field(l, 'allowed_padding_packets'))
                okop = okop and (is_field(l, 'padding_sent', 'MachineRuntime') or is_field(r, 'padding_sent', 'MachineRuntime'))
            else:
                for who in ('machine', 'global'):
                    if frac_is(l, who) or frac_is(r, who):
                        other = r if frac_is(l, who) else l
                        if num(other) is not None:
                            okop = (op == 'Gt' and frac_is(l, who) and is_const(r, 0.0)) or (op == 'Lt' and frac_is(r, who) and is_const(l, 0.0))
                        else:
                            okop = (op == 'Ge' and padding_ratio_ok(l, who) and frac_is(r, who)) or \
                                   (op == 'Le' and padding_ratio_ok(r, who) and frac_is(l, who)) or \
                                   (op == 'Lt' and padding_ratio_ok(l, who) and frac_is(r, who)) or \
                                   (op == 'Gt' and padding_ratio_ok(r, who) and frac_is(l, who))
            rep.ob(pid + '.R4', fn, 'comparison:' + shape(e), okop, 'operator/operands of %s' % shape(e))
    for k2, v2 in found.items():
        rep.ob(pid + '.R4', fn, 'table-entry:' + k2, v2, 'comparison %s present' % k2)


def switch_conditions(fa):
    out = []
    for b in sorted(fa.cfg.reach):
        bb = fa.blocks[b]
        t = bb['t']
        if t['k'] == 'switch':
            out.append((b, fa.operand(t['d'], (b, len(bb['s'])))))
    return out


def check_accounting_padding(ctx, rep, pid):
    """R5: counters are incremented exactly once in the right arms of process_event; no other writer"""
    prog, an = ctx.prog, ctx.an
    F = fw_fns(prog)
    rep.rule(pid + '.R5', 'accounting: in process_event, padding_sent_packets is incremented exactly once on every path '
             'through the PaddingSent arm (including the unknown-id return), runtime[mi].padding_sent exactly once iff '
             'the id passed the bounds check, NormalSent increments the global counter once and every machine once; '
             'no other function writes the four counters')
    counters = [('padding_sent_packets', 'Framework'), ('normal_sent_packets', 'Framework'),
                ('padding_sent', 'MachineRuntime'), ('normal_sent', 'MachineRuntime')]
    for name, fn in F.items():
        fa = an.get(fn)
        for (fld, adt) in counters:
            for (pe, v, site) in field_stores(fa, fld, adt):
                if name == 'new':
                    continue
                rep.ob(pid + '.R5', fn, 'writer:' + fld, name == 'process_event', '%s written in %s' % (fld, name))
    # also aggregate constructions in new are the only initialisers: checked by inventory of writers above
    fn = F['process_event']
    fa = an.get(fn)
    # increments as "called" pseudo facts: use path counting over the CFG
    inc_blocks = {}
    for (fld, adt) in counters:
        for (pe, v, site) in field_stores(fa, fld, adt):
            vv = v
            ok_inc = vv[0] == 'bin' and vv[1] in ('Add', 'AddWithOverflow') and is_const(vv[3], 1) and is_field(vv[2], fld, adt)
            if not ok_inc:
                # value may come through the (x, overflow) tuple
                ok_inc = contains(vv, lambda x: isinstance(x, tuple) and x and x[0] == 'bin' and x[1] in ('Add', 'AddWithOverflow') and is_const(x[3], 1) and is_field(x[2], fld, adt))
            rep.ob(pid + '.R5', fn, 'increment-by-one:' + fld, ok_inc, 'stored value %s' % shape(v))
            inc_blocks.setdefault(fld, []).append(site[0])
    pf = an.paths(fn)
    counts = path_counts(fa, inc_blocks)
    # classify returns by the TriggerEvent variant on the path
    for r in fa.cfg.returns:
        for S in pf.at_entry(r):
            var = [f[2] for f in S if f[0] == 'variant' and 'TriggerEvent' in str(f)]
    # per-variant expectations evaluated on the arm sub-graphs
    arms = event_arms(prog, fa)
    for var, head in arms.items():
        region = fa.cfg.reachable_from(head)
        for (fld, adt) in counters:
            lo, hi = min_max_on_paths(fa, head, set(inc_blocks.get(fld, [])), region)
            if var == 'PaddingSent' and fld == 'padding_sent_packets':
                ok = (lo, hi) == (1, 1)
            elif var == 'PaddingSent' and fld == 'padding_sent':
                ok = (lo, hi) == (0, 1)
            elif var == 'NormalSent' and fld == 'normal_sent_packets':
                ok = (lo, hi) == (1, 1)
            elif var == 'NormalSent' and fld == 'normal_sent':
                ok = lo == 0 and hi == 'loop'
            else:
                ok = (lo, hi) == (0, 0)
            rep.ob(pid + '.R5', fn, 'arm:%s:%s' % (var, fld), ok, 'increments of %s on paths through the %s arm: min %s max %s' % (fld, var, lo, hi))
    # padding_sent increment iff bounds check passed: the store block is dominated by the false edge of mi >= len
    for (pe, v, site) in field_stores(fa, 'padding_sent', 'MachineRuntime'):
        st = pf.at(site[0], site[1])
        ok, w = all_paths(st, lambda S: cmp_int_true(S, 'lt', lambda l: True, lambda r: is_call(r, 'len')))
        rep.ob(pid + '.R5', fn, 'per-machine-padding-after-bounds-check', ok, 'store dominated by id < runtime.len()')
        # and the index is the event's machine id
        p = unload(pe)
        idx = base_of(p)
        okid = idx is not None and idx[0] == 'idx' and is_call(idx[2], 'into_raw')
        rep.ob(pid + '.R5', fn, 'per-machine-padding-indexed-by-event-id', okid, 'index %s' % (show(idx[2]) if idx and idx[0] == 'idx' else '?'))
    # the unknown-id early return happens after the global increment: min==1 covers it.
    # normal_sent per machine: inside a loop over 0..runtime.len(), once per iteration
    for (pe, v, site) in field_stores(fa, 'normal_sent', 'MachineRuntime'):
        loops = fa.cfg.loops()
        inloop = [h for h, body in loops.items() if site[0] in body]
        okl = False
        for h in inloop:
            body = loops[h]
            lo, hi = min_max_on_paths(fa, h, {site[0]}, body, stop_at_header=True)
            okl = (lo, hi) == (1, 1)
        rep.ob(pid + '.R5', fn, 'normal_sent-once-per-machine-iteration', okl, 'exactly one increment on every path around the machine loop')
        p = unload(pe)
        idx = base_of(p)
        okix = idx is not None and idx[0] == 'idx' and is_range_loop_var(fa, idx[2])
        rep.ob(pid + '.R5', fn, 'normal_sent-indexed-by-loop-variable', okix, 'index %s' % (show(idx[2]) if idx is not None and idx[0] == 'idx' else '?'))


def is_range_loop_var(fa, e):
    """e is the payload of Iterator::next on a Range (the `for mi in a..b` induction variable)"""
    e = unload(e)
    if e[0] == 'fld' and e[1][0] == 'var' and e[1][2] == 'Some':
        c = unload(e[1][1])
        return is_call(c, '::next')
    return False


def event_arms(prog, fa):
    """TriggerEvent variant -> head block of its arm in process_event (switch on discriminant of *e)"""
    names = {v['discr']: v['name'] for v in prog.adt('maybenot::event::TriggerEvent')['variants']}
    for b in sorted(fa.cfg.reach):
        bb = fa.blocks[b]
        t = bb['t']
        if t['k'] != 'switch':
            continue
        e = fa.operand(t['d'], (b, len(bb['s'])))
        if e[0] == 'discr' and 'TriggerEvent' in e[2]:
            arms = {}
            for (v, tgt) in t['ts']:
                if v in names:
                    arms[names[v]] = tgt
            missing = [n for n in names.values() if n not in arms]
            if len(missing) == 1:
                arms[missing[0]] = t['o']
            elif missing:
                raise AnchorMissing('process_event arms for %s' % missing)
            return arms
    raise AnchorMissing('process_event: switch on TriggerEvent discriminant')


def path_counts(fa, inc_blocks):
    return None


def min_max_on_paths(fa, head, marks, region, stop_at_header=False):
    """[min,max] number of marked blocks on paths from head to function return (or back to head when
    stop_at_header) staying inside region.  max is 'loop' when a marked block lies on a cycle."""
    cfg = fa.cfg
    # detect marked block on a cycle within region (excluding the header when stop_at_header)
    loops = cfg.loops()
    for h, body in loops.items():
        if stop_at_header and h == head:
            continue
        if h in region and (marks & body):
            on_cycle = True
            # min over paths
            lo = _min_paths(cfg, head, marks, region, stop_at_header)
            return lo, 'loop'
    lo = _min_paths(cfg, head, marks, region, stop_at_header)
    hi = _max_paths(cfg, head, marks, region, stop_at_header)
    return lo, hi


def _min_paths(cfg, head, marks, region, stop_at_header):
    import heapq
    dist = {head: 1 if head in marks else 0}
    pq = [(dist[head], head)]
    best = None
    while pq:
        d, x = heapq.heappop(pq)
        if d > dist.get(x, 1 << 30):
            continue
        succs = [(y, l) for (y, l) in cfg.succ[x] if y in region]
        if not cfg.succ[x]:
            best = d if best is None else min(best, d)
        for (y, l) in succs:
            if stop_at_header and y == head:
                best = d if best is None else min(best, d)
                continue
            nd = d + (1 if y in marks else 0)
            if nd < dist.get(y, 1 << 30):
                dist[y] = nd
                heapq.heappush(pq, (nd, y))
        if stop_at_header and not succs and cfg.succ[x]:
            pass
    return best if best is not None else 0


def _max_paths(cfg, head, marks, region, stop_at_header):
    # longest path in the DAG obtained by ignoring back edges
    memo = {}
    onstack = set()

    def go(x):
        if x in memo:
            return memo[x]
        if x in onstack:
            return None
        onstack.add(x)
        best = None
        if not cfg.succ[x]:
            best = 0
        for (y, l) in cfg.succ[x]:
            if y not in region:
                continue
            if stop_at_header and y == head:
                best = 0 if best is None else max(best, 0)
                continue
            if cfg.dominates(y, x):
                continue  # back edge
            r = go(y)
            if r is not None:
                best = r if best is None else max(best, r)
        onstack.discard(x)
        res = None if best is None else best + (1 if x in marks else 0)
        memo[x] = res
        return res
    r = go(head)
    return r if r is not None else 0


def check_C02(ctx, rep):
    pid = 'C02'
    rule_gating(ctx, rep, pid)
    rule_kind_table(ctx, rep, pid)
    check_padding(ctx, rep, pid)
    check_accounting_padding(ctx, rep, pid)
    rep.assumptions += ['every CFG path is treated as feasible', 'floating point ratio values are not decided',
                        'fractions are validated NaN-free (C12.R1)']
    return 'static path analysis of gating, completeness and strictness of the padding limit tests and of the counters they read'
