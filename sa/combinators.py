"""Normal form N2: Option/Result combinators with closure (or function item) arguments expanded into
matches, with the closure body spliced in.  `x.map(|a| f(a))` and `match x { Some(a) => Some(f(a)), None => None }`
then have the same shape.  Used only as a fallback normal form (see main.py): a check that fails on the
default normal form is repeated on this one, and passes if it passes there (both are the same program)."""
import copy

from .mirinline import WORKSPACE, splice, _plain

OPT = 'core::option::Option'
RES = 'core::result::Result'


class Builder:
    def __init__(self, prog, fn, ln):
        self.prog = prog
        self.fn = fn
        self.ln = ln

    def local(self, ty):
        self.fn.locals.append({'ty': ty})
        return len(self.fn.locals) - 1

    def block(self):
        self.fn.blocks.append({'s': [], 't': {'k': 'unreachable'}, 'ln': self.ln, 'exp': False, 'cleanup': False, 'syn': True})
        return len(self.fn.blocks) - 1

    def assign(self, b, place, rv):
        self.fn.blocks[b]['s'].append({'p': place, 'rv': rv, 'ln': self.ln, 'exp': False, 'syn': True})
        if not place['pr'] and (rv.get('k') == 'agg' or (rv.get('k') == 'use' and 'k' in rv.get('x', {}))):
            # the result of a dissolved combinator: its known variants / constants may be threaded like helper results
            self.fn.ret_locals = getattr(self.fn, 'ret_locals', set()) | {place['l']}

    def goto(self, b, t):
        self.fn.blocks[b]['t'] = {'k': 'goto', 't': t, 'syn': True}


def pl(l, pr=None):
    return {'l': l, 'pr': pr or []}


def use(op):
    return {'k': 'use', 'x': op}


def mv(l, pr=None):
    return {'m': pl(l, pr)}


def const_bool(v):
    return {'k': {'ty': 'bool', 'scalar': {'bits': '1' if v else '0', 'size': 1, 'val': 'true' if v else 'false'}}}


def agg(adt, variant, vi, ops):
    return {'k': 'agg', 'ak': 'adt', 'adt': adt, 'variant': variant, 'vi': vi, 'fields': [str(i) for i in range(len(ops))], 'ops': ops}


def payload(l, adt, variant, vi, ty, deref=False):
    pr = (['*'] if deref else []) + [{'dc': variant, 'vi': vi}, {'f': 0, 'n': '0', 'adt': adt, 'ty': ty}]
    return pl(l, pr)


def generic_args(ty):
    """top-level generic arguments of `path<..>`"""
    i = ty.find('<')
    if i < 0 or not ty.endswith('>'):
        return []
    s = ty[i + 1:-1]
    out, depth, cur = [], 0, ''
    for ch in s:
        if ch in '<([':
            depth += 1
        elif ch in '>)]':
            depth -= 1
        if ch == ',' and depth == 0:
            out.append(cur.strip())
            cur = ''
        else:
            cur += ch
    if cur.strip():
        out.append(cur.strip())
    return out


def closure_of(prog, fn, l):
    """(Fn of the closure) when local l holds a closure built in fn"""
    defs = []
    for bb in fn.blocks:
        if bb['cleanup']:
            continue
        for s in bb['s']:
            if 'p' in s and s['p']['l'] == l and not s['p']['pr']:
                defs.append(s['rv'])
        t = bb['t']
        if t['k'] == 'call' and t['d']['l'] == l:
            defs.append(None)
    if len(defs) == 1 and defs[0] is not None and defs[0]['k'] == 'agg' and defs[0].get('ak') == 'closure':
        return prog.fns.get(defs[0]['def']) or prog.absorbed.get(defs[0]['def'])
    return None


def emit_call(B, b, fop, args, ret_ty, cont, by_mut_ref=False):
    """in block b: r = f(args) -> cont; returns the result local.  f is a closure local or a function item constant;
    a closure body is spliced in"""
    fn, prog = B.fn, B.prog
    r = B.local(ret_ty)
    if 'k' in fop and 'fn' in fop['k']:
        fn.blocks[b]['t'] = {'k': 'call', 'f': fop['k']['fn'], 'a': args, 'd': pl(r), 't': cont, 'u': None, 'fexp': False, 'syn': True}
        return r
    cl = _plain(fop)
    if cl is None:
        return None
    cf = closure_of(prog, fn, cl)
    if cf is None or not cf.has_body:
        return None
    ety = cf.locals[1]['ty']
    if ety.startswith('&'):
        e = B.local(ety)
        B.assign(b, pl(e), {'k': 'ref', 'mut': ety.startswith('&mut'), 'p': pl(cl)})
        env = mv(e)
    else:
        env = mv(cl)
    rec = {'decl': cf.key, 'declstr': cf.path, 'key': cf.key, 'str': cf.path, 'args': [], 'resolved': True, 'kind': 'item',
           'crate': cf.crate, 'has_mir': True, 'unsafe': False}
    fn.blocks[b]['t'] = {'k': 'call', 'f': rec, 'a': [env] + args, 'd': pl(r), 't': cont, 'u': None, 'fexp': False, 'syn': True}
    if not hasattr(fn, 'inlined'):
        fn.inlined = []
    fn.spliced_closure_locals = getattr(fn, 'spliced_closure_locals', set()) | {cl}
    if not ety.startswith('&'):
        # environment moved into the closure body's own parameter local: scalarised together with it
        fn.spliced_closure_locals.add(len(fn.locals) + 1)
    splice(fn, b, cf)
    return r


def closure_ret_ty(prog, fn, fop, default):
    if 'k' in fop and 'fn' in fop['k']:
        g = prog.fns.get(fop['k']['fn'].get('key'))
        return g.output if g is not None and g.output else default
    cl = _plain(fop)
    cf = closure_of(prog, fn, cl) if cl is not None else None
    return cf.locals[0]['ty'] if cf is not None and cf.has_body else default


ITER = 'core::iter::traits::iterator::Iterator::'
ITER_SEARCH = ('position', 'find', 'find_map', 'any', 'all', 'try_for_each', 'for_each')


def expand_iter_site(prog, fn, bi, meth):
    """`it.position(p)`, `find`, `find_map`, `any`, `all`, `try_for_each` with a closure: the loop they abbreviate"""
    t = fn.blocks[bi]['t']
    args = t['a']
    if len(args) != 2:
        return False
    it = _plain(args[0])
    fop = args[1]
    cl = _plain(fop)
    if it is None or cl is None:
        return False
    ity = fn.local_ty(it)
    by_value = not ity.startswith('&mut ')
    if by_value and meth != 'for_each':
        return False
    itty = ity if by_value else ity[5:]
    ity = '&mut ' + itty
    cf = closure_of(prog, fn, cl)
    if cf is None or not cf.has_body or len(cf.locals) < 3:
        return False
    item_ty = cf.locals[2]['ty']
    by_ref_item = meth == 'find'          # find's predicate takes &Item
    if by_ref_item:
        if not item_ty.startswith('&'):
            return False
        item_ty = item_ty[1:]
    rty = cf.locals[0]['ty']
    dest, cont = t['d'], t['t']
    B = Builder(prog, fn, fn.blocks[bi].get('ln'))
    opt_item = 'core::option::Option<%s>' % item_ty
    head = B.block()
    # counter for position
    ctr = None
    if meth == 'position':
        ctr = B.local('usize')
        B.assign(bi, pl(ctr), use({'k': {'ty': 'usize', 'scalar': {'bits': '0', 'size': 8, 'val': '0'}}}))
        # by construction ctr is the index of the element the iterator last yielded (rules use this: `slice[position(..)?]`
        # is the element the predicate accepted)
        fn.position_loops = getattr(fn, 'position_loops', []) + [{'ctr': ctr, 'iter': it, 'head': head}]
    fn.blocks[bi]['t'] = {'k': 'goto', 't': head, 'syn': True}
    # head: n = next(&mut *it)
    rb = B.local(ity)
    n = B.local(opt_item)
    B.assign(head, pl(rb), {'k': 'ref', 'mut': True, 'p': pl(it, [] if by_value else ['*'])})
    nb = B.block()
    rec = {'decl': ITER + 'next', 'declstr': ITER + 'next', 'args': [itty], 'trait': 'core::iter::traits::iterator::Iterator',
           'self_ty': itty, 'self_param': False, 'unsafe': False, 'kind': 'item', 'key': ITER + 'next',
           'str': '<%s as core::iter::traits::iterator::Iterator>::next' % itty, 'crate': 'core', 'has_mir': False, 'resolved': True}
    fn.blocks[head]['t'] = {'k': 'call', 'f': rec, 'a': [mv(rb)], 'd': pl(n), 't': nb, 'u': None, 'fexp': False, 'syn': True}
    d = B.local('isize')
    bnone, bsome, bun = B.block(), B.block(), B.block()
    B.assign(nb, pl(d), {'k': 'discr', 'p': pl(n), 'ty': opt_item})
    fn.blocks[nb]['t'] = {'k': 'switch', 'd': mv(d), 'dty': 'isize', 'ts': [['0', bnone], ['1', bsome]], 'o': bun, 'syn': True}
    # exhausted
    unit = {'k': {'ty': '()', 'zst': True}}
    if meth in ('position', 'find', 'find_map'):
        B.assign(bnone, copy.deepcopy(dest), agg(OPT, 'None', 0, []))
    elif meth == 'any':
        B.assign(bnone, copy.deepcopy(dest), use(const_bool(False)))
    elif meth == 'all':
        B.assign(bnone, copy.deepcopy(dest), use(const_bool(True)))
    elif meth == 'for_each':
        B.assign(bnone, copy.deepcopy(dest), use(unit))
    else:  # try_for_each over Result<(), E>
        if not rty.startswith(RES):
            return False
        B.assign(bnone, copy.deepcopy(dest), agg(RES, 'Ok', 0, [unit]))
    B.goto(bnone, cont)
    # an element
    x = B.local(item_ty)
    B.assign(bsome, pl(x), use({'m': payload(n, OPT, 'Some', 1, item_ty)}))
    if meth == 'position':
        fn.position_loops[-1].update({'elem': x, 'next_block': head, 'opt': n})
    carg = mv(x)
    if by_ref_item:
        xr = B.local('&' + item_ty)
        B.assign(bsome, pl(xr), {'k': 'ref', 'mut': False, 'p': pl(x)})
        carg = mv(xr)
    after = B.block()
    r = emit_call(B, bsome, fop, [carg], rty, after, by_mut_ref=True)
    if r is None:
        return False
    hit, miss = B.block(), B.block()
    if meth == 'for_each':
        B.goto(after, head)
        return True
    if meth in ('position', 'find', 'any', 'all'):
        fn.blocks[after]['t'] = {'k': 'switch', 'd': mv(r), 'dty': 'bool', 'ts': [['0', miss if meth != 'all' else hit]], 'o': hit if meth != 'all' else miss, 'syn': True}
        if meth == 'position':
            B.assign(hit, copy.deepcopy(dest), agg(OPT, 'Some', 1, [{'c': pl(ctr)}]))
            B.assign(miss, pl(ctr), {'k': 'bin', 'op': 'Add', 'l': {'c': pl(ctr)}, 'r': {'k': {'ty': 'usize', 'scalar': {'bits': '1', 'size': 8, 'val': '1'}}}, 'lty': 'usize'})
        elif meth == 'find':
            B.assign(hit, copy.deepcopy(dest), agg(OPT, 'Some', 1, [mv(x)]))
        elif meth == 'any':
            B.assign(hit, copy.deepcopy(dest), use(const_bool(True)))
        else:
            B.assign(hit, copy.deepcopy(dest), use(const_bool(False)))
    else:
        d2 = B.local('isize')
        B.assign(after, pl(d2), {'k': 'discr', 'p': pl(r), 'ty': rty})
        if meth == 'find_map':
            # Some(v) -> found
            fn.blocks[after]['t'] = {'k': 'switch', 'd': mv(d2), 'dty': 'isize', 'ts': [['0', miss], ['1', hit]], 'o': bun, 'syn': True}
            B.assign(hit, copy.deepcopy(dest), use(mv(r)))
        else:
            # try_for_each: Err(e) -> stop
            fn.blocks[after]['t'] = {'k': 'switch', 'd': mv(d2), 'dty': 'isize', 'ts': [['0', miss], ['1', hit]], 'o': bun, 'syn': True}
            ga = generic_args(rty)
            ety = ga[1] if len(ga) > 1 else '?'
            B.assign(hit, copy.deepcopy(dest), agg(RES, 'Err', 1, [{'m': payload(r, RES, 'Err', 1, ety)}]))
    B.goto(hit, cont)
    B.goto(miss, head)
    return True


def _single_def(fn, l):
    defs = []
    for bb in fn.blocks:
        if bb['cleanup']:
            continue
        for st in bb['s']:
            if 'p' in st and st['p']['l'] == l and not st['p']['pr']:
                defs.append(st['rv'])
        t = bb['t']
        if t['k'] == 'call' and t['d']['l'] == l:
            defs.append(None)
    return defs[0] if len(defs) == 1 else None


def expand_closure_call(prog, fn, bi):
    """`f(x)` where f is a local (or a parameter of an inlined generic helper) that holds a closure built in this function:
    `<F as Fn>::call(&f, (x,))` becomes the closure body"""
    t = fn.blocks[bi]['t']
    args = t['a']
    if len(args) != 2 or t['d']['pr'] or t['t'] is None:
        return False
    r = _plain(args[0])
    tup = _plain(args[1])
    if r is None or tup is None:
        return False
    # receiver: the closure local itself, or a chain of references / copies to it
    cl = r
    for _ in range(6):
        if closure_of(prog, fn, cl) is not None:
            break
        rv = _single_def(fn, cl)
        if rv is None:
            return False
        if rv['k'] == 'ref' and not rv['p']['pr']:
            cl = rv['p']['l']
        elif rv['k'] == 'ref' and rv['p']['pr'] == ['*']:
            cl = rv['p']['l']
        elif rv['k'] == 'use' and _plain(rv['x']) is not None:
            cl = _plain(rv['x'])
        else:
            return False
    cf = closure_of(prog, fn, cl)
    if cf is None or not cf.has_body:
        return False
    trv = _single_def(fn, tup)
    if trv is None or trv['k'] != 'agg' or trv.get('ak') != 'tuple':
        return False
    nargs = len(trv['ops'])
    if len(cf.locals) < 2 + nargs:
        return False
    call_args = [{'m': {'l': tup, 'pr': [{'f': i, 'n': str(i), 'adt': '', 'ty': cf.locals[2 + i]['ty']}]}} for i in range(nargs)]
    B = Builder(prog, fn, fn.blocks[bi].get('ln'))
    dest, cont = t['d'], t['t']
    after = B.block()
    saved = copy.deepcopy(fn.blocks[bi]['t'])
    res = emit_call(B, bi, {'m': {'l': cl, 'pr': []}}, call_args, cf.locals[0]['ty'], after)
    if res is None:
        fn.blocks[bi]['t'] = saved
        return False
    B.assign(after, copy.deepcopy(dest), use(mv(res)))
    B.goto(after, cont)
    return True


def expand_bool_then(prog, fn, bi, meth):
    """`cond.then_some(v)` / `cond.then(|| v)`"""
    t = fn.blocks[bi]['t']
    args = t['a']
    if len(args) != 2 or t['d']['pr'] or t['t'] is None:
        return False
    dest, cont = t['d'], t['t']
    B = Builder(prog, fn, fn.blocks[bi].get('ln'))
    bt, bf = B.block(), B.block()
    saved = fn.blocks[bi]['t']
    fn.blocks[bi]['t'] = {'k': 'switch', 'd': args[0], 'dty': 'bool', 'ts': [['0', bf]], 'o': bt, 'syn': True}
    B.assign(bf, copy.deepcopy(dest), agg(OPT, 'None', 0, []))
    B.goto(bf, cont)
    if meth == 'then_some':
        B.assign(bt, copy.deepcopy(dest), agg(OPT, 'Some', 1, [args[1]]))
        B.goto(bt, cont)
        return True
    b2 = B.block()
    rty = closure_ret_ty(prog, fn, args[1], '?')
    r = emit_call(B, bt, args[1], [], rty, b2)
    if r is None:
        fn.blocks[bi]['t'] = saved
        return False
    B.assign(b2, copy.deepcopy(dest), agg(OPT, 'Some', 1, [mv(r)]))
    B.goto(b2, cont)
    return True


def expand_site(prog, fn, bi):
    """expand the combinator call terminating block bi; returns True when rewritten"""
    t = fn.blocks[bi]['t']
    f = t['f']
    if 'decl' not in f or t['t'] is None or t['d']['pr']:
        return False
    decl = f.get('declstr', '')
    if decl.startswith(ITER) and decl[len(ITER):] in ITER_SEARCH:
        nl, nb_ = len(fn.locals), len(fn.blocks)
        saved = copy.deepcopy(fn.blocks[bi])
        if expand_iter_site(prog, fn, bi, decl[len(ITER):]):
            return True
        fn.blocks[bi] = saved
        del fn.locals[nl:]
        del fn.blocks[nb_:]
        return False
    if decl.endswith('ops::function::Fn::call') or decl.endswith('ops::function::FnMut::call_mut') or decl.endswith('ops::function::FnOnce::call_once'):
        return expand_closure_call(prog, fn, bi)
    sname = f.get('str') or ''
    if sname in ('core::bool::<impl bool>::then_some', 'core::bool::<impl bool>::then'):
        return expand_bool_then(prog, fn, bi, sname.split('::')[-1])
    name = f.get('str') or f.get('declstr', '')
    comb = None
    for adt, pre in ((OPT, 'core::option::Option::<T>::'), (RES, 'core::result::Result::<T, E>::')):
        if name.startswith(pre):
            comb = (adt, name[len(pre):])
    if comb is None:
        return False
    adt, meth = comb
    args = t['a']
    if not args:
        return False
    x = _plain(args[0])
    if x is None:
        return False
    xty = fn.local_ty(x)
    byref = xty.startswith('&')
    base_ty = xty.lstrip('&').replace('mut ', '', 1) if byref else xty
    ga = generic_args(base_ty)
    if not base_ty.startswith(adt) or not ga:
        return False
    dest, cont = t['d'], t['t']
    dty = fn.local_ty(dest['l'])
    B = Builder(prog, fn, fn.blocks[bi].get('ln'))
    first, second = (('None', 0), ('Some', 1)) if adt == OPT else (('Ok', 0), ('Err', 1))
    pty0 = ga[0]
    pty1 = ga[1] if len(ga) > 1 else ''

    def start():
        """discriminant switch: returns (block of variant 0, block of variant 1)"""
        d = B.local('isize')
        b0, b1 = B.block(), B.block()
        B.assign(bi, pl(d), {'k': 'discr', 'p': pl(x, ['*'] if byref else []), 'ty': base_ty})
        fn.blocks[bi]['t'] = {'k': 'switch', 'd': mv(d), 'dty': 'isize', 'ts': [['0', b0], ['1', b1]], 'o': b1, 'syn': True}
        # `o` must be a real block: an unreachable one
        u = B.block()
        fn.blocks[bi]['t']['o'] = u
        return b0, b1

    def finish(b, rv):
        B.assign(b, copy.deepcopy(dest), rv)
        B.goto(b, cont)

    saved = copy.deepcopy(fn.blocks[bi]['t'])
    nlocals, nblocks = len(fn.locals), len(fn.blocks)

    def undo():
        fn.blocks[bi]['t'] = saved
        del fn.locals[nlocals:]
        del fn.blocks[nblocks:]
        return False

    some_p = lambda ty: payload(x, OPT, 'Some', 1, ty, byref)
    if adt == OPT and meth in ('is_some', 'is_none') and len(args) == 1:
        bn, bs = start()
        finish(bn, use(const_bool(meth == 'is_none')))
        finish(bs, use(const_bool(meth == 'is_some')))
        return True
    if byref:
        return False
    if adt == OPT and meth == 'unwrap_or' and len(args) == 2:
        bn, bs = start()
        finish(bn, use(args[1]))
        finish(bs, use({'m': some_p(pty0)}))
        return True
    if adt == OPT and meth in ('map', 'and_then', 'is_some_and', 'map_or', 'filter_NOT') and len(args) >= 2:
        fop = args[-1]
        rty = closure_ret_ty(prog, fn, fop, dty)
        bn, bs = start()
        p = B.local(pty0)
        B.assign(bs, pl(p), use({'m': some_p(pty0)}))
        b2 = B.block()
        r = emit_call(B, bs, fop, [mv(p)], rty, b2)
        if r is None:
            return undo()
        if meth == 'map':
            finish(bn, agg(OPT, 'None', 0, []))
            finish(b2, agg(OPT, 'Some', 1, [mv(r)]))
        elif meth == 'and_then':
            finish(bn, agg(OPT, 'None', 0, []))
            finish(b2, use(mv(r)))
        elif meth == 'is_some_and':
            finish(bn, use(const_bool(False)))
            finish(b2, use(mv(r)))
        else:  # map_or(default, f)
            finish(bn, use(args[1]))
            finish(b2, use(mv(r)))
        return True
    if adt == OPT and meth == 'filter' and len(args) == 2:
        # opt.filter(pred) = match opt { Some(x) if pred(&x) => Some(x), _ => None }
        fop = args[1]
        bn, bs = start()
        p = B.local(pty0)
        B.assign(bs, pl(p), use({'m': some_p(pty0)}))
        pr = B.local('&' + pty0)
        B.assign(bs, pl(pr), {'k': 'ref', 'mut': False, 'p': pl(p)})
        b2 = B.block()
        r = emit_call(B, bs, fop, [mv(pr)], 'bool', b2)
        if r is None:
            return undo()
        bt, bf = B.block(), B.block()
        fn.blocks[b2]['t'] = {'k': 'switch', 'd': mv(r), 'dty': 'bool', 'ts': [['0', bf]], 'o': bt, 'syn': True}
        finish(bn, agg(OPT, 'None', 0, []))
        finish(bf, agg(OPT, 'None', 0, []))
        finish(bt, agg(OPT, 'Some', 1, [mv(p)]))
        return True
    if adt == OPT and meth in ('unwrap_or_else', 'or_else', 'ok_or_else') and len(args) == 2:
        fop = args[1]
        rty = closure_ret_ty(prog, fn, fop, dty)
        bn, bs = start()
        b2 = B.block()
        r = emit_call(B, bn, fop, [], rty, b2)
        if r is None:
            return undo()
        if meth == 'unwrap_or_else':
            finish(b2, use(mv(r)))
            finish(bs, use({'m': some_p(pty0)}))
        elif meth == 'or_else':
            finish(b2, use(mv(r)))
            finish(bs, agg(OPT, 'Some', 1, [{'m': some_p(pty0)}]))
        else:
            finish(b2, agg(RES, 'Err', 1, [mv(r)]))
            finish(bs, agg(RES, 'Ok', 0, [{'m': some_p(pty0)}]))
        return True
    if adt == RES and meth in ('map', 'map_err', 'and_then', 'or_else', 'unwrap_or_else') and len(args) == 2:
        fop = args[1]
        rty = closure_ret_ty(prog, fn, fop, dty)
        bok, berr = start()
        okp = payload(x, RES, 'Ok', 0, pty0)
        errp = payload(x, RES, 'Err', 1, pty1)
        on_ok = meth in ('map', 'and_then')
        bcall, bother = (bok, berr) if on_ok else (berr, bok)
        p = B.local(pty0 if on_ok else pty1)
        B.assign(bcall, pl(p), use({'m': okp if on_ok else errp}))
        b2 = B.block()
        r = emit_call(B, bcall, fop, [mv(p)], rty, b2)
        if r is None:
            return undo()
        if meth == 'map':
            finish(b2, agg(RES, 'Ok', 0, [mv(r)]))
            finish(bother, agg(RES, 'Err', 1, [{'m': errp}]))
        elif meth == 'map_err':
            finish(b2, agg(RES, 'Err', 1, [mv(r)]))
            finish(bother, agg(RES, 'Ok', 0, [{'m': okp}]))
        elif meth == 'and_then':
            finish(b2, use(mv(r)))
            finish(bother, agg(RES, 'Err', 1, [{'m': errp}]))
        elif meth == 'or_else':
            finish(b2, use(mv(r)))
            finish(bother, agg(RES, 'Ok', 0, [{'m': okp}]))
        else:
            finish(b2, use(mv(r)))
            finish(bother, use({'m': okp}))
        return True
    return False


def expand_program(prog):
    n = 0
    for f in list(prog.fns.values()):
        if not f.has_body or f.crate not in WORKSPACE or f.derived:
            continue
        i = 0
        cnt = 0
        while i < len(f.blocks) and len(f.blocks) < 6000:
            bb = f.blocks[i]
            if not bb['cleanup'] and bb['t']['k'] == 'call' and 'decl' in bb['t']['f']:
                try:
                    if expand_site(prog, f, i):
                        cnt += 1
                except (KeyError, IndexError, TypeError):
                    pass
            i += 1
        if cnt:
            n += cnt
            f._cache.clear()
            prog.expanded = getattr(prog, 'expanded', {})
            prog.expanded[f.key] = cnt
    return n
