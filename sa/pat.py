"""Pattern helpers over origin expressions and path facts."""
from .core import path_fields, split_path, strip_sites, walk, show


def num(e):
    """numeric value of a constant expression or None"""
    if not isinstance(e, tuple) or not e:
        return None
    if e[0] == 'const':
        v = e[2]
    elif e[0] == 'cdef':
        v = e[3]
    else:
        return None
    if v is None:
        return None
    try:
        if v in ('true', 'false'):
            return 1 if v == 'true' else 0
        return float(v) if ('.' in v or 'e' in v or 'inf' in v or 'NaN' in v) else int(v)
    except Exception:
        return None


def is_const(e, val):
    n = num(e)
    return n is not None and n == val


def unload(e):
    """strip ('load', p[, site]) / ('pick', e) wrappers"""
    while isinstance(e, tuple) and e and e[0] in ('load', 'pick'):
        e = e[1]
    return e


def last_field(e):
    """(adt, field) of the last field projection of a place / load expression, else None.
    For a phi: the common last field of all alternatives."""
    e = unload(e)
    if isinstance(e, tuple) and e and e[0] == 'phi':
        rs = {last_field(a) for a in e[1]}
        if len(rs) == 1:
            return rs.pop()
        return None
    while isinstance(e, tuple) and e and e[0] in ('view',):
        e = e[1]
    if isinstance(e, tuple) and e and e[0] == 'fld':
        return (e[2], e[3])
    return None


def is_field(e, field, adt_suffix=None):
    lf = last_field(e)
    if lf is None:
        return False
    return lf[1] == field and (adt_suffix is None or lf[0].endswith(adt_suffix))


def base_of(e):
    """place expression below the last field projection"""
    e = unload(e)
    if isinstance(e, tuple) and e and e[0] == 'fld':
        return e[1]
    return None


def field_chain(e):
    """names of all field projections from root to leaf"""
    e = unload(e)
    return [f[1] for f in path_fields(e)]


def root_of(e):
    e = unload(e)
    r, _ = split_path(e)
    return r


def strip_casts(e):
    while isinstance(e, tuple) and e and e[0] == 'cast':
        e = e[3]
    return e


def is_call(e, suffix):
    return isinstance(e, tuple) and e and e[0] == 'call' and (e[1].endswith(suffix) or (len(e) > 4 and e[4].endswith(suffix)))


def call_args(e):
    return e[2]


def find_calls(e, suffix):
    return [x for x in walk(e) if is_call(x, suffix)]


def contains(e, pred):
    return any(pred(x) for x in walk(e))


# ---- facts

def facts_where(S, pred):
    return [f for f in S if pred(f)]


def has_cmp(S, op, lpred, rpred, pol):
    """a comparison fact op(L,R) with given polarity; op in lt/le/eq/ne"""
    for f in S:
        if f[0] == 'cmp' and f[1] == op and f[5] == pol and lpred(f[2]) and rpred(f[3]):
            return True
        if f[0] == 'cmp' and op in ('eq', 'ne') and f[1] == op and f[5] == pol and lpred(f[3]) and rpred(f[2]):
            return True
    return False


def cmp_int_true(S, op, lpred, rpred):
    """integer comparison known true on the path, using integer negation
    (!(a<b) == b<=a).  op in lt/le/eq/ne."""
    if has_cmp(S, op, lpred, rpred, True):
        return True
    if op == 'lt' and has_cmp(S, 'le', rpred, lpred, False):
        return True
    if op == 'le' and has_cmp(S, 'lt', rpred, lpred, False):
        return True
    if op == 'eq' and has_cmp(S, 'ne', lpred, rpred, False):
        return True
    if op == 'ne' and has_cmp(S, 'eq', lpred, rpred, False):
        return True
    return False


def all_paths(states, pred):
    """obligation over path fact sets: pred must hold for each; returns (ok, witness)"""
    for S in states:
        if not pred(S):
            return False, S
    return True, None


def show_facts(S, limit=12):
    from .dbg import showfact
    xs = sorted(showfact(f) for f in S if not str(f[0]).startswith('~'))
    return '; '.join(xs[:limit]) + (' ...' if len(xs) > limit else '')


def in_field(pe, field, adt_suffix=None):
    """the innermost named field of place expression pe is `field` (elements of a vector field count)"""
    fs = path_fields(unload(pe))
    if not fs:
        return False
    a, n = fs[-1]
    return n == field and (adt_suffix is None or a.endswith(adt_suffix))


def checked_access_fact(S, idx_pred, present):
    """`vec.get(i)` / `vec.get_mut(i)` with idx_pred(i) was found Some (present=True: i is in range) or None
    (present=False: out of range), directly or through `?`"""
    want = ('Some', 'Continue') if present else ('None', 'Break')
    for f in S:
        if f[0] == 'variant' and f[2] in want:
            for x in walk(f[1]):
                if isinstance(x, tuple) and x and x[0] == 'call' and (x[1].endswith('<impl [T]>::get') or x[1].endswith('<impl [T]>::get_mut')) \
                        and len(x[2]) == 2 and idx_pred(x[2][1]):
                    return True
    return False
