"""debug helper: python3 -m sa.dbg <facts dir> <crate> <Adt|-> <fn> [facts]"""
import sys, json
from .core import Program, show, callee_str
from .paths import Analyses

def P(p):
    s = '_%d' % p['l']
    for e in p['pr']:
        if e == '*': s = '(*%s)' % s
        elif e == '*raw': s = '(*raw %s)' % s
        elif 'f' in e: s = '%s.%s' % (s, e['n'])
        elif 'dc' in e: s = '(%s as %s)' % (s, e['dc'])
        elif 'ix' in e: s = '%s[_%d]' % (s, e['ix'])
        else: s = '%s{%s}' % (s, e)
    return s
def O(o):
    if 'c' in o: return P(o['c'])
    if 'm' in o: return 'move ' + P(o['m'])
    k = o['k']
    if 'fn' in k: return 'fn:' + callee_str(k['fn'])
    if 'scalar' in k: return 'const %s%s' % (k['scalar']['val'], (' /*%s*/' % k['defstr']) if 'defstr' in k else '')
    if 'promoted' in k: return 'promoted[%d]' % k['promoted']
    return 'const{%s}' % (k.get('text') or k.get('defstr') or k['ty'])
def R(r):
    k = r['k']
    if k == 'use': return O(r['x'])
    if k == 'ref': return ('&mut ' if r['mut'] else '&') + P(r['p'])
    if k == 'bin': return '%s(%s, %s)' % (r['op'], O(r['l']), O(r['r']))
    if k == 'un': return '%s(%s)' % (r['op'], O(r['x']))
    if k == 'cast': return '%s as %s [%s]' % (O(r['x']), r['ty'], r['ck'])
    if k == 'discr': return 'discriminant(%s)' % P(r['p'])
    if k == 'agg':
        if r['ak'] == 'adt': return '%s::%s{%s}' % (r['adt'], r['variant'], ', '.join('%s: %s' % (a, O(b)) for a, b in zip(r['fields'], r['ops'])))
        return '%s(%s)' % (r['ak'], ', '.join(O(x) for x in r['ops']))
    return str(r)
def dump(fn, pf=None, body=None):
    blocks = body['blocks'] if body else fn.blocks
    print('fn', fn.path, fn.span)
    if not body:
        print('  dbg:', ', '.join('%s=%s' % (d['name'], P(d['p'])) for d in fn.dbg))
    for i, bb in enumerate(blocks):
        if bb['cleanup']: continue
        print(' bb%d:' % i)
        if pf:
            for fs in pf.at_entry(i):
                print('      {' + '; '.join(sorted(showfact(f) for f in fs if not str(f[0]).startswith('~'))) + '}')
        for s in bb['s']:
            if 'p' in s: print('    %s = %s   // L%d%s' % (P(s['p']), R(s['rv']), s['ln'], ' exp' if s['exp'] else ''))
        t = bb['t']; k = t['k']
        if k == 'call':
            f = t['f']
            print('    %s = %s(%s) -> bb%s   // L%d %s' % (P(t['d']), callee_str(f), ', '.join(O(a) for a in t['a']), t['t'], bb['ln'], '' if f.get('resolved') else 'UNRESOLVED'))
        elif k == 'switch': print('    switch(%s) %s else bb%d' % (O(t['d']), t['ts'], t['o']))
        elif k == 'assert': print('    assert(%s == %s, %s) -> bb%d' % (O(t['c']), t['e'], t['mk'], t['t']))
        elif k in ('goto', 'drop'): print('    %s -> bb%d' % (k, t['t']))
        else: print('    ' + k)
def showfact(f):
    if f[0] == 'cmp': return '%s%s(%s, %s)' % ('' if f[5] else '!', f[1], show(f[2]), show(f[3]))
    if f[0] == 'bcall': return '%s%s(%s)' % ('' if f[3] else '!', f[1].split('::')[-1], ', '.join(show(a) for a in f[2]))
    if f[0] == 'btrue': return '%s%s' % ('' if f[2] else '!', show(f[1]))
    if f[0] == 'variant': return '%s is %s' % (show(f[1]), f[2])
    if f[0] == 'notvariant': return '%s not in %s' % (show(f[1]), f[2])
    if f[0] in ('eqc', 'nec'): return '%s %s %s' % (show(f[1]), '==' if f[0] == 'eqc' else 'notin', f[2])
    if f[0] == 'called': return 'called %s@bb%d' % (f[1].split('::')[-1], f[3])
    return str(f)
if __name__ == '__main__':
    prog = Program(sys.argv[1], level=int(__import__("os").environ.get("VERIF_LEVEL","1")))
    adt = None if sys.argv[3] == '-' else sys.argv[3]
    tr = sys.argv[6] if len(sys.argv) > 6 else None
    fn = prog.fn(sys.argv[2], adt, sys.argv[4], tr)
    an = Analyses(prog)
    pf = an.paths(fn) if len(sys.argv) > 5 and sys.argv[5] == 'facts' else None
    dump(fn, pf)
