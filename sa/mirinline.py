"""MIR-level inlining of functions the rules do not know (refactor tolerance, E9).

The rules are anchored on the functions of the pinned tree (sa/known_fns.json, one line per function:
crate, impl ADT, trait, name).  A workspace function that is NOT in that table was introduced by a change
(`extract helper`, `extract method`, a new constructor, ...).  Its body is spliced into every resolved call
site before any analysis runs, so that the rules keep seeing the statements where the pinned tree has them
-- and so that a defect hidden in a new helper is seen as well.  On the pinned tree nothing is inlined.

A helper all of whose workspace call sites were inlined and that is not public API is removed from the
program (`prog.absorbed`), so inventories do not count its statements twice.
"""
import copy
import json
import os

WORKSPACE = ('maybenot', 'maybenot_ffi', 'maybenot_simulator')
MAX_DEPTH = 4
MAX_BLOCKS = 4000

_KNOWN = None
_SIGS = None


def ident(f):
    a = (f.impl_adt or '').split('::')[-1]
    if not a and f.impl_self:
        a = f.impl_self
    t = (f.impl_trait or '').split('::')[-1]
    return (f.crate, a, t, f.name)


_CALLS = None


def _load():
    global _KNOWN, _SIGS
    if _KNOWN is None:
        p = os.path.join(os.path.dirname(__file__), 'known_fns.json')
        rows = json.load(open(p))
        rows = [r if isinstance(r, dict) else {'id': r, 'private': False, 'inputs': [], 'output': ''} for r in rows]
        _KNOWN = {tuple(r['id']) for r in rows}
        _SIGS = {tuple(r['id']): (r['private'], r['inputs'], r['output']) for r in rows}
        global _CALLS
        _CALLS = {tuple(r['id']): set(r.get('calls', [])) for r in rows}


def known():
    _load()
    return _KNOWN


def known_sigs():
    _load()
    return _SIGS


def known_calls():
    _load()
    return _CALLS


def known_adts():
    p = os.path.join(os.path.dirname(__file__), 'known_adts.json')
    return set(json.load(open(p))) if os.path.exists(p) else set()


def _remap(x, loff, poff):
    """deep copy of a JSON fragment with locals and promoted indexes shifted"""
    if isinstance(x, dict):
        if 'pr' in x and isinstance(x.get('l'), int):
            pr = []
            for e in x['pr']:
                if isinstance(e, dict) and 'ix' in e:
                    e = dict(e)
                    e['ix'] = e['ix'] + loff
                elif isinstance(e, dict):
                    e = dict(e)
                pr.append(e)
            return {'l': x['l'] + loff, 'pr': pr}
        d = {}
        for k, v in x.items():
            if k == 'promoted' and isinstance(v, int):
                d[k] = v + poff
            elif k == 'f' and isinstance(v, dict) and 'decl' in v:
                d[k] = v  # callee record: shared, immutable
            else:
                d[k] = _remap(v, loff, poff)
        return d
    if isinstance(x, list):
        return [_remap(v, loff, poff) for v in x]
    return x


def _remap_term(t, boff):
    k = t['k']
    if k == 'goto':
        t['t'] += boff
    elif k == 'switch':
        t['ts'] = [[v, b + boff] for v, b in t['ts']]
        t['o'] += boff
    elif k in ('call', 'drop', 'assert'):
        if t.get('t') is not None:
            t['t'] += boff
        if t.get('u') is not None:
            t['u'] += boff
    elif k == 'other':
        t['succ'] = [int(s) + boff for s in t.get('succ', [])]
    return t


def splice(caller, bi, callee):
    """inline `callee` at the call terminating block `bi` of `caller` (both Fn objects, in place)"""
    blocks = caller.blocks
    call = blocks[bi]['t']
    loff = len(caller.locals)
    poff = len(caller.promoted)
    boff = len(blocks)
    caller.locals.extend(copy.deepcopy(callee.locals))
    caller.promoted.extend(callee.promoted)
    for v in callee.dbg:
        caller.dbg.append({'name': v['name'], 'p': _remap(v['p'], loff, 0), 'inl': callee.key})
    ln = blocks[bi].get('ln')
    # arguments
    for i, a in enumerate(call['a']):
        blocks[bi]['s'].append({'p': {'l': loff + 1 + i, 'pr': []}, 'rv': {'k': 'use', 'x': a}, 'ln': ln, 'exp': False, 'inl': 'arg'})
    dest, target = call['d'], call['t']
    blocks[bi]['t'] = {'k': 'goto', 't': boff, 'inl': callee.key}
    for cb in callee.blocks:
        nb = _remap(cb, loff, poff)
        t = _remap_term(nb['t'], boff)
        if t['k'] == 'return':
            if target is None:
                nb['t'] = {'k': 'unreachable'}
            else:
                nb['s'].append({'p': copy.deepcopy(dest), 'rv': {'k': 'use', 'x': {'m': {'l': loff, 'pr': []}}},
                                'ln': ln, 'exp': False, 'inl': 'ret'})
                nb['t'] = {'k': 'goto', 't': target, 'inl': 'ret'}
        blocks.append(nb)
    calls = caller.edges.setdefault('calls', [])
    seen = {json.dumps(c, sort_keys=True) for c in calls}
    for c in callee.edges.get('calls', []):
        s = json.dumps(c, sort_keys=True)
        if s not in seen:
            seen.add(s)
            calls.append(c)
    caller.inlined.append(callee.key)
    caller.inline_sites = getattr(caller, 'inline_sites', []) + [{'callee': callee.key, 'name': callee.name, 'call_block': bi, 'cont': target,
                                                                 'dest': copy.deepcopy(dest), 'ret_local': loff}]
    caller.inl_from = min(getattr(caller, 'inl_from', loff), loff)
    caller.ret_locals = getattr(caller, 'ret_locals', set()) | {loff} | {loff + r for r in getattr(callee, 'ret_locals', ())}
    for k in getattr(callee, 'inlined', []):
        if k not in caller.inlined:
            caller.inlined.append(k)


def _split_all(prog):
    for f in prog.fns.values():
        if f.has_body and f.crate in WORKSPACE and f.dk in ('Fn', 'AssocFn') and not f.derived:
            n = split_param_diamonds(f)
            if n:
                prog.split[f.key] = n
                f._cache.clear()


def inline_program(prog, level=1, force=()):
    kn = known()
    cand = {}
    for f in prog.fns.values():
        f.inlined = []
        if f.crate in WORKSPACE and f.has_body and f.dk in ('Fn', 'AssocFn') and not f.derived \
                and (ident(f) not in kn or (f.crate, ident(f)[1], f.name) in force) \
                and not f.no_mangle and f.abi in ('', 'Rust'):
            cand[f.key] = f
    prog.inlined_helpers = sorted(cand)
    prog.absorbed = {}
    prog.threaded = {}
    prog.split = {}
    if not cand and level < 2:
        _split_all(prog)
        return
    done = set()

    def expand(f, stack):
        """inline candidate calls inside f (recursively expanded first)"""
        if f.key in done:
            return
        stack = stack + (f.key,)
        i = 0
        while i < len(f.blocks) and len(f.blocks) < MAX_BLOCKS:
            t = f.blocks[i]['t']
            if t['k'] == 'call' and not f.blocks[i]['cleanup'] and 'decl' in t['f'] and t['f'].get('resolved'):
                k = t['f'].get('key')
                g = cand.get(k)
                if g is not None and k not in stack and len(stack) <= MAX_DEPTH:
                    expand(g, stack)
                    splice(f, i, g)
            i += 1
        done.add(f.key)

    for f in list(cand.values()):
        expand(f, ())
    for f in list(prog.fns.values()):
        if f.has_body and f.crate in WORKSPACE and f.key not in cand:
            expand(f, ())
            f._cache.clear()
    from .scalarise import normalise
    prog.known_adts = known_adts()
    prog.scalarised = {}

    def scalarise_all():
        # indirections and parameter objects introduced by the inlined code
        for f in prog.fns.values():
            if f.has_body and f.crate in WORKSPACE and f.inlined:
                nf, ns = normalise(f, prog)
                if nf or ns:
                    old = prog.scalarised.get(f.key, {'places_forwarded': 0, 'locals_split': 0})
                    prog.scalarised[f.key] = {'places_forwarded': old['places_forwarded'] + nf, 'locals_split': old['locals_split'] + len(ns)}
                    f._cache.clear()
    if level >= 2:
        from .combinators import expand_program
        # a spliced closure may call another closure through a captured reference: that call becomes expandable only
        # after the environment was scalarised
        for _round in range(3):
            if not expand_program(prog):
                break
            scalarise_all()
    scalarise_all()
    _split_all(prog)
    for f in prog.fns.values():
        if f.has_body and f.crate in WORKSPACE and f.inlined:
            n = thread_function(f, prog)
            if n:
                prog.threaded[f.key] = n
                f._cache.clear()
    # helpers with no remaining call site and no public visibility disappear
    refs = {}
    for f in prog.fns.values():
        if not f.has_body or f.crate not in WORKSPACE:
            continue
        r = set()
        for bb in f.blocks:
            t = bb['t']
            if t['k'] in ('call', 'tailcall') and 'decl' in t['f'] and t['f'].get('key') in cand:
                r.add(t['f']['key'])
        # function items used as values (passed to combinators) keep the helper alive
        txt = json.dumps([bb['s'] for bb in f.blocks] + [bb['t'].get('a', []) for bb in f.blocks])
        for k in cand:
            if ('"key": "%s"' % k) in txt:
                r.add(k)
        refs[f.key] = r
    absorbed = {k for k, g in cand.items() if g.vis != 'Public'}
    while True:
        alive = set()
        for fk, r in refs.items():
            if fk not in absorbed:
                alive |= r
        nxt = {k for k in absorbed if k not in alive}
        if nxt == absorbed:
            break
        absorbed = nxt
    for k in absorbed:
        prog.absorbed[k] = prog.fns.pop(k)


# ------------------------------------------------------------------ jump threading after inlining
#
# An inlined helper funnels all its `return`s through one block; the caller then tests the result
# (`helper(..)?`, `match helper(..)`, `if helper(..)`).  The original code had one continuation per case.
# For every definition site that assigns a KNOWN constant / enum variant to a local which is then only
# moved around until a switch tests it, the blocks between the definition and the switch are duplicated
# for that site and the switch of the copy is resolved.  Nothing but control flow is changed.

MAX_CHAIN = 40
MAX_NEW_BLOCKS = 800


def _plain(op):
    pl = op.get('m') or op.get('c')
    if pl is not None and not pl['pr']:
        return pl['l']
    return None


def _discr_value(adts, adt, variant, vi):
    a = adts.get(adt)
    if a:
        for v in a['variants']:
            if v['name'] == variant:
                return str(v['discr'])
    return str(vi)


def _fieldless(adts, adt):
    a = adts.get(adt)
    return bool(a) and all(not v['fields'] for v in a['variants'])


def _known_of_rvalue(rv, adts, fn):
    """('const', bits) / ('variant', adt, name, discr) for a constant or an enum-variant aggregate"""
    if rv['k'] == 'use' and 'k' in rv['x']:
        k = rv['x']['k']
        if 'scalar' in k and 'def' not in k:
            return ('const', k['scalar']['bits'])
        if 'promoted' in k:
            # promoted reference to a constant: `&Enum::Variant`
            try:
                body = fn.promoted[k['promoted']]
                aggs = [s2['rv'] for bb in body['blocks'] for s2 in bb['s'] if 'p' in s2 and s2['rv']['k'] == 'agg' and s2['rv'].get('ak') == 'adt']
                if len(aggs) == 1 and not aggs[0]['ops']:
                    a = aggs[0]
                    return ('refvariant', a['adt'], a['variant'], _discr_value(adts, a['adt'], a['variant'], a['vi']))
            except Exception:
                return None
        return None
    if rv['k'] == 'agg' and rv.get('ak') == 'adt':
        return ('variant', rv['adt'], rv['variant'], _discr_value(adts, rv['adt'], rv['variant'], rv['vi']))
    return None


class _Chain:
    """straight-line walk from a definition with known value; records the blocks to duplicate"""

    def __init__(self, fn, prog):
        self.fn = fn
        self.prog = prog
        self.blocks = fn.blocks
        self.adts = prog.adts

    def walk(self, cur, start, x, known):
        blocks = self.blocks
        val = {x: known}      # local -> known value (const / variant / refvariant / discr)
        steps = []            # (block, first stmt, successor override or None)
        resolved = 0
        seen = set()
        while len(steps) < MAX_CHAIN:
            if (cur, start) in seen or blocks[cur]['cleanup']:
                break
            bb = blocks[cur]
            v2 = dict(val)
            nxt = self.block_effect(bb, start, v2)
            if nxt is None:
                break
            kind, tgt = nxt
            seen.add((cur, start))
            steps.append((cur, start, tgt if kind == 'resolved' else None))
            if kind == 'resolved':
                resolved += 1
            val = v2
            cur, start = tgt, 0
            if not any(v[0] in ('const', 'variant', 'refvariant', 'discr') for v in val.values()):
                break
        # drop trailing steps after the last resolved switch: they duplicate code for nothing
        while steps and steps[-1][2] is None:
            steps.pop()
        if not resolved or not steps:
            return None
        last = steps[-1]
        return steps, last[2]

    def block_effect(self, bb, start, val):
        """apply the statements of bb[start:] to the knowledge `val`; returns ('goto', next) / ('resolved', target) / None"""
        fn = self.fn
        for s in bb['s'][start:]:
            if 'p' not in s:
                continue
            p = s['p']
            tgt = p['l'] if not p['pr'] else None
            rv = s['rv']
            if tgt is not None:
                src = _plain(rv['x']) if rv['k'] == 'use' else None
                if src is not None and src in val:
                    val[tgt] = val[src]
                    continue
                if rv['k'] == 'discr' and not rv['p']['pr'] and val.get(rv['p']['l'], ('',))[0] == 'variant':
                    val[tgt] = ('discr', val[rv['p']['l']][3])
                    continue
                if rv['k'] == 'discr' and rv['p']['pr'] == ['*'] and val.get(rv['p']['l'], ('',))[0] == 'refvariant':
                    val[tgt] = ('discr', val[rv['p']['l']][3])
                    continue
                if rv['k'] == 'ref' and not rv.get('mut') and not rv['p']['pr'] and val.get(rv['p']['l'], ('',))[0] == 'variant':
                    kv = val[rv['p']['l']]
                    val[tgt] = ('refvariant',) + kv[1:]
                    continue
                if rv['k'] == 'ref' and not rv.get('mut') and rv['p']['pr'] == ['*'] and val.get(rv['p']['l'], ('',))[0] == 'refvariant':
                    val[tgt] = val[rv['p']['l']]
                    continue
                if rv['k'] == 'bin' and rv['op'] in ('Eq', 'Ne'):
                    a, b = _plain(rv['l']), _plain(rv['r'])
                    if val.get(a, ('',))[0] == 'discr' and val.get(b, ('',))[0] == 'discr':
                        eq = val[a][1] == val[b][1]
                        val[tgt] = ('const', '1' if eq == (rv['op'] == 'Eq') else '0')
                        continue
                kn = _known_of_rvalue(rv, self.adts, fn)
                if kn is not None and (kn[0] != 'const' or fn.local_ty(tgt) == 'bool'):
                    val[tgt] = kn
                    continue
                val.pop(tgt, None)
            else:
                # store into a field of / through a tracked local
                if p['l'] in val and p['pr'][0] not in ('*', '*raw'):
                    del val[p['l']]
            if rv['k'] in ('ref', 'rawptr') and rv.get('mut') and rv['p']['l'] in val and not (rv['p']['pr'] and rv['p']['pr'][0] in ('*', '*raw')):
                del val[rv['p']['l']]
        t = bb['t']
        k_ = t['k']
        if k_ in ('goto', 'drop', 'assert'):
            return ('goto', t['t'])
        if k_ == 'call':
            if t['t'] is None:
                return None
            d = t['d']
            f = t['f']
            args = [_plain(a) for a in t['a']]
            res = None
            if 'decl' in f and not d['pr']:
                decl = f.get('declstr', '')
                a0 = val.get(args[0]) if args else None
                if decl.endswith('Try::branch') and a0 and a0[0] == 'variant' and a0[1].endswith('result::Result'):
                    ok = a0[2] == 'Ok'
                    res = ('variant', 'core::ops::control_flow::ControlFlow', 'Continue' if ok else 'Break', '0' if ok else '1')
                elif decl.endswith('Try::branch') and a0 and a0[0] == 'variant' and a0[1].endswith('option::Option'):
                    ok = a0[2] == 'Some'
                    res = ('variant', 'core::ops::control_flow::ControlFlow', 'Continue' if ok else 'Break', '0' if ok else '1')
                elif decl.endswith('FromResidual::from_residual'):
                    ty = self.fn.local_ty(d['l'])
                    if ty.startswith('core::result::Result<'):
                        res = ('variant', 'core::result::Result', 'Err', '1')
                    elif ty.startswith('core::option::Option<'):
                        res = ('variant', 'core::option::Option', 'None', '0')
                elif (decl.endswith('PartialEq::eq') or decl.endswith('PartialEq::ne')) and len(args) == 2:
                    a, b = val.get(args[0]), val.get(args[1])
                    g = self.prog.fns.get(f.get('key')) if f.get('resolved') else None
                    if a and b and a[0] == 'refvariant' and b[0] == 'refvariant' and a[1] == b[1] and _fieldless(self.adts, a[1]) \
                            and g is not None and g.derived:
                        eq = a[2] == b[2]
                        res = ('const', '1' if eq == decl.endswith('::eq') else '0')
                elif (f.get('str', '').endswith('Option::<T>::is_some') or f.get('str', '').endswith('Option::<T>::is_none')) and len(args) == 1:
                    a = val.get(args[0])
                    if a and a[0] == 'refvariant' and a[1].endswith('option::Option'):
                        some = a[2] == 'Some'
                        res = ('const', '1' if some == f['str'].endswith('is_some') else '0')
            # moved-in plain arguments are consumed; &mut of tracked locals was already dropped at the borrow
            if not d['pr']:
                if res is not None:
                    val[d['l']] = res
                else:
                    val.pop(d['l'], None)
            return ('goto', t['t'])
        if k_ == 'switch':
            l = _plain(t['d'])
            kv = val.get(l)
            if kv is None or kv[0] not in ('discr', 'const'):
                return None
            v_ = kv[1]
            for v, tg in t['ts']:
                if v == v_:
                    return ('resolved', tg)
            return ('resolved', t['o'])
        return None


def _preds(blocks):
    preds = {}
    for i, ob in enumerate(blocks):
        if ob['cleanup']:
            continue
        t = ob['t']
        succs = []
        if t['k'] == 'goto':
            succs = [t['t']]
        elif t['k'] == 'switch':
            succs = [tg for v, tg in t['ts']] + [t['o']]
        elif t['k'] in ('call', 'drop', 'assert'):
            succs = [t['t']] if t.get('t') is not None else []
        for y in succs:
            preds.setdefault(y, set()).add(i)
    return preds


def thread_function(fn, prog):
    """returns the number of definition sites threaded"""
    blocks = fn.blocks
    adts = prog.adts
    ch = _Chain(fn, prog)
    rets = getattr(fn, 'ret_locals', set())   # only results of inlined helpers are threaded: the tests of the
    # caller's own variables are part of the code the rules look at
    n = 0
    n0 = len(blocks)
    preds = _preds(blocks)
    b = 0
    while b < len(blocks) and len(blocks) < n0 + MAX_NEW_BLOCKS:
        bb = blocks[b]
        if bb['cleanup']:
            b += 1
            continue
        cands = []
        for k, s in enumerate(bb['s']):
            if 'p' in s and not s['p']['pr'] and s['p']['l'] in rets:
                kn = _known_of_rvalue(s['rv'], adts, fn)
                if kn is not None and kn[0] in ('variant',) or (kn is not None and kn[0] == 'const' and fn.local_ty(s['p']['l']) == 'bool'):
                    cands.append((k, s['p']['l'], kn))
        t = bb['t']
        if t['k'] == 'call' and t.get('t') is not None and 'decl' in t['f'] and not t['d']['pr'] and t['d']['l'] in rets \
                and t['f'].get('declstr', '').endswith('FromResidual::from_residual'):
            ty = fn.local_ty(t['d']['l'])
            if ty.startswith('core::result::Result<'):
                cands.append((None, t['d']['l'], ('variant', 'core::result::Result', 'Err', '1')))
            elif ty.startswith('core::option::Option<'):
                cands.append((None, t['d']['l'], ('variant', 'core::option::Option', 'None', '0')))
        done = False
        for (k, x, kn) in cands:
            if k is None:
                res = ch.walk(t['t'], 0, x, kn)
            else:
                res = ch.walk(b, k + 1, x, kn)
            if res is None:
                continue
            steps, target = res
            chain_blocks = [c for (c, st, ov) in steps if not (c == b and k is not None and st == k + 1)]
            if not chain_blocks:
                continue  # definition and switch in one block: P0 handles it
            if not any(len(preds.get(c, ())) > 1 for c in chain_blocks):
                # no join on the way (the other definitions were threaded away): decide the tests in place
                hit = False
                for (c, st, ov) in steps:
                    if ov is not None and blocks[c]['t']['k'] == 'switch':
                        blocks[c]['t'] = {'k': 'goto', 't': ov, 'thr': True}
                        hit = True
                if hit:
                    preds = _preds(blocks)
                    n += 1
                    done = True
                    break
                continue
            base = len(blocks)
            copies = []
            for (c, st, ov) in steps:
                ob = blocks[c]
                nb = {'s': copy.deepcopy(ob['s'][st:]), 't': copy.deepcopy(ob['t']), 'ln': ob.get('ln'), 'exp': ob.get('exp', False),
                      'cleanup': False, 'thr': True}
                copies.append((nb, ov))
            for j, (nb, ov) in enumerate(copies):
                nxt = base + j + 1 if j < len(copies) - 1 else None
                if ov is not None:
                    # resolved switch
                    nb['t'] = {'k': 'goto', 't': nxt if nxt is not None else ov, 'thr': True}
                else:
                    nb['t']['t'] = nxt
            if k is None:
                t['t'] = base
            else:
                bb['s'] = bb['s'][:k + 1]
                bb['t'] = {'k': 'goto', 't': base, 'thr': True}
            blocks.extend(nb for (nb, ov) in copies)
            preds = _preds(blocks)
            n += 1
            done = True
            break
        if not done:
            b += 1
    return n


# ------------------------------------------------------------------ side selection hoisting
#
# `let state = if is_client { client } else { server };  ... state.f ...` merges two parameters into one
# reference local.  The pinned tree writes such code twice, once per side, and the rules are stated per side.
# The code after the join is duplicated for the second definition, so that each copy sees one parameter.

MAX_REGION = 400


def _succs(t):
    k = t['k']
    if k == 'goto':
        return [t['t']]
    if k == 'switch':
        return [tg for v, tg in t['ts']] + [t['o']]
    if k in ('call', 'drop', 'assert'):
        return [t['t']] if t.get('t') is not None else []
    if k == 'other':
        return [int(x) for x in t.get('succ', [])]
    return []


def _set_succs(t, m):
    k = t['k']
    if k == 'goto':
        t['t'] = m.get(t['t'], t['t'])
    elif k == 'switch':
        t['ts'] = [[v, m.get(tg, tg)] for v, tg in t['ts']]
        t['o'] = m.get(t['o'], t['o'])
    elif k in ('call', 'drop', 'assert'):
        if t.get('t') is not None:
            t['t'] = m.get(t['t'], t['t'])
    elif k == 'other':
        t['succ'] = [m.get(int(x), int(x)) for x in t.get('succ', [])]


def _def_sites(fn):
    d = {}
    for b, bb in enumerate(fn.blocks):
        if bb['cleanup']:
            continue
        for k, s in enumerate(bb['s']):
            if 'p' in s and not s['p']['pr']:
                d.setdefault(s['p']['l'], []).append((b, k, s['rv']))
        t = bb['t']
        if t['k'] == 'call' and not t['d']['pr']:
            d.setdefault(t['d']['l'], []).append((b, None, None))
    return d


def _ref_target(fn, defs, l, depth=0):
    """(parameter, projection) of the place that reference local l points to, following whole reborrows; else None"""
    if 1 <= l <= fn.argc and l not in defs:
        return (l, '')
    ds = defs.get(l, [])
    if len(ds) != 1 or depth > 24 or ds[0][2] is None:
        return None
    return _rv_target(fn, defs, ds[0][2], depth + 1)


def _rv_target(fn, defs, rv, depth=0):
    if rv['k'] == 'use':
        src = _plain(rv['x'])
        return _ref_target(fn, defs, src, depth + 1) if src is not None else None
    if rv['k'] == 'ref' and rv['p']['pr'] and rv['p']['pr'][0] == '*':
        base = _ref_target(fn, defs, rv['p']['l'], depth + 1)
        if base is None:
            return None
        rest = rv['p']['pr'][1:]
        if any(isinstance(e, dict) and 'ix' in e for e in rest):
            return None
        return (base[0], base[1] + json.dumps(rest, sort_keys=True) if rest else base[1])
    return None


def split_param_diamonds(fn):
    """returns the number of regions duplicated"""
    n = 0
    for _round in range(4):
        defs = _def_sites(fn)
        blocks = fn.blocks
        done = False
        for l, ds in sorted(defs.items()):
            if len(ds) != 2 or not fn.local_ty(l).startswith('&') or any(d[2] is None for d in ds):
                continue
            roots = [_rv_target(fn, defs, rv) for (b, k, rv) in ds]
            if None in roots or roots[0] == roots[1]:
                continue
            if (roots[0][1] or roots[1][1]) and l < getattr(fn, 'inl_from', 1 << 30):
                continue  # references to two fields: only for the result of an inlined helper (`self.side(is_client)`)
            (b1, k1, _), (b2, k2, _) = ds
            # the two definition blocks fall through (goto) to a common join
            def fall(b):
                seen = 0
                while blocks[b]['t']['k'] == 'goto' and seen < 4:
                    yield blocks[b]['t']['t']
                    b = blocks[b]['t']['t']
                    seen += 1
            f1, f2 = list(fall(b1)), list(fall(b2))
            joins = [x for x in f1 if x in f2]
            if not joins or b1 == b2:
                continue
            j = joins[0]
            # last block of the second definition's own chain before the join
            chain2 = [b2] + f2[:f2.index(j)]
            pre2 = chain2[-1]
            if any(x in ([b1] + f1[:f1.index(j)]) for x in chain2):
                continue
            # region reachable from the join
            region = []
            seen = {j}
            st = [j]
            while st:
                x = st.pop()
                region.append(x)
                for y in _succs(blocks[x]['t']):
                    if y not in seen and not blocks[y]['cleanup']:
                        seen.add(y)
                        st.append(y)
            if len(region) > MAX_REGION or b1 in seen or b2 in seen:
                continue  # join inside a loop around the definitions, or too large
            base = len(blocks)
            m = {x: base + i for i, x in enumerate(region)}
            for x in region:
                nb = copy.deepcopy(blocks[x])
                nb['dup'] = True
                _set_succs(nb['t'], m)
                blocks.append(nb)
            _set_succs(blocks[pre2]['t'], {j: m[j]})
            n += 1
            done = True
            break
        if not done:
            break
    return n
