"""Framework rules: C01, C04, C05, C06, C08, C09, C10."""
from .core import AnchorMissing, strip_sites, walk, show, callee_str, callee_decl, decl_matches, callee_key, is_param_call
from .paths import stores, calls, field_stores
from .pat import (num, is_const, unload, last_field, is_field, strip_casts, is_call, has_cmp, cmp_int_true,
                  all_paths, show_facts, field_chain, root_of, contains, base_of, find_calls)
from .tables import aggregates, unwrap, src_field, src_base
from .rules_limits import (FW, fw_fns, ret_defs, is_false_const, is_true_const, shape, is_range_loop_var,
                           next_state_payload, count_between, min_max_on_paths, switch_conditions, event_arms)


def idx_of(pe):
    """index expression of an `x[i]` place (possibly below field projections)"""
    e = unload(pe)
    while isinstance(e, tuple) and e and e[0] in ('fld', 'var', 'view'):
        e = e[1]
    if isinstance(e, tuple) and e and e[0] == 'idx':
        return e[2], e[1]
    return None, None


# =================================================================== C04

def check_C04(ctx, rep):
    pid = 'C04'
    prog, an = ctx.prog, ctx.an
    F = fw_fns(prog)
    rep.rule('C04.R1', 'slot discipline: the action vector is written only by new (sized from the machines), trigger_events '
             '(fill(None) on every path before anything else and before every return; the returned iterator is '
             'actions.iter().filter_map(as_ref)), schedule_action and decrement_limit; every store into actions[i] uses the '
             'machine index parameter and every TriggerAction stored there carries machine = MachineId(that same index)')
    rep.rule('C04.R2', 'translation table in schedule_action, exhaustive over Action variants: same-named TriggerAction variant, '
             'bypass/replace/timer copied from the same-named field of the same state action, timeout = from_micros(sample_timeout(action)), '
             'duration = from_micros(sample_duration(action))')
    rep.rule('C04.R3', 'every non-constant return of Action::sample_timeout/sample_duration is f64::min(sample, C) rounded and cast with a '
             'saturating float-to-int cast, C a MAX_SAMPLED_* constant <= 86 400 000 000 microseconds')
    rep.rule('C04.R4', 'END is absorbing: current_state is written only in new and transition, every store in transition lies behind the '
             'false edge of current_state == STATE_END, and schedule_action is reachable only through that check')
    # ---- R1 writers
    writers = {}
    for name, fn in F.items():
        fa = an.get(fn)
        for (pe, v, site) in field_stores(fa, 'actions', 'Framework'):
            writers.setdefault(name, []).append((pe, v, site))
        for (b, f, args, t) in calls(fa):
            for a in args:
                if a[0] == 'ref' and is_field(a[1], 'actions', 'Framework'):
                    ty_mut = any(fa.fn.local_ty((x.get('m') or x.get('c'))['l']).startswith('&mut') for x in t['a'] if (x.get('m') or x.get('c')) and not (x.get('m') or x.get('c'))['pr'])
                    if ty_mut and not decl_matches(f, ('IndexMut::index_mut',)):
                        writers.setdefault(name, []).append((a[1], ('call', callee_str(f)), (b, 0)))
    allowed = {'new', 'trigger_events', 'schedule_action', 'decrement_limit'}
    for name in writers:
        rep.ob('C04.R1', F[name], 'writer:actions', name in allowed, 'actions written in %s' % name)
    # trigger_events: fill(None) dominates everything
    te = F['trigger_events']
    fa = an.get(te)
    fills = []
    for (b, f, args, t) in calls(fa):
        if callee_str(f).endswith('::fill') and args and contains(args[0], lambda x: isinstance(x, tuple) and x and x[0] == 'fld' and x[3] == 'actions'):
            fills.append((b, args))
    rep.count_exact('C04.R1', 'fill of the action vector in trigger_events', len(fills), 1)
    for (b, args) in fills:
        rep.ob('C04.R1', te, 'fill-value-None', args[1][0] == 'agg' and args[1][2] == 'None', 'fill(%s)' % show(args[1]))
        okdom = all(fa.cfg.dominates(b, r) for r in fa.cfg.returns)
        rep.ob('C04.R1', te, 'fill-dominates-every-return', okdom, 'reset of all slots precedes every return')
        # nothing that can schedule happens before: process_event / transition calls are dominated by the fill
        for (b2, f2, a2, t2) in calls(fa):
            if callee_str(f2).endswith('::process_event') or callee_str(f2).endswith('::transition'):
                rep.ob('C04.R1', te, 'fill-before:' + callee_str(f2).split('::')[-1], fa.cfg.dominates(b, b2) and b != b2, '')
    rets = ret_defs(fa)
    for (b, k, v) in rets:
        ok = is_call(v, 'filter_map') and is_call(v[2][0], '::iter') and contains(v[2][0], lambda x: isinstance(x, tuple) and x and x[0] == 'fld' and x[3] == 'actions')
        rep.ob('C04.R1', te, 'returns-iterator-over-slots', ok, 'returns %s' % shape(v))
        if ok:
            clo = v[2][1]
            okc = clo[0] == 'closure'
            if okc:
                cfn = prog.fns.get(clo[1])
                okc = cfn is not None
                if okc:
                    ca = an.get(cfn)
                    cr = ret_defs(ca)
                    okc = len(cr) == 1 and is_call(cr[0][2], 'as_ref') and cr[0][2][2][0] in (('param', 2), ('refv', ('param', 2)))
            rep.ob('C04.R1', te, 'filter-closure-is-as_ref', okc, 'closure maps each slot with Option::as_ref')
    rep.count_exact('C04.R1', 'return sites of trigger_events', len(rets), 1)
    # new: vector sized from machines
    nw = F['new']
    na = an.get(nw)
    aggs = aggregates(na, 'framework::Framework')
    rep.count_exact('C04.R1', 'Framework aggregates in new', len(aggs), 1)
    for (site, var, flds, ln) in aggs:
        v = flds.get('actions')
        ok = v is not None and is_call(v, 'from_elem') and v[2][0][0] == 'agg' and v[2][0][2] == 'None' and is_call(v[2][1], 'len') and 'machines' in str(v[2][1]) or \
            (v is not None and is_call(v, 'from_elem') and v[2][0][0] == 'agg' and v[2][0][2] == 'None' and is_call(v[2][1], 'len') and contains(v[2][1], lambda x: x in (('param', 1), ('local', 1))))
        rep.ob('C04.R1', nw, 'slots-sized-from-machines', bool(ok), 'actions initialised with %s' % shape(v))
    # schedule_action / decrement_limit stores
    for name in ('schedule_action', 'decrement_limit'):
        fn = F[name]
        fa2 = an.get(fn)
        for (pe, v, site) in field_stores(fa2, 'actions', 'Framework'):
            ix, base = idx_of(pe)
            rep.ob('C04.R1', fn, 'slot-index-is-own-machine', ix == ('param', 2), 'store to %s' % show(pe))
            if name == 'decrement_limit':
                rep.ob('C04.R1', fn, 'withdraws-only', v[0] == 'agg' and v[2] == 'None', 'value %s' % shape(v))
    sa = F['schedule_action']
    sfa = an.get(sa)
    ta = aggregates(sfa, 'action::TriggerAction')
    avariants = prog.adt('maybenot::action::Action')['variants']
    tvariants = {v['name']: v for v in prog.adt('maybenot::action::TriggerAction')['variants']}
    seen = {}
    for (site, var, flds, ln) in ta:
        seen.setdefault(var, []).append(flds)
        m = flds.get('machine')
        okm = m is not None and m[0] == 'agg' and m[1].endswith('MachineId') and dict(m[3]).get('0') == ('param', 2)
        rep.ob('C04.R1', sa, 'machine-id-is-slot-index:' + var, okm, 'machine = %s' % shape(m))
    # ---- R2 table
    for av in avariants:
        n = av['name']
        if n not in tvariants:
            rep.ob('C04.R2', sa, 'variant:' + n, False, 'no TriggerAction variant named %s' % n)
            continue
        insts = seen.get(n, [])
        rep.ob('C04.R2', sa, 'variant:' + n, len(insts) == 1, 'TriggerAction::%s constructed %d time(s)' % (n, len(insts)))
        for flds in insts:
            srcf = {f['name']: f for f in av['fields']}
            for tf in tvariants[n]['fields']:
                fname = tf['name']
                e = flds.get(fname)
                if fname == 'machine':
                    continue
                if fname in ('timeout', 'duration'):
                    want = 'sample_timeout' if fname == 'timeout' else 'sample_duration'
                    ok = is_call(e, 'from_micros') and is_call(e[2][0], '::' + want)
                    if ok:
                        act = unwrap(e[2][0][2][0])
                        act = unload(act)
                        # the action sampled is the state's action: (states[state].action as Some).0
                        ok = act[0] == 'fld' and act[1][0] == 'var' and act[1][2] == 'Some' and is_field(act[1][1], 'action', 'State')
                    rep.ob('C04.R2', sa, 'field:%s.%s' % (n, fname), ok, '%s = %s' % (fname, shape(e)))
                elif fname in srcf:
                    sf = src_field(e)
                    ok = sf is not None and sf[0].endswith('action::Action') and sf[1] == n and sf[2] == fname
                    if ok:
                        bs = unload(src_base(e))
                        ok = bs[0] == 'fld' and bs[1][0] == 'var' and bs[1][2] == 'Some' and is_field(bs[1][1], 'action', 'State')
                    rep.ob('C04.R2', sa, 'field:%s.%s' % (n, fname), ok, '%s = %s' % (fname, shape(e)))
                else:
                    rep.ob('C04.R2', sa, 'field:%s.%s' % (n, fname), False, 'no rule for destination field %s' % fname)
    # the action read is machines[mi].states[state] with state the third parameter
    for (b, f, args, t) in calls(sfa):
        pass
    acts = [v for (pe, v, site, mp) in stores(sfa) if is_field(v, 'action', 'State')]
    for v in acts:
        ix, base = idx_of(unload(v)[1] if unload(v)[0] == 'fld' else v)
        mix, mbase = idx_of(base) if base is not None else (None, None)
        ok = ix == ('param', 3) and mix == ('param', 2)
        rep.ob('C04.R2', sa, 'action-of-own-machine-and-state', ok, 'reads %s' % show(v))
    rep.count_floor('C04.R2', 'reads of the state action in schedule_action', len(acts), 1)
    # transition passes next_state as the state
    tr = F['transition']
    tfa = an.get(tr)
    for (b, f, args, t) in calls(tfa):
        if callee_str(f).endswith('::schedule_action'):
            rep.ob('C04.R2', tr, 'schedules-entered-state', args[1] == ('param', 2) and next_state_payload(args[2]), 'schedule_action(%s)' % ', '.join(show(a) for a in args[1:]))
    # ---- R3 clamps
    day = 86400000000.0
    for name, allowed_consts in (('sample_timeout', ('MAX_SAMPLED_TIMEOUT',)), ('sample_duration', ('MAX_SAMPLED_BLOCK_DURATION', 'MAX_SAMPLED_TIMER_DURATION'))):
        fn = prog.fn(FW, 'Action', name)
        fa3 = an.get(fn)
        n_nonconst = 0
        for (b, k, v) in ret_defs(fa3):
            if num(v) is not None:
                rep.ob('C04.R3', fn, 'const-return', num(v) <= day, 'returns constant %s' % shape(v))
                continue
            n_nonconst += 1
            ok = v[0] == 'cast' and v[1] == 'FloatToInt'
            inner = v[3] if ok else None
            if ok and is_call(inner, '::round'):
                inner = inner[2][0]
            okmin = False
            cname = None
            if ok and is_call(inner, '::min'):
                a0, a1 = inner[2][0], inner[2][1]
                for s_, c_ in ((a0, a1), (a1, a0)):
                    if is_call(s_, 'Dist::sample') and c_[0] == 'cdef' and num(c_) is not None and num(c_) <= day:
                        okmin = True
                        cname = c_[1].split('::')[-1]
            elif ok and is_call(inner, '::clamp'):
                a0, lo, hi = inner[2]
                if is_call(a0, 'Dist::sample') and num(hi) is not None and num(hi) <= day:
                    okmin = True
            rep.ob('C04.R3', fn, 'clamped-return:' + (cname or '?'), ok and okmin, 'returns %s' % shape(v))
        rep.count_floor('C04.R3', 'non-constant returns of %s' % name, n_nonconst, 1)
    for c in ('MAX_SAMPLED_TIMEOUT', 'MAX_SAMPLED_TIMER_DURATION', 'MAX_SAMPLED_BLOCK_DURATION'):
        val = float(prog.const_val('maybenot::constants::' + c))
        rep.ob('C04.R3', 'constants', c, val <= day, '%s = %s' % (c, val))
    # ---- R4
    for name, fn in F.items():
        fa4 = an.get(fn)
        for (pe, v, site) in field_stores(fa4, 'current_state', 'MachineRuntime'):
            rep.ob('C04.R4', fn, 'writer:current_state', name in ('new', 'transition'), 'current_state written in %s' % name)
    pfh = an.paths(tr, history=True)
    for (pe, v, site) in field_stores(tfa, 'current_state', 'MachineRuntime'):
        st = pfh.at(site[0], site[1])
        ok, w = all_paths(st, lambda S: has_cmp(S, 'eq', lambda l: is_field(l, 'current_state', 'MachineRuntime') and idx_of(l)[0] == ('param', 2),
                                               lambda r: r[0] == 'cdef' and r[1].endswith('STATE_END'), False) or
                          has_cmp(S, 'ne', lambda l: is_field(l, 'current_state', 'MachineRuntime') and idx_of(l)[0] == ('param', 2),
                                  lambda r: r[0] == 'cdef' and r[1].endswith('STATE_END'), True))
        rep.ob('C04.R4', tr, 'state-store-behind-END-check', ok, 'store of %s' % shape(v))
        ix, _ = idx_of(pe)
        rep.ob('C04.R4', tr, 'state-store-own-machine', ix == ('param', 2), show(pe))
    for (b, f, args, t) in calls(tfa):
        if callee_str(f).endswith('::schedule_action') or callee_str(f).endswith('::update_counter'):
            st = pfh.at_entry(b)
            ok, w = all_paths(st, lambda S: has_cmp(S, 'eq', lambda l: is_field(l, 'current_state', 'MachineRuntime'),
                                                   lambda r: r[0] == 'cdef' and r[1].endswith('STATE_END'), False))
            rep.ob('C04.R4', tr, 'no-%s-after-END' % callee_str(f).split('::')[-1], ok, '')
    # sample_state happens behind the END check as well (an ended machine does not even draw)
    rep.assumptions += ['f64::round and the float-to-int cast are not evaluated numerically (casts saturate by language definition)',
                        'Duration::from_micros of the caller\'s duration type is monotone']
    return 'who-may-write inventory of the action slots, translation table of schedule_action, clamp shape of the samplers, END absorbing guard'
