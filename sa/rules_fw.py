"""Framework rules: C01, C04, C05, C06, C08, C09, C10."""
from .core import AnchorMissing, strip_sites, walk, show, callee_str, callee_decl, decl_matches, callee_key, is_param_call
from .paths import mut_ref_args, stores, calls, field_stores
from .pat import (checked_access_fact, num, is_const, unload, last_field, is_field, strip_casts, is_call, has_cmp, cmp_int_true,
                  all_paths, show_facts, field_chain, root_of, contains, base_of, find_calls)
from .tables import aggregates, unwrap, src_field, src_base
from .inline import expand_calls
from .rules_limits import (FW, loop_iter_source, pair_components, uc_components, fw_fns, ret_defs, is_false_const, is_true_const, shape, is_range_loop_var,
                           next_state_payload, count_between, min_max_on_paths, switch_conditions, event_arms)


def idx_of(pe):
    """index expression of an `x[i]` place (possibly below field projections)"""
    e = unload(pe)
    while isinstance(e, tuple) and e and e[0] in ('fld', 'var', 'view'):
        e = e[1]
    if isinstance(e, tuple) and e and e[0] == 'idx':
        return e[2], e[1]
    return None, None


# =================================================================== C04

def check_C04(ctx, rep):
    pid = 'C04'
    prog, an = ctx.prog, ctx.an
    F = fw_fns(prog)
    rep.rule('C04.R1', 'slot discipline: the action vector is written only by new (sized from the machines), trigger_events '
             '(fill(None) on every path before anything else and before every return; the returned iterator is '
             'actions.iter().filter_map(as_ref)), schedule_action and decrement_limit; every store into actions[i] uses the '
             'machine index parameter and every TriggerAction stored there carries machine = MachineId(that same index)')
    rep.rule('C04.R2', 'translation table in schedule_action, exhaustive over Action variants: same-named TriggerAction variant, '
             'bypass/replace/timer copied from the same-named field of the same state action, timeout = from_micros(sample_timeout(action)), '
             'duration = from_micros(sample_duration(action))')
    rep.rule('C04.R3', 'every non-constant return of Action::sample_timeout/sample_duration is f64::min(sample, C) rounded and cast with a '
             'saturating float-to-int cast, C a MAX_SAMPLED_* constant <= 86 400 000 000 microseconds')
    rep.rule('C04.R4', 'END is absorbing: current_state is written only in new and transition, every store in transition lies behind the '
             'false edge of current_state == STATE_END, and schedule_action is reachable only through that check')
    # ---- R1 writers
    writers = {}
    for name, fn in F.items():
        fa = an.get(fn)
        for (pe, v, site) in field_stores(fa, 'actions', 'Framework'):
            writers.setdefault(name, []).append((pe, v, site))
        for (b, f, args, t) in calls(fa):
            for a in args:
                if a[0] == 'ref' and is_field(a[1], 'actions', 'Framework'):
                    ty_mut = any(fa.fn.local_ty((x.get('m') or x.get('c'))['l']).startswith('&mut') for x in t['a'] if (x.get('m') or x.get('c')) and not (x.get('m') or x.get('c'))['pr'])
                    if ty_mut and not decl_matches(f, ('IndexMut::index_mut',)):
                        writers.setdefault(name, []).append((a[1], ('call', callee_str(f)), (b, 0)))
    allowed = {'new', 'trigger_events', 'schedule_action', 'decrement_limit'}
    for name in writers:
        rep.ob('C04.R1', F[name], 'writer:actions', name in allowed, 'actions written in %s' % name)
    # trigger_events: fill(None) dominates everything
    te = F['trigger_events']
    fa = an.get(te)
    fills = []
    for (b, f, args, t) in calls(fa):
        if callee_str(f).endswith('::fill') and args and contains(args[0], lambda x: isinstance(x, tuple) and x and x[0] == 'fld' and x[3] == 'actions'):
            fills.append((b, args))
    rep.count_exact('C04.R1', 'fill of the action vector in trigger_events', len(fills), 1)
    for (b, args) in fills:
        rep.ob('C04.R1', te, 'fill-value-None', args[1][0] == 'agg' and args[1][2] == 'None', 'fill(%s)' % show(args[1]))
        okdom = all(fa.cfg.dominates(b, r) for r in fa.cfg.returns)
        rep.ob('C04.R1', te, 'fill-dominates-every-return', okdom, 'reset of all slots precedes every return')
        # nothing that can schedule happens before: process_event / transition calls are dominated by the fill
        for (b2, f2, a2, t2) in calls(fa):
            if callee_str(f2).endswith('::process_event') or callee_str(f2).endswith('::transition'):
                rep.ob('C04.R1', te, 'fill-before:' + callee_str(f2).split('::')[-1], fa.cfg.dominates(b, b2) and b != b2, '')
    rets = ret_defs(fa)
    for (b, k, v) in rets:
        ok = is_call(v, 'filter_map') and is_call(v[2][0], '::iter') and contains(v[2][0], lambda x: isinstance(x, tuple) and x and x[0] == 'fld' and x[3] == 'actions')
        rep.ob('C04.R1', te, 'returns-iterator-over-slots', ok, 'returns %s' % shape(v))
        if ok:
            clo = v[2][1]
            okc = clo[0] == 'closure'
            if okc:
                cfn = prog.fns.get(clo[1])
                okc = cfn is not None
                if okc:
                    ca = an.get(cfn)
                    cr = ret_defs(ca)
                    okc = len(cr) == 1 and is_call(cr[0][2], 'as_ref') and cr[0][2][2][0] in (('param', 2), ('refv', ('param', 2)))
            rep.ob('C04.R1', te, 'filter-closure-is-as_ref', okc, 'closure maps each slot with Option::as_ref')
    rep.count_exact('C04.R1', 'return sites of trigger_events', len(rets), 1)
    # new: vector sized from machines
    nw = F['new']
    na = an.get(nw)
    aggs = aggregates(na, 'framework::Framework')
    rep.count_exact('C04.R1', 'Framework aggregates in new', len(aggs), 1)
    for (site, var, flds, ln) in aggs:
        v = flds.get('actions')
        ok = v is not None and is_call(v, 'from_elem') and v[2][0][0] == 'agg' and v[2][0][2] == 'None' and is_call(v[2][1], 'len') and 'machines' in str(v[2][1]) or \
            (v is not None and is_call(v, 'from_elem') and v[2][0][0] == 'agg' and v[2][0][2] == 'None' and is_call(v[2][1], 'len') and contains(v[2][1], lambda x: x in (('param', 1), ('local', 1))))
        rep.ob('C04.R1', nw, 'slots-sized-from-machines', bool(ok), 'actions initialised with %s' % shape(v))
    # schedule_action / decrement_limit stores
    for name in ('schedule_action', 'decrement_limit'):
        fn = F[name]
        fa2 = an.get(fn)
        for (pe, v, site) in field_stores(fa2, 'actions', 'Framework'):
            ix, base = idx_of(pe)
            rep.ob('C04.R1', fn, 'slot-index-is-own-machine', ix == ('param', 2), 'store to %s' % show(pe))
            if name == 'decrement_limit':
                rep.ob('C04.R1', fn, 'withdraws-only', v[0] == 'agg' and v[2] == 'None', 'value %s' % shape(v))
    sa = F['schedule_action']
    sfa = an.get(sa)
    ta = aggregates(sfa, 'action::TriggerAction')
    avariants = prog.adt('maybenot::action::Action')['variants']
    tvariants = {v['name']: v for v in prog.adt('maybenot::action::TriggerAction')['variants']}
    seen = {}
    for (site, var, flds, ln) in ta:
        seen.setdefault(var, []).append(flds)
        m = flds.get('machine')
        okm = m is not None and m[0] == 'agg' and m[1].endswith('MachineId') and dict(m[3]).get('0') == ('param', 2)
        rep.ob('C04.R1', sa, 'machine-id-is-slot-index:' + var, okm, 'machine = %s' % shape(m))
    # ---- R2 table
    for av in avariants:
        n = av['name']
        if n not in tvariants:
            rep.ob('C04.R2', sa, 'variant:' + n, False, 'no TriggerAction variant named %s' % n)
            continue
        insts = seen.get(n, [])
        rep.ob('C04.R2', sa, 'variant:' + n, len(insts) == 1, 'TriggerAction::%s constructed %d time(s)' % (n, len(insts)))
        for flds in insts:
            srcf = {f['name']: f for f in av['fields']}
            for tf in tvariants[n]['fields']:
                fname = tf['name']
                e = flds.get(fname)
                if fname == 'machine':
                    continue
                if fname in ('timeout', 'duration'):
                    want = 'sample_timeout' if fname == 'timeout' else 'sample_duration'
                    ok = is_call(e, 'from_micros') and is_call(e[2][0], '::' + want)
                    if ok:
                        act = unwrap(e[2][0][2][0])
                        act = unload(act)
                        # the action sampled is the state's action: (states[state].action as Some).0
                        ok = act[0] == 'fld' and act[1][0] == 'var' and act[1][2] == 'Some' and is_field(act[1][1], 'action', 'State')
                    rep.ob('C04.R2', sa, 'field:%s.%s' % (n, fname), ok, '%s = %s' % (fname, shape(e)))
                elif fname in srcf:
                    sf = src_field(e)
                    ok = sf is not None and sf[0].endswith('action::Action') and sf[1] == n and sf[2] == fname
                    if ok:
                        bs = unload(src_base(e))
                        ok = bs[0] == 'fld' and bs[1][0] == 'var' and bs[1][2] == 'Some' and is_field(bs[1][1], 'action', 'State')
                    rep.ob('C04.R2', sa, 'field:%s.%s' % (n, fname), ok, '%s = %s' % (fname, shape(e)))
                else:
                    rep.ob('C04.R2', sa, 'field:%s.%s' % (n, fname), False, 'no rule for destination field %s' % fname)
    # the action read is machines[mi].states[state] with state the third parameter
    for (b, f, args, t) in calls(sfa):
        pass
    acts = [v for (pe, v, site, mp) in stores(sfa) if is_field(v, 'action', 'State')]
    for v in acts:
        ix, base = idx_of(unload(v)[1] if unload(v)[0] == 'fld' else v)
        mix, mbase = idx_of(base) if base is not None else (None, None)
        ok = ix == ('param', 3) and mix == ('param', 2)
        rep.ob('C04.R2', sa, 'action-of-own-machine-and-state', ok, 'reads %s' % show(v))
    rep.count_floor('C04.R2', 'reads of the state action in schedule_action', len(acts), 1)
    # transition passes next_state as the state
    tr = F['transition']
    tfa = an.get(tr)
    for (b, f, args, t) in calls(tfa):
        if callee_str(f).endswith('::schedule_action'):
            rep.ob('C04.R2', tr, 'schedules-entered-state', args[1] == ('param', 2) and next_state_payload(args[2]), 'schedule_action(%s)' % ', '.join(show(a) for a in args[1:]))
    # ---- R3 clamps
    day = 86400000000.0
    for name, allowed_consts in (('sample_timeout', ('MAX_SAMPLED_TIMEOUT',)), ('sample_duration', ('MAX_SAMPLED_BLOCK_DURATION', 'MAX_SAMPLED_TIMER_DURATION'))):
        fn = prog.fn(FW, 'Action', name)
        fa3 = an.get(fn)
        n_nonconst = 0
        for (b, k, v) in ret_defs(fa3):
            if num(v) is not None:
                rep.ob('C04.R3', fn, 'const-return', num(v) <= day, 'returns constant %s' % shape(v))
                continue
            n_nonconst += 1
            v = expand_calls(ctx, v)
            ok = v[0] == 'cast' and v[1] == 'FloatToInt'
            inner = v[3] if ok else None
            if ok and is_call(inner, '::round'):
                inner = inner[2][0]
            okmin = False
            cname = None
            if ok and is_call(inner, '::min'):
                a0, a1 = inner[2][0], inner[2][1]
                for s_, c_ in ((a0, a1), (a1, a0)):
                    if is_call(s_, 'Dist::sample') and c_[0] == 'cdef' and num(c_) is not None and num(c_) <= day:
                        okmin = True
                        cname = c_[1].split('::')[-1]
            elif ok and is_call(inner, '::clamp'):
                a0, lo, hi = inner[2]
                if is_call(a0, 'Dist::sample') and num(hi) is not None and num(hi) <= day:
                    okmin = True
            # informational only: the binding obligation is the output-level cap below (the cap may live in a helper or the caller)
            rep.extra.setdefault('sampler_clamps', []).append({'fn': fn.short(), 'returns': shape(v), 'clamped_inside': bool(ok and okmin), 'constant': cname})
        rep.count_floor('C04.R3', 'non-constant returns of %s' % name, n_nonconst, 1)
    # the same at the output: every timeout/duration of a scheduled TriggerAction passes through min(sample, C <= 24h)
    for (site, var, flds, ln) in ta:
        for fname in ('timeout', 'duration'):
            if fname not in flds:
                continue
            e = expand_calls(ctx, flds[fname], depth=3)

            def capped_expr(x0):
                # every alternative of the value is a small constant or carries a min(sample, C <= 24h)
                if x0[0] == 'phi':
                    return all(capped_expr(a) for a in x0[1])
                if num(x0) is not None:
                    return num(x0) <= day
                if x0[0] == 'cast' or (x0[0] == 'call' and (x0[1].endswith('::round') or x0[1].endswith('from_micros'))):
                    inner = x0[3] if x0[0] == 'cast' else x0[2][0]
                    return capped_expr(inner)
                if is_call(x0, '::min') and len(x0[2]) == 2:
                    a0, a1 = x0[2]
                    return any(contains(s_, lambda y: is_call(y, 'Dist::sample') or is_call(y, 'Dist::dist_sample')) and num(c_) is not None and num(c_) <= day
                               for s_, c_ in ((a0, a1), (a1, a0)))
                if is_call(x0, '::clamp') and len(x0[2]) == 3:
                    return num(x0[2][2]) is not None and num(x0[2][2]) <= day
                return False
            capped = capped_expr(e)
            rep.ob('C04.R3', sa, 'output-capped:%s.%s' % (var, fname), capped, '%s = %s' % (fname, shape(e)))
    for c in ('MAX_SAMPLED_TIMEOUT', 'MAX_SAMPLED_TIMER_DURATION', 'MAX_SAMPLED_BLOCK_DURATION'):
        val = float(prog.const_val('maybenot::constants::' + c))
        rep.ob('C04.R3', 'constants', c, val <= day, '%s = %s' % (c, val))
    # ---- R4
    for name, fn in F.items():
        fa4 = an.get(fn)
        for (pe, v, site) in field_stores(fa4, 'current_state', 'MachineRuntime'):
            rep.ob('C04.R4', fn, 'writer:current_state', name in ('new', 'transition'), 'current_state written in %s' % name)
    pfh = an.paths(tr, history=True)
    for (pe, v, site) in field_stores(tfa, 'current_state', 'MachineRuntime'):
        st = pfh.at(site[0], site[1])
        ok, w = all_paths(st, lambda S: has_cmp(S, 'eq', lambda l: is_field(l, 'current_state', 'MachineRuntime') and idx_of(l)[0] == ('param', 2),
                                               lambda r: r[0] == 'cdef' and r[1].endswith('STATE_END'), False) or
                          has_cmp(S, 'ne', lambda l: is_field(l, 'current_state', 'MachineRuntime') and idx_of(l)[0] == ('param', 2),
                                  lambda r: r[0] == 'cdef' and r[1].endswith('STATE_END'), True))
        rep.ob('C04.R4', tr, 'state-store-behind-END-check', ok, 'store of %s' % shape(v))
        ix, _ = idx_of(pe)
        rep.ob('C04.R4', tr, 'state-store-own-machine', ix == ('param', 2), show(pe))
    for (b, f, args, t) in calls(tfa):
        if callee_str(f).endswith('::schedule_action') or callee_str(f).endswith('::update_counter'):
            st = pfh.at_entry(b)
            ok, w = all_paths(st, lambda S: has_cmp(S, 'eq', lambda l: is_field(l, 'current_state', 'MachineRuntime'),
                                                   lambda r: r[0] == 'cdef' and r[1].endswith('STATE_END'), False))
            rep.ob('C04.R4', tr, 'no-%s-after-END' % callee_str(f).split('::')[-1], ok, '')
    # a machine that samples STATE_END ends: the END constant is stored as its current state (this store is what makes the first
    # check of transition() absorb every later event), for its own index, and the step counts as a change
    end_stores = [(pe, v, site) for (pe, v, site) in field_stores(tfa, 'current_state', 'MachineRuntime')
                  if (isinstance(v, tuple) and v and v[0] == 'cdef' and v[1].endswith('STATE_END')) or is_const(v, int(prog.const_val('maybenot::constants::STATE_END')))]
    rep.count_floor('C04.R4', 'stores of STATE_END to current_state in transition', len(end_stores), 1)
    for (pe, v, site) in end_stores:
        st = pfh.at(site[0], site[1])
        sampled_end = lambda S: any((f[0] in ('eqc',) and contains(f[1], lambda y: is_call(y, '::sample_state')) and str(int(prog.const_val('maybenot::constants::STATE_END'))) in str(f[2])) or
                                    (f[0] == 'cmp' and f[1] == 'eq' and f[5] is True and contains(f[2], lambda y: is_call(y, '::sample_state')) and
                                     ((isinstance(f[3], tuple) and f[3] and f[3][0] == 'cdef' and f[3][1].endswith('STATE_END')))) for f in S)
        ok, w = all_paths(st, sampled_end)
        rep.ob('C04.R4', tr, 'END-stored-when-END-is-sampled', ok and bool(st), '' if ok else 'witness: ' + show_facts(w))
    # ... and every path on which the sampled target is STATE_END passes such a store before returning
    ends_b = {site[0] for (pe, v, site) in end_stores}
    for r_ in tfa.cfg.returns:
        for S in pfh.at_entry(r_):
            if any((f[0] == 'eqc' and contains(f[1], lambda y: is_call(y, '::sample_state')) and str(int(prog.const_val('maybenot::constants::STATE_END'))) in str(f[2])) for f in S):
                pass
    from .rules_limits import count_between
    # the switch on the sampled target: its STATE_END edge leads to the store on every path
    for b in sorted(tfa.cfg.reach):
        t = tfa.blocks[b]['t']
        if t['k'] == 'switch':
            e = tfa.operand(t['d'], (b, len(tfa.blocks[b]['s'])))
            if contains(e, lambda y: is_call(y, '::sample_state')) and any(x[0] == str(int(prog.const_val('maybenot::constants::STATE_END'))) for x in t['ts']):
                tgt = [x[1] for x in t['ts'] if x[0] == str(int(prog.const_val('maybenot::constants::STATE_END')))][0]
                okp = all(count_between(tfa, tgt, r_, ends_b)[0] >= 1 for r_ in tfa.cfg.returns if tfa.cfg.can_reach(tgt, r_)) if ends_b else False
                rep.ob('C04.R4', tr, 'sampled-END-is-always-stored', okp, 'every path from the STATE_END case to a return stores STATE_END')
    # sample_state happens behind the END check as well (an ended machine does not even draw)
    rep.rule('C04.R5', 'helper contracts: MachineId::into_raw/from_raw are identity wrappers and num_machines is machines.as_ref().len() (ids name existing machines)')
    check_helpers_ids(ctx, rep, 'C04.R5')
    rep.assumptions += ['f64::round and the float-to-int cast are not evaluated numerically (casts saturate by language definition)',
                        'Duration::from_micros of the caller\'s duration type is monotone']
    rep.rule('C04.R6', 'the contract holds at the C API as well: convert_action forwards kind, machine, timer, bypass and replace of every '
             'TriggerAction variant into the same-named field of the same MaybenotAction variant')
    from .rules_ffi import check_convert_action_table
    check_convert_action_table(ctx, rep, 'C04.R6')
    return 'who-may-write inventory of the action slots, translation table of schedule_action, clamp shape of the samplers, END absorbing guard'


# =================================================================== C08

def check_C08(ctx, rep):
    pid = 'C08'
    prog, an = ctx.prog, ctx.an
    F = fw_fns(prog)
    rep.rule('C08.R1', 'the counters are written only by update_counter (and initialised in new); on every path through the update of a '
             'counter whose spec is present exactly one value is stored: saturating_add(old, change) for Increment, saturating_sub(old, change) '
             'for Decrement, change for Set (exhaustive over Operation); the only store-free paths allowed are Increment/Decrement with change == 0')
    rep.rule('C08.R2', 'change is the OTHER counter\'s value loaded before any counter store when spec.copy is true, else '
             'Counter::sample_value of the same spec; sample_value returns 1 without a dist, else the sampled value through a saturating cast')
    rep.rule('C08.R3', 'CounterZero is requested (flag local set) exactly under old != 0 && new == 0 && !zeroed_once[mi].k, together with '
             'setting that same per-machine, per-counter flag; the recursive transition(mi, CounterZero) is guarded by that local')
    rep.rule('C08.R4', 'the once-per-call flags are indexed by the machine index and distinct per counter; they are reset (fill) only in '
             'trigger_events before any event is processed')
    rep.rule('C08.R6', 'both counters of every machine start at zero (MachineRuntime built by Framework::new)')
    check_initial_state(ctx, rep, 'C08.R6', only={'counter_a', 'counter_b'})
    rep.rule('C08.R7', 'what a counter specification says is what its constructor was asked for: Counter::new(op) = {op, no dist, copy false}, '
             'new_dist(op, d) = {op, Some(d), copy false}, new_copy(op) = {op, no dist, copy true}')
    want = {'new': ('None', 0), 'new_dist': ('Some', 0), 'new_copy': ('None', 1)}
    for cname, (dv, cp) in want.items():
        cf = prog.fn_opt(FW, 'Counter', cname)
        if cf is None:
            rep.fail_closed('C08.R7', 'Counter::' + cname)
            continue
        rv = [v for (b, k, v) in ret_defs(an.get(cf))]
        ok = len(rv) == 1 and rv[0][0] == 'agg' and rv[0][1].endswith('Counter')
        if ok:
            d = dict(rv[0][3])
            # struct update syntax `..Self::new(operation)`: a field taken from Counter::new(op) is what `new` (judged above) puts there
            base = {'operation': ('param', 1), 'dist': ('agg', 'core::option::Option', 'None', ()), 'copy': ('const', 'bool', 'false')}
            for fk, fv in list(d.items()):
                fv2 = unload(fv)
                if isinstance(fv2, tuple) and fv2 and fv2[0] == 'fld' and fv2[3] == fk and is_call(unload(fv2[1]), 'Counter::new') and unload(fv2[1])[2][0] == ('param', 1) and cname != 'new':
                    d[fk] = base[fk]
            ok = d.get('operation') == ('param', 1) and isinstance(d.get('dist'), tuple) and d['dist'][0] == 'agg' and d['dist'][2] == dv and \
                (dv == 'None' or dict(d['dist'][3]).get('0') == ('param', 2)) and num(d.get('copy')) == cp
        rep.ob('C08.R7', cf, 'constructor:' + cname, ok, 'returns %s' % (shape(rv[0])[:90] if rv else '?'))
    rep.rule('C08.R5', 'order: in transition update_counter runs before schedule_action and the schedule permission is '
             'actions[mi].is_none() evaluated after the recursive CounterZero transition; without recursion it is (true, false)')
    for name, fn in F.items():
        fa = an.get(fn)
        for fld in ('counter_a', 'counter_b'):
            for (pe, v, site) in field_stores(fa, fld, 'MachineRuntime'):
                rep.ob('C08.R1', fn, 'writer:' + fld, name in ('update_counter',), '%s written in %s' % (fld, name))
    fn = F['update_counter']
    fa = an.get(fn)
    ops = prog.variants('maybenot::counter::Operation')
    table = (('counter_a', '0', 'counter_b'), ('counter_b', '1', 'counter_a'))

    def spec_of(e, k):
        """e designates (state.counter.k as Some).0"""
        e = unload(unwrap(e))
        if e[0] == 'fld' and e[1][0] == 'var' and e[1][2] == 'Some':
            b0 = unload(e[1][1])
            return b0[0] == 'fld' and b0[3] == k and is_field(b0[1], 'counter', 'State')
        return False

    rs = lambda pe, val: is_field(pe, 'counter_a', 'MachineRuntime') or is_field(pe, 'counter_b', 'MachineRuntime')
    pf = an.paths(fn, record_stores=rs, tag='counter-stores')
    pfh = an.paths(fn, history=True)
    # the local that requests CounterZero: condition guarding the recursive transition
    rec_calls = [(b, f, args, t) for (b, f, args, t) in calls(fa) if callee_str(f).endswith('::transition')]
    rep.count_exact('C08.R3', 'recursive transition call sites in update_counter', len(rec_calls), 1)
    flag_local = None
    for (b, f, args, t) in rec_calls:
        ev = args[2]
        rep.ob('C08.R3', fn, 'recursive-event-is-CounterZero', ev[0] == 'agg' and ev[2] == 'CounterZero' and args[1] == ('param', 2), 'transition(%s)' % ', '.join(show(a) for a in args[1:]))
        # guarding local: the nearest dominating switch on a plain local
        for d in sorted(fa.cfg.dom()[b], reverse=True):
            t2 = fa.blocks[d]['t']
            if t2['k'] == 'switch' and d != b:
                pl = t2['d'].get('c') or t2['d'].get('m')
                if pl is not None and not pl['pr']:
                    # resolve copies
                    l = pl['l']
                    sd = fa.single_def(l)
                    if sd is not None and sd[1] < len(fa.blocks[sd[0]]['s']):
                        rv = fa.blocks[sd[0]]['s'][sd[1]]['rv']
                        if rv['k'] == 'use' and ('c' in rv['x'] or 'm' in rv['x']) and not (rv['x'].get('c') or rv['x'].get('m'))['pr']:
                            l = (rv['x'].get('c') or rv['x'].get('m'))['l']
                    flag_local = l
                    break
    if flag_local is None:
        rep.fail_closed('C08.R3', 'update_counter: local guarding the CounterZero recursion')
        return ''
    for (cf, k, other) in table:
        sts = field_stores(fa, cf, 'MachineRuntime')
        # one store per operation, or one store of a match-valued local (`*value = match op {..}`) judged per path
        single_match = len(sts) == 1 and sts[0][1][0] == 'phi'
        rep.count_floor('C08.R1', 'stores to %s' % cf, len(sts), 1 if single_match else len(ops))
        old_self = None
        ops_seen = set()
        for (pe, v, site) in sts:
            ix, _ = idx_of(pe)
            rep.ob('C08.R1', fn, '%s:index-is-own-machine' % cf, ix == ('param', 2), show(pe))
            st = pf.at(site[0], site[1])
            for S in st:
                var = [f[2] for f in S if f[0] == 'variant' and f[2] in ops and spec_of(f[1][1] if f[1][0] == 'fld' and f[1][3] == 'operation' else ('x',), k)]
                if not var:
                    var = [f[2] for f in S if f[0] == 'variant' and f[2] in ops and contains(f[1], lambda x: isinstance(x, tuple) and x and x[0] == 'fld' and x[3] == k and is_field(x[1], 'counter', 'State'))]
                if len(var) != 1:
                    rep.ob('C08.R1', fn, '%s:store-without-operation' % cf, False, 'store of %s not under a single Operation variant: %s' % (shape(v), var))
                    continue
                op = var[0]
                ops_seen.add(op)
                vv = v
                if single_match and vv[0] == 'phi' and site[1] is not None:
                    # the value this path assigned to the stored local
                    st_ = fa.blocks[site[0]]['s'][site[1]]
                    if st_['rv']['k'] == 'use':
                        pl_ = st_['rv']['x'].get('m') or st_['rv']['x'].get('c')
                        if pl_ is not None and not pl_['pr']:
                            pv = pf.path_def_value(S, pl_['l'])
                            if pv is not None:
                                vv = pv
                if op == 'Increment':
                    ok = is_call(vv, 'saturating_add') and is_field(vv[2][0], cf, 'MachineRuntime')
                    chg = vv[2][1] if ok else None
                elif op == 'Decrement':
                    ok = is_call(vv, 'saturating_sub') and is_field(vv[2][0], cf, 'MachineRuntime')
                    chg = vv[2][1] if ok else None
                elif op == 'Set':
                    ok = not is_call(vv, 'saturating_add') and not is_call(vv, 'saturating_sub')
                    chg = vv
                    if single_match and v[0] == 'phi':
                        # the change itself may be a match-valued local resolved per path: its origin is judged on all its alternatives
                        rest_ = [a_ for a_ in v[1] if not is_call(a_, 'saturating_add') and not is_call(a_, 'saturating_sub')]
                        if len(rest_) == 1:
                            chg = rest_[0]
                else:
                    ok, chg = False, None
                rep.ob('C08.R1', fn, '%s:%s:value' % (cf, op), ok, 'stores %s' % shape(vv))
                if chg is not None:
                    def flat(x):
                        if x[0] == 'phi':
                            for y in x[1]:
                                for z in flat(y):
                                    yield z
                        else:
                            yield x
                    alts = tuple(dict.fromkeys(flat(chg)))
                    # the literal 1 is what sample_value yields without a distribution: an explicit arm for it adds nothing
                    alts = tuple(a for a in alts if not is_const(a, 1)) if len(alts) == 3 else alts
                    okc = len(alts) == 2
                    has_copy = has_sample = False
                    for a in alts:
                        if is_field(a, other, 'MachineRuntime') and idx_of(a)[0] == ('param', 2):
                            has_copy = True
                            # loaded before any counter store
                            ls = a[2] if len(a) > 2 else None
                            if ls is not None:
                                store_blocks = {s2[0] for (p2, v2, s2) in field_stores(fa, 'counter_a', 'MachineRuntime') + field_stores(fa, 'counter_b', 'MachineRuntime')}
                                pre = not any(fa.cfg.can_reach(sb, ls[0]) for sb in store_blocks)
                                rep.ob('C08.R2', fn, '%s:copy-source-is-pre-update-value' % cf, pre, 'other counter loaded at a point no counter store can reach')
                        elif is_call(a, '::sample_value') and spec_of(a[2][0], k):
                            has_sample = True
                        else:
                            okc = False
                    rep.ob('C08.R2', fn, '%s:%s:change-origin' % (cf, op), okc and has_copy and has_sample, 'change = %s' % shape(chg))
        # which alternative of the change is taken is decided by the copy flag alone: the other counter's value only under
        # copy == true, a sampled value (or the literal 1 of a counter without distribution) only under copy == false
        def copy_fact(S, pol):
            return any(f[0] == 'btrue' and f[2] is pol and is_field(f[1], 'copy', 'Counter') and
                       contains(f[1], lambda y: isinstance(y, tuple) and y and y[0] == 'fld' and y[3] == k and is_field(y[1], 'counter', 'State')) for f in S)
        n_sel = 0
        for b_ in sorted(fa.cfg.reach):
            bb_ = fa.blocks[b_]
            sites_ = []
            for k_, st_ in enumerate(bb_['s']):
                if 'p' in st_ and not st_['p']['pr'] and len(fa.defs().get(st_['p']['l'], ())) > 1 and st_['rv']['k'] == 'use':
                    sites_.append((st_['p']['l'], k_, fa.rvalue(st_['rv'], (b_, k_))))
            t_ = bb_['t']
            if t_['k'] == 'call' and not t_['d']['pr'] and len(fa.defs().get(t_['d']['l'], ())) > 1:
                sites_.append((t_['d']['l'], len(bb_['s']), fa.call_value(t_, (b_, len(bb_['s'])))))
            for (l_, k_, val_) in sites_:
                if fa.fn.local_ty(l_) != 'u64':
                    continue
                is_other = is_field(val_, other, 'MachineRuntime') and idx_of(val_)[0] == ('param', 2)
                is_samp = is_call(val_, '::sample_value') and spec_of(val_[2][0], k)
                if not (is_other or is_samp):
                    continue
                # the sibling definitions of this local decide whether it is the `change` of this counter
                sib = [fa.def_value(l_, b2, k2) for (b2, k2, part) in fa.defs().get(l_, [])]
                if not (any(is_call(x, '::sample_value') and spec_of(x[2][0], k) for x in sib) and
                        any(is_field(x, other, 'MachineRuntime') for x in sib)):
                    continue
                n_sel += 1
                st2 = pf.at(b_, k_) if k_ < len(bb_['s']) else pf.at_entry(b_)
                ok_, w_ = all_paths(st2, lambda S: copy_fact(S, True if is_other else False))
                rep.ob('C08.R2', fn, '%s:change-selected-by-copy-flag:%s' % (cf, 'copy' if is_other else 'sample'), ok_ and bool(st2),
                       'the %s is taken only under copy == %s' % ('other counter\'s value' if is_other else 'sampled value', 'true' if is_other else 'false') +
                       ('' if ok_ else '; witness: ' + show_facts(w_)[:400]))
        rep.count_floor('C08.R2', 'definitions of the change of %s judged against the copy flag' % cf, n_sel, 2)
        if single_match:
            rep.ob('C08.R1', fn, '%s:every-operation-reaches-the-store' % cf, ops_seen == set(ops), 'operations seen at the store: %s' % sorted(ops_seen))
        # every Operation variant has a store
        # must-store: at the zero test (first switch on old != 0), each path that went through the Some(spec) edge has one store
        # unless Increment/Decrement with change == 0
        zero_tests = []
        for (b, e) in switch_conditions(fa):
            e2 = strip_sites(e)
            if e2[0] == 'bin' and e2[1] in ('Ne', 'Eq') and is_field(e2[2], cf, 'MachineRuntime') and is_const(e2[3], 0):
                ls = e[2][2] if len(e[2]) > 2 else None
                # the OLD value: loaded before the stores
                zero_tests.append((b, e))
        old_tests = [(b, e) for (b, e) in zero_tests if not any(fa.cfg.can_reach(s2[0], e[2][2][0]) for (p2, v2, s2) in sts)]
        rep.ob('C08.R3', fn, '%s:old-value-test-present' % cf, len(old_tests) == 1, 'tests of the pre-update value against 0: %d' % len(old_tests))
        for (b, e) in old_tests:
            # facts when LEAVING the test block (a store in the block of the test itself precedes the test)
            exit_sets = []
            for (y_, lab_) in fa.cfg.succ[b]:
                exit_sets += list(pf.on_edge(b, y_, lab_))
            for S in exit_sets:
                has_spec = any(f[0] == 'variant' and f[2] == 'Some' and unload(f[1])[0] == 'fld' and unload(f[1])[3] == k and is_field(unload(f[1])[1], 'counter', 'State') for f in S)
                if not has_spec:
                    continue
                stored = [f for f in S if f[0] == 'stored' and f[1] == ('maybenot::framework::MachineRuntime', cf)]
                var = [f[2] for f in S if f[0] == 'variant' and f[2] in ops]
                if stored:
                    continue
                # no store on this path: only allowed for Increment/Decrement with change == 0
                zero_change = any(f[0] == 'cmp' and f[1] == 'eq' and f[5] and is_const(f[3], 0) for f in S)
                ok = len(var) == 1 and var[0] in ('Increment', 'Decrement') and zero_change
                rep.ob('C08.R1', fn, '%s:every-update-path-stores' % cf, ok, 'path through the %s update without a store: %s' % (cf, show_facts(S)))
            rep.ob('C08.R1', fn, '%s:update-paths-checked' % cf, True, 'all paths from the spec to the zero test inspected')
        # R3: stores of true to the flag local on the K side
    # flag local stores
    fl_defs = fa.defs().get(flag_local, [])
    trues = []
    for (b, k_, part) in fl_defs:
        v = fa.def_value(flag_local, b, k_)
        if is_const(v, 1):
            trues.append((b, k_))
        else:
            rep.ob('C08.R3', fn, 'flag-local-initial-false', is_const(v, 0), 'assigned %s' % shape(v))
    rep.count_exact('C08.R3', 'places requesting CounterZero', len(trues), 2)
    seen_k = set()
    for (b, k_) in trues:
        st = pf.at(b, k_)
        for S in st:
            which = None
            for (cf, k, other) in table:
                oldnz = has_cmp(S, 'ne', lambda l: is_field(l, cf, 'MachineRuntime'), lambda r: is_const(r, 0), True)
                newz = has_cmp(S, 'eq', lambda l: is_field(l, cf, 'MachineRuntime') or (unload(l)[0] == 'deref'), lambda r: is_const(r, 0), True)
                flag = any(f[0] == 'btrue' and f[2] is False and unload(f[1])[0] == 'fld' and unload(f[1])[3] == k and
                           idx_of(unload(f[1])[1])[0] == ('param', 2) and is_field(idx_of(unload(f[1])[1])[1], 'counter_zeroed_once', 'Framework') for f in S)
                if flag:
                    which = (cf, k, oldnz, newz)
            if which is None:
                rep.ob('C08.R3', fn, 'request-guarded-by-per-machine-flag', False, 'CounterZero requested without testing zeroed_once[mi].k: ' + show_facts(S))
                continue
            cf, k, oldnz, newz = which
            seen_k.add(k)
            rep.ob('C08.R3', fn, '%s:request-guard' % cf, oldnz and newz, 'old != 0: %s, new == 0: %s, flag %s false' % (oldnz, newz, k))
            # the matching flag is set on the path to the join
            sets = [s2 for (p2, v2, s2) in field_stores(fa, 'counter_zeroed_once.' + k, 'Framework') if is_const(v2, 1) and idx_of(p2)[0] == ('param', 2)]
            if not sets:
                sets = [s2 for (p2, v2, s2, mp) in stores(fa) if unload(p2)[0] == 'fld' and unload(p2)[3] == k and
                        idx_of(unload(p2)[1])[0] == ('param', 2) and is_field(idx_of(unload(p2)[1])[1], 'counter_zeroed_once', 'Framework') and is_const(v2, 1)]
            oks = any(s2[0] == b or (fa.cfg.dominates(b, s2[0]) and fa.cfg.can_reach(b, s2[0])) for s2 in sets)
            # and the set happens on every path from the request to the recursion test
            if oks and rec_calls:
                lo, hi = count_between(fa, b, rec_calls[0][0], {s2[0] for s2 in sets})
                oks = lo >= 1
            rep.ob('C08.R3', fn, '%s:same-flag-set-with-request' % cf, oks, 'zeroed_once[mi].%s = true accompanies the request' % k)
    rep.ob('C08.R4', fn, 'flags-distinct-per-counter', seen_k == {'0', '1'}, 'flags tested: %s' % sorted(seen_k))
    # completeness: a path that updated counter k reaches the recursion test either with the request made or after
    # crossing a FALSE edge of one of the three tests (no additional condition may suppress CounterZero)
    rsl = lambda pe, val: pe == ('local', flag_local)
    pfr = an.paths(fn, record_stores=rsl, tag='request')
    rec_test = None
    for d in sorted(fa.cfg.dom()[rec_calls[0][0]], reverse=True):
        if fa.blocks[d]['t']['k'] == 'switch' and d != rec_calls[0][0]:
            rec_test = d
            break
    if rec_test is not None:
        for S in pfr.at_entry(rec_test):
            for (cf, k, other) in table:
                updated = any(f[0] == 'variant' and f[2] == 'Some' and unload(f[1])[0] == 'fld' and unload(f[1])[3] == k and is_field(unload(f[1])[1], 'counter', 'State') for f in S)
                if not updated:
                    continue
                requested = any(f[0] == 'stored' and f[2] == ('local', flag_local) and is_const(f[3], 1) for f in S)
                old_zero = has_cmp(S, 'ne', lambda l: is_field(l, cf, 'MachineRuntime'), lambda r: is_const(r, 0), False)
                new_nonzero = has_cmp(S, 'eq', lambda l: is_field(l, cf, 'MachineRuntime') or unload(l)[0] == 'deref', lambda r: is_const(r, 0), False)
                def is_flag(e, k=k):
                    e = unload(e)
                    if not (isinstance(e, tuple) and len(e) == 4 and e[0] == 'fld' and e[3] == k):
                        return False
                    ix, base = idx_of(e[1])
                    return base is not None and is_field(base, 'counter_zeroed_once', 'Framework')
                flag_set = any(f[0] == 'btrue' and f[2] is True and is_flag(f[1]) for f in S)
                okc = requested or old_zero or new_nonzero or flag_set
                rep.ob('C08.R3', fn, '%s:zeroing-always-requests-CounterZero' % cf, okc,
                       '' if okc else 'a path updates %s and reaches the recursion test without a request although none of the three tests failed: %s' % (cf, show_facts(S)))
    # the test of new == 0 reads the stored counter (same place as the store)
    # R4 flags writers
    for name, f2 in F.items():
        fa2 = an.get(f2)
        for (pe, v, site, mp) in stores(fa2):
            if contains(pe, lambda x: isinstance(x, tuple) and x and x[0] == 'fld' and x[3] == 'counter_zeroed_once'):
                if name == 'new':
                    continue
                ok = name == 'update_counter' and is_const(v, 1) and idx_of(unload(pe)[1] if unload(pe)[0] == 'fld' else pe)[0] == ('param', 2)
                rep.ob('C08.R4', f2, 'flag-write', ok, '%s = %s in %s' % (show(pe), shape(v), name))
        for (b, f3, args, t) in calls(fa2):
            if callee_str(f3).endswith('::fill') and args and contains(args[0], lambda x: isinstance(x, tuple) and x and x[0] == 'fld' and x[3] == 'counter_zeroed_once'):
                okf = name == 'trigger_events' and ((args[1][0] == 'tuple' and all(is_const(x, 0) for x in args[1][2])) or
                                                    (args[1][0] == 'cdef' and prog.consts.get(args[1][1], {}).get('allzero') is True))   # a named (false, false)
                if okf:
                    pe_calls = [b2 for (b2, f4, a4, t4) in calls(fa2) if callee_str(f4).endswith('::process_event') or callee_str(f4).endswith('::transition')]
                    okf = bool(pe_calls) and all(fa2.cfg.dominates(b, b2) for b2 in pe_calls)
                rep.ob('C08.R4', f2, 'flags-reset-first-in-trigger_events', okf, 'fill(%s)' % show(args[1]))
    te = an.get(F['trigger_events'])
    nfill = sum(1 for (b, f3, args, t) in calls(te) if callee_str(f3).endswith('::fill') and args and contains(args[0], lambda x: isinstance(x, tuple) and x and x[0] == 'fld' and x[3] == 'counter_zeroed_once'))
    rep.count_exact('C08.R4', 'reset of the zeroed-once flags in trigger_events', nfill, 1)
    # recursion guard
    for (b, f, args, t) in rec_calls:
        st = pfh.at_entry(b)
        ok, w = all_paths(st, lambda S: any(f2[0] == 'btrue' and f2[2] is True and (f2[1] == ('load', ('local', flag_local)) or contains(f2[1], lambda x: x == ('const', 'bool', 'true'))) for f2 in S))
        rep.ob('C08.R3', fn, 'recursion-guarded-by-request-flag', ok, '' if ok else show_facts(w))
    # R5
    tr = F['transition']
    tfa = an.get(tr)
    uc = [b for (b, f, a, t) in calls(tfa) if callee_str(f).endswith('::update_counter')]
    sc = [b for (b, f, a, t) in calls(tfa) if callee_str(f).endswith('::schedule_action')]
    rep.ob('C08.R5', tr, 'update_counter-before-schedule_action', len(uc) == 1 and len(sc) == 1 and tfa.cfg.dominates(uc[0], sc[0]) and uc[0] != sc[0], '')
    for (b, f, a, t) in calls(tfa):
        if callee_str(f).endswith('::update_counter'):
            rep.ob('C08.R5', tr, 'update_counter-own-machine', a[1] == ('param', 2), '')
    rets = ret_defs(fa)
    akey, ckey = uc_components(ctx)
    for (b, k_, v) in rets:
        comp = pair_components(v)
        if comp is None or akey not in comp or ckey not in comp:
            rep.ob('C08.R5', fn, 'return-shape', False, shape(v))
            continue
        e0, e1 = comp[akey], comp[ckey]
        after_rec = any(fa.cfg.dominates(rb, b) for (rb, f, a, t) in rec_calls)
        if after_rec:
            ok0 = is_call(e0, 'is_none') and contains(e0, lambda x: isinstance(x, tuple) and x and x[0] == 'idx' and x[2] == ('param', 2) and is_field(x[1], 'actions', 'Framework'))
            # the is_none call happens after the recursion
            isn = [b2 for (b2, f2, a2, t2) in calls(fa) if callee_str(f2).endswith('is_none')]
            ok0 = ok0 and all(any(fa.cfg.dominates(rb, b2) and rb != b2 for (rb, f, a, t) in rec_calls) for b2 in isn)
            rep.ob('C08.R5', fn, 'permission-read-after-CounterZero', ok0, 'allow = %s' % shape(e0))
            ok1 = contains(e1, lambda x: is_call(x, '::transition')) and contains(e1, lambda x: isinstance(x, tuple) and x and x[0] == 'agg' and x[2] == 'Changed')
            # ... as an equality with Changed (not its negation)
            e1s = strip_sites(e1)
            eq_form = (isinstance(e1s, tuple) and e1s and ((e1s[0] == 'call' and (e1s[1].endswith('PartialEq>::eq') or e1s[1].endswith('PartialEq::eq'))) or (e1s[0] == 'bin' and e1s[1] == 'Eq')))
            neg_form = contains(e1s, lambda x: isinstance(x, tuple) and x and ((x[0] == 'call' and (x[1].endswith('PartialEq>::ne') or x[1].endswith('PartialEq::ne'))) or (x[0] == 'bin' and x[1] == 'Ne') or (x[0] == 'un' and x[1] == 'Not')))
            ok1 = ok1 and (eq_form or not neg_form) and not neg_form
            rep.ob('C08.R5', fn, 'state-changed-from-recursion-result', ok1, 'changed = %s' % shape(e1))
        else:
            rep.ob('C08.R5', fn, 'no-recursion-return', is_const(e0, 1) and is_const(e1, 0), 'returns %s' % shape(v))
    rep.count_exact('C08.R5', 'returns of update_counter', len(rets), 2)
    # sample_value
    sv = prog.fn(FW, 'Counter', 'sample_value')
    sva = an.get(sv)
    svp = an.paths(sv)
    for (b, k_, v) in ret_defs(sva):
        v = expand_calls(ctx, v)
        if v[0] == 'phi':
            # combinator form (map_or): the alternatives are the two cases
            ones = [a for a in v[1] if is_const(a, 1)]
            casts = [a for a in v[1] if a[0] == 'cast' and a[1] == 'FloatToInt' and is_call(a[3], 'Dist::sample') and contains(a, lambda y: isinstance(y, tuple) and y and y[0] == 'var' and y[2] == 'Some' and is_field(y[1], 'dist', 'Counter'))]
            rep.ob('C08.R2', sv, 'no-dist-means-one', len(ones) == 1 and len(v[1]) == 2, 'returns %s' % shape(v))
            rep.ob('C08.R2', sv, 'dist-value-saturating-cast', len(casts) == 1, 'returns %s' % shape(v))
            continue
        for S in svp.at(b, k_):
            none = any(f[0] == 'variant' and f[2] == 'None' for f in S)
            if none:
                rep.ob('C08.R2', sv, 'no-dist-means-one', is_const(v, 1), 'returns %s' % shape(v))
            else:
                ok = v[0] == 'cast' and v[1] == 'FloatToInt' and is_call(v[3], 'Dist::sample')
                rep.ob('C08.R2', sv, 'dist-value-saturating-cast', ok, 'returns %s' % shape(v))
    # no checked arithmetic on counters
    for b in sorted(fa.cfg.reach):
        t = fa.blocks[b]['t']
        if t['k'] == 'assert' and t['mk'] == 'Overflow':
            rep.ob('C08.R1', fn, 'no-overflowing-arithmetic', False, 'checked arithmetic in update_counter: %s' % t['msg'][:80])
    rep.assumptions += ['every CFG path is treated as feasible', 'sampled magnitudes are not decided']
    return 'operation table, copy/sample provenance, zero-detection guard and once-per-call flags of update_counter'


# =================================================================== C09

def signal_calls(prog, an):
    """all call sites transition(_, Event::Signal) in the maybenot crate"""
    out = []
    for fn in prog.crate_fns(FW):
        if not fn.has_body:
            continue
        fa = an.get(fn)
        for (b, f, args, t) in calls(fa):
            if callee_str(f).endswith('Framework::<M, R, T>::transition') and len(args) == 3 and args[2][0] == 'agg' and args[2][2] == 'Signal':
                out.append((fn, fa, b, args))
    return out


def signal_filter_ok(ctx, clo, cfn, ca):
    """closure |&mi| signal.includes(mi) (includes inlined): captures the taken SignalTarget itself; false exactly for
    AllExcept(e) with e == mi"""
    prog, an = ctx.prog, ctx.an
    if len(clo[2]) != 1:
        return False
    cap = clo[2][0]
    # the captured value is (a reference to) the payload of signal_pending.take()
    parent = None
    for f in prog.fns.values():
        if f.key == cfn.parent or cfn.parent in getattr(f, 'inlined', ()):
            parent = an.get(f)
    if parent is None:
        return False
    capv = cap
    if cap[0] == 'ref' and cap[1][0] == 'local':
        vals = [parent.def_value(cap[1][1], b_, k_) for (b_, k_, part) in parent.defs().get(cap[1][1], []) if not part]
        if len(vals) != 1:
            return False
        capv = vals[0]
    if not (contains(capv, lambda x: is_call(x, 'Option::<T>::take')) and contains(capv, lambda x: isinstance(x, tuple) and x and x[0] == 'fld' and x[3] == 'signal_pending')):
        return False

    def is_captured(e):
        # *(env.0) possibly through references
        return contains(e, lambda y: isinstance(y, tuple) and y and y[0] == 'fld' and y[3] == '0' and unload(y[1]) in (('param', 1), ('deref', ('param', 1)))) and \
            not contains(e, lambda y: y == ('param', 2))

    def payload(e):
        e = unload(e)
        return e[0] == 'fld' and e[3] == '0' and e[1][0] == 'var' and e[1][2] == 'AllExcept' and is_captured(e[1][1])

    def is_arg(e):
        e = unload(e)
        while isinstance(e, tuple) and e and e[0] in ('deref', 'load', 'pick', 'refv', 'ref'):
            e = e[1]
        return e == ('param', 2)
    pf = an.paths(cfn)
    n = 0
    for (b, k, v) in ret_defs(ca):
        for S in pf.at(b, k):
            n += 1
            is_all = any(f[0] == 'variant' and f[2] == 'All' and is_captured(f[1]) for f in S)
            is_exc = any(f[0] == 'variant' and f[2] == 'AllExcept' and is_captured(f[1]) for f in S)
            vv = strip_sites(v)
            if vv[0] == 'phi':
                # the value this path assigned (materialised in the return slot of the inlined method)
                src = 0
                try:
                    st_ = ca.blocks[b]['s'][k]
                    if st_['rv']['k'] == 'use':
                        pl_ = st_['rv']['x'].get('m') or st_['rv']['x'].get('c')
                        if pl_ is not None and not pl_['pr']:
                            src = pl_['l']
                except (IndexError, KeyError):
                    pass
                for f in S:
                    if f[0] == '~c' and f[1] in (0, src):
                        vv = ('const', 'bool', 'true' if f[2] == '1' else 'false') if not isinstance(f[2], tuple) else strip_sites(f[2][2])
            if is_const(vv, 1):
                ok = is_all or (is_exc and (has_cmp(S, 'ne', payload, is_arg, True) or has_cmp(S, 'eq', payload, is_arg, False)))
            elif is_const(vv, 0):
                ok = is_exc and (has_cmp(S, 'eq', payload, is_arg, True) or has_cmp(S, 'ne', payload, is_arg, False))
            elif vv[0] == 'bin' and vv[1] == 'Ne':
                ok = is_exc and ((payload(vv[2]) and is_arg(vv[3])) or (payload(vv[3]) and is_arg(vv[2])))
            else:
                ok = False
            if not ok:
                return False
    return n >= 2


def filter_excludes_only(ctx, clo):
    """closure value `clo` = |&mi| excluded != Some(mi) where the captured `excluded` is
    None | Some((taken signal as AllExcept).0)"""
    prog, an = ctx.prog, ctx.an
    cfn = prog.fns.get(clo[1])
    if cfn is None or not cfn.has_body or len(clo[2]) != 1:
        return False
    ca = an.get(cfn)
    rets = [v for (b, k, v) in ret_defs(ca)]
    if len(rets) != 1:
        return False
    if signal_filter_ok(ctx, clo, cfn, ca):
        return True
    r = rets[0]
    neg = False
    if r[0] == 'un' and r[1] == 'Not':
        neg, r = True, r[2]
    if not (r[0] == 'call' and len(r[2]) == 2):
        return False
    if is_call(r, 'PartialEq::ne') and not neg:
        pass
    elif is_call(r, 'PartialEq::eq') and neg:
        pass
    else:
        return False

    def is_cap(x):
        x = unload(x)
        while x[0] in ('refv', 'ref', 'deref'):
            x = unload(x[1])
        return x[0] == 'fld' and x[3] == '0' and unload(x[1]) in (('param', 1), ('deref', ('param', 1)))

    def is_some_arg(x):
        x = unload(x)
        while x[0] in ('refv', 'ref'):
            x = unload(x[1])
        if not (x[0] == 'agg' and x[2] == 'Some' and x[1].endswith('option::Option')):
            return False
        y = unload(dict(x[3]).get('0'))
        while y[0] in ('deref', 'load'):
            y = unload(y[1])
        return y == ('param', 2)
    a, b = r[2]
    if not ((is_cap(a) and is_some_arg(b)) or (is_cap(b) and is_some_arg(a))):
        return False
    # the captured value
    cap = clo[2][0]
    fa = None
    for f in prog.fns.values():
        if f.key == cfn.parent or cfn.parent in getattr(f, 'inlined', ()):
            fa = an.get(f)
    if fa is None:
        return False
    if cap[0] == 'ref' and cap[1][0] == 'local':
        vals = [fa.def_value(cap[1][1], b_, k_) for (b_, k_, part) in fa.defs().get(cap[1][1], []) if not part]
    else:
        vals = [cap]
    alts = []
    for v in vals:
        alts += list(v[1]) if v[0] == 'phi' else [v]
    if not alts:
        return False
    some = 0
    for a_ in alts:
        if a_[0] == 'agg' and a_[2] == 'None':
            continue
        if a_[0] == 'agg' and a_[2] == 'Some':
            pl = dict(a_[3]).get('0')
            if contains(pl, lambda x: isinstance(x, tuple) and x and x[0] == 'var' and x[2] == 'AllExcept') and contains(pl, lambda x: is_call(x, 'Option::<T>::take')):
                some += 1
                continue
        return False
    return some == 1


def check_C09(ctx, rep):
    prog, an = ctx.prog, ctx.an
    F = fw_fns(prog)
    rep.rule('C09.R1', 'signal_pending is written only by transition (signal pseudo-state arm) and consumed by take() in trigger_events; '
             'the signal arm stores exactly one Some(..) on every path, changes no machine state, schedules nothing and returns Unchanged')
    rep.rule('C09.R2', 'SignalTarget::All is stored only when a different machine already signalled (pending All, or pending AllExcept(p) with '
             'p != mi); AllExcept carries the signalling machine\'s own index and is stored only when nothing is pending or the pending '
             'signaller is the same machine')
    rep.rule('C09.R3', 'delivery: signal_pending is taken after all events are processed; the round loops over 0..runtime.len() and calls '
             'transition(mi, Signal) on every iteration except exactly when mi equals the excluded index; the second-round call is guarded '
             'by a second take().is_some() and passes the excluded index; these are the only two Signal call sites; after the first round '
             'every path to the return consumes signal_pending again (no response signal leaks into the next call)')
    rep.rule('C09.R4', 'no signal is pending in a freshly built framework')
    check_initial_state(ctx, rep, 'C09.R4', only={'signal_pending'})
    # R1 writers
    for name, fn in F.items():
        fa = an.get(fn)
        for (pe, v, site) in field_stores(fa, 'signal_pending', 'Framework'):
            if name == 'new':
                continue
            rep.ob('C09.R1', fn, 'writer:signal_pending', name == 'transition', 'stored in %s' % name)
        for (b, f, args, t) in calls(fa):
            mut_idx = {i for (i, pe_, v_) in mut_ref_args(fa, t, (b, len(fa.blocks[b]['s'])))}
            for ai, a in enumerate(args):
                if a[0] == 'optref' and is_field(a[1], 'signal_pending', 'Framework'):
                    continue  # Option<&T> view: read only
                if a[0] == 'ref' and is_field(a[1], 'signal_pending', 'Framework'):
                    if ai not in mut_idx:
                        continue  # shared borrow: cannot write
                    ok = name in ('trigger_events', 'transition') and callee_str(f).endswith('Option::<T>::take')
                    if callee_str(f).endswith('fmt') or fn.derived:
                        continue
                    rep.ob('C09.R1', fn, 'borrow:signal_pending:' + callee_str(f).split('::')[-1], ok, '%s in %s' % (callee_str(f), name))
    tr = F['transition']
    fa = an.get(tr)
    pfh = an.paths(tr, history=True)
    sig_val = prog.const_val('maybenot::constants::STATE_SIGNAL')

    def in_signal_arm(S):
        return any(f[0] == 'eqc' and f[2] == sig_val and next_state_payload(f[1]) for f in S)
    sp = field_stores(fa, 'signal_pending', 'Framework')
    rep.count_exact('C09.R1', 'stores to signal_pending in transition', len(sp), 1)
    for (pe, v, site) in sp:
        ok, w = all_paths(pfh.at(site[0], site[1]), in_signal_arm)
        rep.ob('C09.R1', tr, 'store-only-in-signal-arm', ok, '')
        alts = v[1] if v[0] == 'phi' else (v,)
        oka = all(a[0] == 'agg' and a[2] == 'Some' for a in alts)
        rep.ob('C09.R1', tr, 'stores-Some', oka, 'value %s' % shape(v))
    # the arm: exactly one store on every path, return Unchanged, no state stores / scheduling
    arm_heads = []
    for b in sorted(fa.cfg.reach):
        t = fa.blocks[b]['t']
        if t['k'] == 'switch':
            e = fa.operand(t['d'], (b, len(fa.blocks[b]['s'])))
            if next_state_payload(e):
                for (v, tgt) in t['ts']:
                    if v == sig_val:
                        arm_heads.append(tgt)
    rep.count_exact('C09.R1', 'signal arms in transition', len(arm_heads), 1)
    for h in arm_heads:
        region = fa.cfg.reachable_from(h)
        lo, hi = min_max_on_paths(fa, h, {s[0] for (_, _, s) in sp}, region)
        rep.ob('C09.R1', tr, 'arm-stores-pending-exactly-once', (lo, hi) == (1, 1), 'stores on arm paths: min %s max %s' % (lo, hi))
        bad = []
        for (pe, v, site, mp) in stores(fa):
            if site[0] in region and (is_field(pe, 'current_state') or is_field(pe, 'state_limit') or is_field(pe, 'actions') or is_field(pe, 'counter_a') or is_field(pe, 'counter_b')):
                bad.append(show(pe))
        for (b, f, args, t) in calls(fa):
            if b in region and f.get('crate') == FW and any(callee_str(f).endswith(x) for x in ('::schedule_action', '::update_counter', '::transition', '::decrement_limit')):
                bad.append(callee_str(f))
        rep.ob('C09.R1', tr, 'arm-changes-nothing-else', not bad, 'stores/calls in the signal arm: %s' % bad)
        for (b, k, v) in ret_defs(fa):
            if b in region:
                rep.ob('C09.R1', tr, 'arm-returns-Unchanged', v[0] == 'agg' and v[2] == 'Unchanged', 'returns %s' % shape(v))
    # R2 (the constructions may live in transition itself or in one private helper called from its signal arm)
    def is_pending_tr(x):
        x = unload(x)
        return is_field(x, 'signal_pending', 'Framework') or (is_call(x, 'Option::<T>::take') and contains(x, lambda y: isinstance(y, tuple) and y and y[0] == 'fld' and y[3] == 'signal_pending'))
    builders = [g for g in prog.crate_fns(FW) if g.has_body and not g.derived and aggregates(an.get(g), 'framework::SignalTarget')]
    n_all = n_exc = 0
    for g in builders:
        ga = an.get(g)
        if g is tr:
            is_pending, mexpr = is_pending_tr, ('param', 2)
        else:
            # helper: exactly one call site, inside the signal arm of transition, fed with the pending value and the machine index
            sites_g = [(b, a) for (b, f, a, t) in calls(fa) if callee_key(f) == g.key]
            other_callers = [h.short() for h in prog.crate_fns(FW) if h.has_body and h is not tr and h is not g and any(callee_key(f) == g.key for (b, f, a, t) in calls(an.get(h)))]
            okh = len(sites_g) == 1 and not other_callers and any(fa.cfg.dominates(h0, sites_g[0][0]) for h0 in arm_heads)
            pi = mi_i = None
            if okh:
                for k_, a in enumerate(sites_g[0][1]):
                    if is_pending_tr(a) or (a[0] in ('ref', 'refv') and is_pending_tr(a[1])):
                        pi = k_ + 1
                    if a == ('param', 2):
                        mi_i = k_ + 1
                okh = pi is not None and mi_i is not None
                # its result is what gets stored
                okh = okh and any(contains(v, lambda y: isinstance(y, tuple) and y and y[0] == 'call' and len(y) > 5 and y[5] == g.key) for (pe, v, site) in sp)
            rep.ob('C09.R2', g, 'helper-called-from-signal-arm-with-pending-and-index', bool(okh), 'helper %s builds the signal target' % g.short())
            if not okh:
                continue
            is_pending = (lambda x, pi=pi: unload(x) in (('param', pi), ('local', pi)) or (unload(x)[0] == 'deref' and unload(x)[1] == ('param', pi)))
            mexpr = ('param', mi_i)
        gp = an.paths(g, history=True)

        def pending_inner(e, is_pending=is_pending):
            e = unload(e)
            return e[0] == 'fld' and e[1][0] == 'var' and e[1][2] == 'Some' and is_pending(e[1][1])

        def pending_payload(e, pending_inner=pending_inner):
            e = unload(e)
            return e[0] == 'fld' and e[1][0] == 'var' and e[1][2] == 'AllExcept' and pending_inner(e[1][1])
        for (site, var, flds, ln) in aggregates(ga, 'framework::SignalTarget'):
            st = gp.at(site[0], site[1])
            if var == 'All':
                n_all += 1

                def other_machine(S):
                    if any(f[0] == 'variant' and f[2] == 'All' and pending_inner(f[1]) for f in S):
                        return True
                    if has_cmp(S, 'eq', pending_payload, lambda r: r == mexpr, False) or has_cmp(S, 'ne', pending_payload, lambda r: r == mexpr, True):
                        return True
                    return False
                ok, w = all_paths(st, other_machine)
                rep.ob('C09.R2', g, 'All-only-after-a-different-machine', ok, '' if ok else 'witness: ' + show_facts(w))
            elif var == 'AllExcept':
                n_exc += 1
                rep.ob('C09.R2', g, 'AllExcept-carries-own-index', flds.get('0') == mexpr, 'AllExcept(%s)' % show(flds.get('0')))

                def lone(S):
                    if any(f[0] == 'variant' and f[2] == 'None' and is_pending(f[1]) for f in S):
                        return True
                    if has_cmp(S, 'eq', pending_payload, lambda r: r == mexpr, True) or has_cmp(S, 'ne', pending_payload, lambda r: r == mexpr, False):
                        return True
                    return False
                ok, w = all_paths(st, lone)
                rep.ob('C09.R2', g, 'AllExcept-only-for-lone-signaller', ok, '' if ok else 'witness: ' + show_facts(w))
    rep.ob('C09.R2', tr, 'targets-constructed', n_all >= 1 and n_exc >= 1, 'All x%d, AllExcept x%d' % (n_all, n_exc))
    rep.ob('C09.R2', '<inventory>', 'SignalTarget-builders', 1 <= len(builders) <= 2 and (tr in builders or len(builders) == 1), '%s' % [f.short() for f in builders])
    # R3
    sites = signal_calls(prog, an)
    rep.count_exact('C09.R3', 'Signal call sites', len(sites), 2)
    te = F['trigger_events']
    ta = an.get(te)
    takes = [(b, args) for (b, f, args, t) in calls(ta) if callee_str(f).endswith('Option::<T>::take') and args and args[0][0] == 'ref' and is_field(args[0][1], 'signal_pending', 'Framework')]
    rep.count_exact('C09.R3', 'take() of signal_pending in trigger_events', len(takes), 2)
    loops = ta.cfg.loops()
    pe_calls = [b for (b, f, args, t) in calls(ta) if callee_str(f).endswith('::process_event')]
    first_round = [s for s in sites if s[0] is te and any(s[2] in body for body in loops.values())]
    second_round = [s for s in sites if s[0] is te and not any(s[2] in body for body in loops.values())]
    rep.ob('C09.R3', te, 'one-looped-and-one-single-site', len(first_round) == 1 and len(second_round) == 1, 'in-loop %d, single %d' % (len(first_round), len(second_round)))
    if takes and first_round and second_round:
        takes.sort(key=lambda x: 0 if ta.cfg.dominates(x[0], first_round[0][2]) else 1)
        t1, t2 = takes[0][0], takes[1][0]
        # first take after the event loop: not inside the event loop and every process_event call can reach it, not vice versa
        ev_loop = [h for h, body in loops.items() if any(b in body for b in pe_calls)]
        ok1 = bool(ev_loop) and all(t1 not in loops[h] for h in ev_loop) and all(ta.cfg.can_reach(b, t1) for b in pe_calls) and not any(ta.cfg.can_reach(t1, b) for b in pe_calls)
        rep.ob('C09.R3', te, 'pending-taken-after-all-events', ok1, '')
        fr = first_round[0]
        rep.ob('C09.R3', te, 'first-take-dominates-round', ta.cfg.dominates(t1, fr[2]), '')
        # loop shape
        hs = [h for h, body in loops.items() if fr[2] in body]
        h = hs[0]
        body = loops[h]
        mi = fr[3][1]
        ok_lv = is_range_loop_var(ta, mi)
        src = loop_iter_source(ta, mi)
        filt_ok = None
        if src is not None and src[0] == 'filter':
            # `for mi in (0..n).filter(|&mi| excluded != Some(mi))`: the predicate must be exactly
            # "mi is not the excluded index" with excluded = None | Some(AllExcept payload of the taken signal)
            ok_lv = src[2][0] == 'agg' and src[2][1].endswith('range::Range')
            filt_ok = filter_excludes_only(ctx, src[1])
        rng_ok = False
        if ok_lv:
            nx = unload(unload(mi)[1][1])  # the next() call
            # its receiver: &mut iter where iter = into_iter(Range{0, len(runtime)})
            for x in walk(nx):
                pass
        # range construction: Range{start: 0, end: len(&self.runtime)} feeding the loop
        for (site, var, flds, ln) in aggregates(ta, 'ops::Range') + aggregates(ta, 'range::Range'):
            if ta.cfg.dominates(site[0], h) and not ta.cfg.dominates(site[0], pe_calls[0] if pe_calls else 0) or True:
                st_, en_ = flds.get('start'), flds.get('end')
                if is_const(st_, 0) and is_call(en_, 'len') and contains(en_, lambda x: isinstance(x, tuple) and x and x[0] == 'fld' and x[3] == 'runtime') and ta.cfg.dominates(site[0], fr[2]) and ta.cfg.dominates(t1, site[0]):
                    rng_ok = True
        rep.ob('C09.R3', te, 'round-iterates-all-machines', ok_lv and rng_ok, 'loop variable %s over 0..runtime.len()' % show(mi))
        # every iteration path calls transition unless excluded == mi
        pf = an.paths(te, history=True, record_calls=lambda f: callee_str(f).endswith('Framework::<M, R, T>::transition'), tag='sig')
        # blocks of the loop body that jump back to the header
        ok_excl = True
        wit_excl = None
        ok_iter = True
        wit = None
        for (x, lab) in ta.cfg.pred[h]:
            if x not in body:
                continue
            for S in pf.on_edge(x, h):
                called = any(f[0] == 'called' and f[3] == fr[2] for f in S)
                smi = strip_sites(mi)
                excl = any(f[0] == 'cmp' and f[1] == 'eq' and f[5] is True and (contains(f[2], lambda x: x == smi) or contains(f[3], lambda x: x == smi)) for f in S)
                if not (called or excl):
                    ok_iter = False
                    wit = S
        if filt_ok is not None:
            rep.ob('C09.R3', te, 'filter-predicate-is-not-the-excluded-index', filt_ok, 'closure %s' % src[1][1])
        rep.ob('C09.R3', te, 'every-non-excluded-machine-signalled', ok_iter, '' if ok_iter else 'iteration path without Signal: ' + show_facts(wit))
        # ... and the excluded machine (the lone signaller) is passed over: within one iteration, no Signal on a path where the index
        # was found equal to the excluded one
        pf_it = an.paths(te, history=True, record_calls=lambda f: callee_str(f).endswith('Framework::<M, R, T>::transition'), tag='sig-iter', entry=h)
        for (x, lab) in ta.cfg.pred[h]:
            if x not in body:
                continue
            for S in pf_it.on_edge(x, h, lab):
                called = any(f[0] == 'called' and f[3] == fr[2] for f in S)
                smi = strip_sites(mi)
                excl = any(f[0] == 'cmp' and ((f[1] == 'eq' and f[5] is True) or (f[1] == 'ne' and f[5] is False)) and (contains(f[2], lambda x: x == smi) or contains(f[3], lambda x: x == smi)) and
                           (contains(f[2], lambda y: isinstance(y, tuple) and y and y[0] == 'var' and y[2] == 'AllExcept') or contains(f[3], lambda y: isinstance(y, tuple) and y and y[0] == 'var' and y[2] == 'AllExcept')) for f in S)
                if called and excl:
                    ok_excl = False
                    wit_excl = S
        rep.ob('C09.R3', te, 'excluded-machine-not-signalled-in-the-first-round', ok_excl, '' if ok_excl else 'Signal delivered on a path where the index equals the excluded machine: ' + show_facts(wit_excl))
        # excluded table
        def excluded_payload(e):
            e = unload(e)
            # (excluded as Some).0 where excluded = phi(None, Some((signal as AllExcept).0))
            return e[0] == 'fld' and e[1][0] == 'var' and e[1][2] == 'Some'
        # the comparison operand other than mi is the AllExcept payload of the taken signal
        st = pf.at_entry(fr[2])
        okx = True
        for S in st:
            for f in S:
                smi = strip_sites(mi)
                if f[0] == 'cmp' and f[1] == 'eq' and (contains(f[2], lambda x: x == smi) or contains(f[3], lambda x: x == smi)):
                    other = f[3] if contains(f[2], lambda x: x == smi) else f[2]
                    good = contains(other, lambda x: isinstance(x, tuple) and x and x[0] == 'var' and x[2] == 'AllExcept') and contains(other, lambda x: is_call(x, 'Option::<T>::take'))
                    okx = okx and good
        rep.ob('C09.R3', te, 'excluded-is-AllExcept-payload-of-taken-signal', okx, '')
        # second round
        sr = second_round[0]
        st2 = pf.at_entry(sr[2])
        ok2, w2 = all_paths(st2, lambda S: any(f[0] == 'bcall' and f[3] is True and f[1].endswith('is_some') and contains(f[2], lambda x: is_call(x, 'Option::<T>::take')) for f in S))
        rep.ob('C09.R3', te, 'second-round-guarded-by-second-take', ok2 and ta.cfg.dominates(t2, sr[2]), '' if ok2 else show_facts(w2))
        a1 = sr[3][1]
        oka = contains(a1, lambda x: isinstance(x, tuple) and x and x[0] == 'var' and x[2] == 'AllExcept') and contains(a1, lambda x: is_call(x, 'Option::<T>::take'))
        rep.ob('C09.R3', te, 'second-round-signals-the-excluded-machine', oka, 'transition(%s, Signal)' % show(a1))
        # second take after the loop, and every path from a first-round call to the return consumes pending again
        region = ta.cfg.reachable_from(fr[2])
        lo, hi = min_max_on_paths(ta, fr[2], {t2}, region)
        rep.ob('C09.R3', te, 'pending-consumed-after-first-round', lo >= 1, 'take() calls on paths from the first-round Signal to the return: min %s' % lo)
        rep.ob('C09.R3', te, 'second-take-outside-round-loop', t2 not in body, '')
    rep.assumptions += ['every CFG path is treated as feasible; delivery counts over concrete histories are not decided',
                        'ended machines are filtered by the END check of transition (C04.R4)']
    return 'writers of signal_pending, guards of the All/AllExcept stores, loop shape and take() discipline of the delivery round'


# =================================================================== C10

STEP_FNS = ('transition', 'update_counter', 'schedule_action', 'decrement_limit', 'below_action_limits', 'below_limit_blocking', 'below_limit_padding')
PER_MACHINE_VECS = ('runtime', 'actions', 'counter_zeroed_once', 'machines')


def broadcast_helper_ok(ctx, helper, ei):
    """helper(self, .., event@ei, ..) calls transition(mi, event) for every mi in 0..runtime.len() on every path"""
    prog, an = ctx.prog, ctx.an
    fa = an.get(helper)
    loops = fa.cfg.loops()
    tc = [(b, args) for (b, f, args, t) in calls(fa) if callee_str(f).endswith('Framework::<M, R, T>::transition')]
    if len(tc) != 1:
        return False
    cb, cargs = tc[0]
    if cargs[0] != ('param', 1) or cargs[2] != ('param', ei) or not is_range_loop_var(fa, cargs[1]):
        return False
    hs = [h for h, body in loops.items() if cb in body]
    if len(hs) != 1:
        return False
    h = hs[0]
    body = loops[h]
    rng = False
    for (site, v2, flds, ln) in aggregates(fa, 'ops::Range') + aggregates(fa, 'range::Range'):
        if fa.cfg.dominates(site[0], cb) and is_const(flds.get('start'), 0) and is_call(flds.get('end'), 'len') and \
                contains(flds.get('end'), lambda x: isinstance(x, tuple) and x and x[0] == 'fld' and x[3] == 'runtime'):
            rng = True
    if not rng:
        return False
    lo, hi = min_max_on_paths(fa, 0, {h}, fa.cfg.reachable_from(0))
    if lo < 1:
        return False
    pf = an.paths(helper, history=True, record_calls=lambda f: callee_str(f).endswith('Framework::<M, R, T>::transition'), tag='tr')
    for (x, lab) in fa.cfg.pred[h]:
        if x in body:
            for S in pf.on_edge(x, h):
                if not any(f[0] == 'called' and f[3] == cb for f in S):
                    return False
    for x in body:
        for (y, l) in fa.cfg.succ[x]:
            if y not in body and not (fa.blocks[y]['t']['k'] == 'unreachable' or (fa.blocks[x]['t']['k'] == 'switch' and any(f[0] == 'variant' and f[2] == 'None' for f in pf.edge_facts(x, l)))):
                return False
    return True


def check_every_event_processed(ctx, rep, rid):
    """trigger_events hands every element of the events slice to process_event: the event loop is entered on every
    path (not guarded by the machines' state) and every iteration makes the call"""
    prog, an = ctx.prog, ctx.an
    F = fw_fns(prog)
    te = F['trigger_events']
    ta = an.get(te)
    loops = ta.cfg.loops()
    pe_calls = [b for (b, f, a, t) in calls(ta) if callee_key(f) == F['process_event'].key]
    hs = [h for h, body in loops.items() if any(b in body for b in pe_calls)]
    if len(pe_calls) != 1 or len(hs) != 1:
        rep.ob(rid, te, 'event-loop-shape', False, 'process_event sites %d, enclosing loops %d' % (len(pe_calls), len(hs)))
        return
    h = hs[0]
    body = loops[h]
    lo, hi = min_max_on_paths(ta, 0, {h}, ta.cfg.reachable_from(0))
    rep.ob(rid, te, 'event-loop-entered-on-every-path', lo >= 1, 'paths from entry to return that pass the event loop header: min %s' % lo)
    lo, hi = min_max_on_paths(ta, h, set(pe_calls), body, stop_at_header=True)
    rep.ob(rid, te, 'every-event-processed', (lo, hi) == (1, 1), 'process_event calls per iteration: min %s max %s' % (lo, hi))
    exits_ok = all(ta.blocks[y]['t']['k'] == 'unreachable' or (ta.blocks[x]['t']['k'] == 'switch') for x in body for (y, l) in ta.cfg.succ[x] if y not in body)
    # the loop header is not itself behind a condition on machine state: no switch dominating it reads runtime
    guards = [b for (b, e) in switch_conditions(ta) if ta.cfg.dominates(b, h) and b != h and contains(e, lambda x: isinstance(x, tuple) and x and x[0] == 'fld' and x[3] in ('runtime', 'actions', 'machines'))]
    rep.ob(rid, te, 'event-loop-not-conditional-on-machine-state', not guards, '%d guarding branches' % len(guards))


MACHINE_LIMITS = ('max_padding_frac', 'max_blocking_frac', 'allowed_padding_packets')
SHARED_ACCOUNTING = ('padding_sent_packets', 'normal_sent_packets', 'framework_start')


def check_own_accounting(ctx, rep, rid):
    """a machine's own limits are compared with that machine's own accounting only"""
    prog, an = ctx.prog, ctx.an
    rep.rule(rid, 'the limits a machine declares for itself (Machine::max_padding_frac, max_blocking_frac, allowed_padding_packets, and the '
             'per-machine allowed_blocked_microsec) are compared with quantities computed from that machine\'s own runtime and the clock only: no '
             'framework-wide packet counter or blocked duration occurs in such a comparison (else a neighbour changes what the machine may do)')
    from .rules_gate import GATE_FNS
    fns = [prog.fn_opt(FW, 'Framework', n) for n in ('below_limit_padding', 'below_limit_blocking', 'below_action_limits')]
    fns = [f for f in fns if f is not None]
    if len(fns) < 3:
        # restructured predicates: judge the composite of transition
        prog2, an2 = ctx.composite(GATE_FNS)
        fns = [prog2.fn(FW, 'Framework', 'transition')]
        an = an2
    n = 0
    for fn in fns:
        fa = an.get(fn)
        # locals that accumulate the framework-wide blocked duration
        shared_locals = set()
        for (pe, v, site, mp) in stores(fa):
            if pe[0] == 'local' and not mp['pr'] and is_field(unload(v), 'blocking_duration', 'Framework'):
                shared_locals.add(pe[1])
        for (b, e) in switch_conditions(fa):
            e2 = strip_sites(e)
            if e2[0] == 'bin':
                sides = (e2[2], e2[3])
            elif e2[0] == 'call' and len(e2[2]) == 2 and any(e2[1].endswith(x) for x in ('::lt', '::le', '::gt', '::ge', '::eq', '::ne')):
                sides = e2[2]
            else:
                continue
            for own, other in ((sides[0], sides[1]), (sides[1], sides[0])):
                mine = any(is_field(own, f_, 'Machine') for f_ in MACHINE_LIMITS) or is_field(own, 'allowed_blocked_microsec', 'MachineRuntime') or \
                    (own[0] in ('ref', 'refv') and (any(is_field(own[1], f_, 'Machine') for f_ in MACHINE_LIMITS) or is_field(own[1], 'allowed_blocked_microsec', 'MachineRuntime')))
                if not mine or num(other) is not None:
                    continue
                n += 1
                bad = [x for x in walk(other) if isinstance(x, tuple) and x and
                       ((x[0] == 'fld' and x[2].endswith('Framework') and x[3] in SHARED_ACCOUNTING + ('blocking_duration',)) or
                        (x[0] == 'local' and x[1] in shared_locals))]
                rep.ob(rid, fn, 'own-limit-vs-own-accounting:' + shape(own)[-40:], not bad,
                       '%s compared with %s' % (shape(own), shape(other)[:120]) + ('' if not bad else ' -- reads framework-wide %s' % shape(bad[0])))
    rep.count_floor(rid, 'comparisons of a machine\'s own limits', n, 3)


def check_C10(ctx, rep):
    prog, an = ctx.prog, ctx.an
    F = fw_fns(prog)
    rep.rule('C10.R1', 'inside the per-machine step functions every write to framework state goes through an element of a per-machine '
             'vector selected by the machine index parameter, or to a sanctioned shared field {rng: excluded by the deterministic-sampling '
             'premise; signal_pending: signals}')
    rep.rule('C10.R2', 'no step function indexes a per-machine vector (runtime, actions, counter_zeroed_once, machines) with anything '
             'but its machine index parameter')
    rep.rule('C10.R3', 'every global event (TriggerEvent variants without a machine id, and BlockingBegin) is delivered to every machine: '
             'each path through its arm of process_event runs the 0..runtime.len() loop and each iteration calls transition(mi, same event); '
             'id-carrying events return early only when the id is out of range and otherwise call transition(id, same event)')
    rep.rule('C10.R5', 'an event for an unknown machine id reaches no machine: MachineId::from_raw / into_raw are identity wrappers around '
             'usize, so the id tested against runtime.len() is the id that was reported')
    check_helpers_ids(ctx, rep, 'C10.R5')
    sanctioned = {'rng': 'random stream (excluded by the property\'s premise)', 'signal_pending': 'signals are a sanctioned coupling'}
    n_idx = 0
    for name in STEP_FNS:
        fn = F[name]
        fa = an.get(fn)
        has_mi = len(fn.inputs) >= 2 and fn.inputs[1] == 'usize'
        for (pe, v, site, mp) in stores(fa):
            root = root_of(pe)
            if root[0] == 'local':
                continue
            chain = field_chain(pe)
            if not chain:
                rep.ob('C10.R1', fn, 'store:' + show(pe), False, 'store through an unclassified pointer')
                continue
            top = chain[0]
            if top in sanctioned:
                rep.ob('C10.R1', fn, 'store:' + top, True, 'sanctioned: ' + sanctioned[top])
                continue
            if top in PER_MACHINE_VECS:
                # find the index right above the vector field
                e = unload(pe)
                ix = None
                x = e
                while isinstance(x, tuple) and x and x[0] in ('fld', 'var', 'view', 'idx', 'deref'):
                    if x[0] == 'idx' and is_field(x[1], top, 'Framework'):
                        ix = x[2]
                    x = x[1]
                rep.ob('C10.R1', fn, 'store:%s[..].%s' % (top, '.'.join(chain[1:])), has_mi and ix == ('param', 2), 'store to %s' % show(pe))
                continue
            rep.ob('C10.R1', fn, 'store:' + top, False, 'write to shared framework field %s in a per-machine step (%s)' % (top, show(pe)))
        # &mut borrows of framework fields handed to callees
        for (b, f, args, t) in calls(fa):
            for i, a in enumerate(args):
                op = t['a'][i]
                pl = op.get('m') or op.get('c')
                if pl is None or pl['pr'] or not fa.fn.local_ty(pl['l']).startswith('&mut'):
                    continue
                if a == ('param', 1):
                    ok = f.get('crate') == FW and callee_str(f).split('::')[-1] in STEP_FNS
                    rep.ob('C10.R1', fn, 'passes-self-to:' + callee_str(f).split('::')[-1], ok, '&mut self handed to %s' % callee_str(f))
                    continue
                if a[0] == 'ref':
                    chain = field_chain(a[1])
                    if root_of(a[1])[0] == 'local' or not chain:
                        continue
                    top = chain[0]
                    if top in sanctioned:
                        continue
                    if decl_matches(f, ('IndexMut::index_mut',)):
                        n_idx += 1
                        continue
                    rep.ob('C10.R1', fn, 'mut-borrow:%s->%s' % (top, callee_str(f).split('::')[-1]), False, '&mut %s handed to %s' % (show(a[1]), callee_str(f)))
        # R2 all index uses
        seen_ix = 0
        for b in sorted(fa.cfg.reach):
            bb = fa.blocks[b]
            exprs = []
            for k, s in enumerate(bb['s']):
                if 'p' in s:
                    exprs.append(fa.place_expr(s['p'], (b, k)))
                    if s['rv']['k'] != 'setdiscr':
                        exprs.append(fa.rvalue(s['rv'], (b, k)))
            t = bb['t']
            if t['k'] == 'call':
                exprs.append(fa.call_value(t, (b, len(bb['s']))))
            elif t['k'] == 'switch':
                exprs.append(fa.operand(t['d'], (b, len(bb['s']))))
            for e in exprs:
                for x in walk(e):
                    if isinstance(x, tuple) and x and x[0] == 'idx':
                        basef = last_field(x[1])
                        if basef and basef[1] in PER_MACHINE_VECS and (basef[0].endswith('Framework')):
                            seen_ix += 1
                            if name.startswith('below_'):
                                # the predicates normally receive &runtime[mi] / &machines[mi]; handed the index itself they
                                # may index with exactly that parameter
                                own = len(fn.inputs) >= 2 and fn.inputs[1] == 'usize' and x[2] == ('param', 2)
                                rep.ob('C10.R2', fn, 'index:' + basef[1], own, 'limit predicate indexes %s with %s' % (basef[1], show(x[2])))
                            else:
                                rep.ob('C10.R2', fn, 'index:' + basef[1], x[2] == ('param', 2), '%s indexed with %s' % (basef[1], show(x[2])))
        if not name.startswith('below_'):
            rep.count_floor('C10.R2', 'per-machine index uses in %s' % name, seen_ix, 1)
    # R3 global delivery
    pe_fn = F['process_event']
    fa = an.get(pe_fn)
    arms = event_arms(prog, fa)
    tev = {v['name']: v for v in prog.adt('maybenot::event::TriggerEvent')['variants']}
    evs = set(prog.variants('maybenot::event::Event'))
    loops = fa.cfg.loops()
    pf = an.paths(pe_fn, history=True, record_calls=lambda f: callee_str(f).endswith('Framework::<M, R, T>::transition'), tag='tr')
    for var, head in sorted(arms.items()):
        if var not in evs:
            rep.ob('C10.R3', pe_fn, 'arm:%s:event-exists' % var, False, 'no Event::%s' % var)
            continue
        has_id = any(f['name'] == 'machine' for f in tev[var]['fields'])
        region = fa.cfg.reachable_from(head)
        tcalls = [(b, args) for (b, f, args, t) in calls(fa) if b in region and callee_str(f).endswith('Framework::<M, R, T>::transition')
                  and args[2][0] == 'agg' and args[2][2] == var and fa.cfg.dominates(head, b)]
        broadcast = (not has_id) or var == 'BlockingBegin'
        if broadcast and not tcalls:
            # the loop may live in a private helper: helper(self, Event::X) that delivers its event argument to every machine
            hcalls = [(b, f, args) for (b, f, args, t) in calls(fa) if b in region and fa.cfg.dominates(head, b) and f.get('crate') == FW
                      and any(a[0] == 'agg' and a[1].endswith('event::Event') and a[2] == var for a in args)]
            okh = len(hcalls) == 1
            if okh:
                hb, hf, hargs = hcalls[0]
                helper = prog.fns.get(callee_key(hf))
                ei = [i for i, a in enumerate(hargs) if a[0] == 'agg' and a[2] == var][0] + 1
                okh = helper is not None and hargs[0] == ('param', 1) and broadcast_helper_ok(ctx, helper, ei)
                lo, hi = min_max_on_paths(fa, head, {hb}, region)
                okh = okh and lo >= 1
            rep.ob('C10.R3', pe_fn, 'arm:%s:delivered-through-broadcast-helper' % var, okh,
                   'the arm delivers Event::%s to every machine through a private helper' % var)
            continue
        # a broadcast arm may have several exclusive sites inside its loop (`if Some(mi) == owner { own(mi) } else { other(mi) }`):
        # what matters is one delivery per iteration, checked below
        one_site = len(tcalls) == 1 or (broadcast and len(tcalls) >= 1)
        rep.ob('C10.R3', pe_fn, 'arm:%s:one-transition-site' % var, one_site, 'transition(.., Event::%s) sites in the arm: %d' % (var, len(tcalls)))
        if not one_site:
            continue
        cb, cargs = tcalls[0]
        cbs = {b for (b, a_) in tcalls}
        if broadcast:
            hs = [h for h, body in loops.items() if cbs <= body and fa.cfg.dominates(head, h)]
            ok = len(hs) == 1 and all(is_range_loop_var(fa, a_[1]) for (b_, a_) in tcalls)
            rng = False
            for (site, v2, flds, ln) in aggregates(fa, 'ops::Range') + aggregates(fa, 'range::Range'):
                if fa.cfg.dominates(head, site[0]) and fa.cfg.dominates(site[0], cb):
                    if is_const(flds.get('start'), 0) and is_call(flds.get('end'), 'len') and contains(flds.get('end'), lambda x: isinstance(x, tuple) and x and x[0] == 'fld' and x[3] == 'runtime'):
                        rng = True
            rep.ob('C10.R3', pe_fn, 'arm:%s:loops-over-all-machines' % var, ok and rng, 'transition(%s, %s) inside for 0..runtime.len()' % (show(cargs[1]), var))
            if not hs:
                continue
            h = hs[0]
            body = loops[h]
            # every path from the arm head to the return goes through the loop header
            lo, hi = min_max_on_paths(fa, head, {h}, region)
            rep.ob('C10.R3', pe_fn, 'arm:%s:no-path-skips-the-loop' % var, lo >= 1, 'paths from the arm head to return pass the loop header: min %s' % lo)
            # every iteration calls transition
            ok_it = True
            wit = None
            # judged per iteration (facts of one pass through the loop body only)
            pfi = an.paths(pe_fn, history=True, record_calls=lambda f: callee_str(f).endswith('Framework::<M, R, T>::transition'), tag='tr', entry=h)
            for (x, lab) in fa.cfg.pred[h]:
                if x in body:
                    for S in pfi.on_edge(x, h):
                        if sum(1 for f in S if f[0] == 'called' and f[3] in cbs) != 1:
                            ok_it, wit = False, S
            rep.ob('C10.R3', pe_fn, 'arm:%s:every-iteration-transitions' % var, ok_it, '' if ok_it else 'iteration without transition: ' + show_facts(wit))
            # loop exits only by exhausting the range (no break/return inside)
            exits = [(x, y) for x in body for (y, l) in fa.cfg.succ[x] if y not in body]
            ok_ex = all(fa.blocks[y]['t']['k'] == 'unreachable' or (fa.blocks[x]['t']['k'] == 'switch' and any(f[0] == 'variant' and f[2] == 'None' for f in pf.edge_facts(x, l))) for x in body for (y, l) in fa.cfg.succ[x] if y not in body)
            rep.ob('C10.R3', pe_fn, 'arm:%s:loop-runs-to-exhaustion' % var, ok_ex, 'loop exits: %d' % len(exits))
        else:
            # id-carrying: every return in the arm either follows the transition or the out-of-range edge
            ok_id = is_call(cargs[1], 'into_raw') and is_field(cargs[1][2][0], 'machine', 'TriggerEvent')
            rep.ob('C10.R3', pe_fn, 'arm:%s:transition-for-event-id' % var, ok_id, 'transition(%s, %s)' % (show(cargs[1]), var))
            for r in fa.cfg.returns:
                for S in pf.at_entry(r):
                    if not any(f[0] == 'variant' and f[2] == var and 'param' in str(f[1]) for f in S):
                        continue
                    called = any(f[0] == 'called' and f[3] == cb for f in S)
                    oor = cmp_int_true(S, 'le', lambda l: is_call(l, 'len'), lambda r2: is_call(r2, 'into_raw')) or \
                        checked_access_fact(S, lambda i: is_call(i, 'into_raw'), False)
                    # an ended machine ignores every event (transition returns at once for STATE_END: C04.R4), so returning without
                    # the call when the event's own machine is known to have ended changes nothing
                    def own_state(e):
                        e = unload(e)
                        return is_field(e, 'current_state', 'MachineRuntime') and contains(e, lambda y: is_call(y, 'into_raw'))
                    is_end = lambda e: (isinstance(e, tuple) and e and e[0] == 'cdef' and e[1].endswith('STATE_END')) or is_const(e, int(prog.const_val('maybenot::constants::STATE_END')))
                    ended = has_cmp(S, 'eq', own_state, is_end, True) or has_cmp(S, 'ne', own_state, is_end, False)
                    rep.ob('C10.R3', pe_fn, 'arm:%s:return-only-after-transition-or-out-of-range' % var, called or oor or ended, '' if (called or oor or ended) else show_facts(S))
    from .rules_limits import rule_dispatch_discipline
    rule_dispatch_discipline(ctx, rep, 'C10.R3', ())
    check_every_event_processed(ctx, rep, 'C10.R3')
    rep.assumptions += ['the framework-wide fraction limits are a sanctioned coupling (reads of the global counters in the limit predicates)',
                        'shared blocking state reported by the integrator is a sanctioned coupling']
    check_own_accounting(ctx, rep, 'C10.R4')
    return 'inventory of shared writes and index uses in the per-machine step functions; delivery completeness of global events'


# =================================================================== C06

def check_C06(ctx, rep):
    prog, an = ctx.prog, ctx.an
    rep.rule('C06.R1', 'the transition vector is selected by Event::to_usize(event), the same function State::new uses to store it; '
             'an empty slot returns None')
    rep.rule('C06.R2', 'the draw is Rng::gen_range on the half-open Range 0.0..1.0 (constants), drawn once, outside the loop')
    rep.rule('C06.R3', 'in the loop over the whole vector the running sum (initially 0.0) is increased by the current element\'s '
             'probability BEFORE the strict comparison r < sum, and the value returned on its true edge is the target of that same element')
    rep.rule('C06.R4', 'every other path (vector exhausted, no vector) returns None')
    fn = prog.fn(FW, 'State', 'sample_state')
    fa = an.get(fn)
    pf = an.paths(fn, history=True)

    def slot_ok(e):
        """e is self.transitions[to_usize(event)]"""
        for x in walk(e):
            if isinstance(x, tuple) and x and x[0] == 'idx' and is_field(x[1], 'transitions', 'State') and root_of(x[1]) == ('param', 1):
                ix = x[2]
                return is_call(ix, 'Event::to_usize') and ix[2][0] in (('refv', ('param', 2)), ('param', 2), ('ref', ('local', 2)))
        return False
    # the draw
    draws = [(b, f, args, t) for (b, f, args, t) in calls(fa) if callee_decl(f).endswith('Rng::gen_range')]
    rep.count_exact('C06.R2', 'gen_range calls in sample_state', len(draws), 1)
    loops = fa.cfg.loops()
    rv = None
    for (b, f, args, t) in draws:
        rng_arg, range_arg = args[0], args[1]
        ok = range_arg[0] == 'agg' and (range_arg[1].endswith('ops::Range') or range_arg[1].endswith('range::Range')) and not range_arg[1].endswith('RangeInclusive')
        if ok:
            d = dict(range_arg[3])
            ok = is_const(d.get('start'), 0.0) and is_const(d.get('end'), 1.0) and d['start'][1] in ('f32', 'f64')
        rep.ob('C06.R2', fn, 'half-open-unit-range', ok, 'gen_range(%s)' % show(range_arg))
        rep.ob('C06.R2', fn, 'draw-from-caller-rng', rng_arg == ('param', 3), 'rng = %s' % show(rng_arg))
        rep.ob('C06.R2', fn, 'draw-outside-loop', not any(b in body for body in loops.values()), '')
        rv = fa.call_value(t, (b, len(fa.blocks[b]['s'])))
    if rv is None:
        return ''
    # the loop and its element
    nexts = [(b, f, args, t) for (b, f, args, t) in calls(fa) if callee_str(f).endswith('Iterator>::next') or callee_decl(f).endswith('Iterator::next')]
    rep.count_exact('C06.R3', 'iterator next() sites', len(nexts), 1)
    for (b, f, args, t) in nexts:
        it = args[0]
        # receiver is &mut local iter; its definition chain: into_iter(iter(view(vector)))
        itl = it[1][1] if it[0] == 'ref' and it[1][0] == 'local' else None
        okc = False
        if itl is not None:
            dv = [fa.def_value(itl, bb, kk) for (bb, kk, part) in fa.defs().get(itl, [])]
            if len(dv) == 1:
                x = dv[0]
                depth = 0
                while is_call(x, 'into_iter') and depth < 3:
                    x = x[2][0]
                    depth += 1
                okc = is_call(x, '<impl [T]>::iter') and slot_ok(x)
        rep.ob('C06.R3', fn, 'iterates-whole-selected-vector', okc, 'iterator = %s' % (shape(dv[0]) if itl is not None and dv else '?'))
    # comparisons
    cmps = []
    for (b, e) in switch_conditions(fa):
        if e[0] == 'bin' and e[1] in ('Lt', 'Gt', 'Le', 'Ge') and (strip_sites(rv) in (strip_sites(e[2]), strip_sites(e[3]))):
            cmps.append((b, e))
    rep.count_exact('C06.R3', 'comparisons of the draw', len(cmps), 1)
    for (b, e) in cmps:
        op = e[1]
        l, r = e[2], e[3]
        if op == 'Gt':
            op, l, r = 'Lt', r, l
        ok = op == 'Lt' and strip_sites(l) == strip_sites(rv)
        rep.ob('C06.R3', fn, 'strict-less-than', ok, 'compares %s' % shape(e))
        s = r
        oks = s[0] == 'bin' and s[1] == 'Add' and s[4] == 'f32' or (s[0] == 'bin' and s[1] == 'Add')
        elem = None
        if oks:
            prev, inc = s[2], s[3]
            incu = unload(inc)
            oks = incu[0] == 'fld' and incu[3] == '1' and 'Trans' in incu[2]
            if oks:
                elem = incu[1]
                # prev is the running sum: 0.0 initially, or the previous sum
                alts = prev[1] if prev[0] == 'phi' else (prev,)
                oks = all(is_const(a, 0.0) or a[0] == 'rec' or (a[0] == 'bin' and a[1] == 'Add') for a in alts) and any(is_const(a, 0.0) for a in alts)
        rep.ob('C06.R3', fn, 'sum-updated-before-compare-with-current-probability', bool(oks), 'sum = %s' % shape(s))
        # the element is the payload of next()
        oke = elem is not None and contains(elem, lambda x: is_call(x, 'Iterator>::next') or is_call(x, 'Iterator::next'))
        rep.ob('C06.R3', fn, 'probability-of-current-element', oke, '')
        # the true edge returns Some(elem.0)
        true_t = None
        t = fa.blocks[b]['t']
        for (y, lab) in fa.cfg.succ[b]:
            facts = pf.edge_facts(b, lab)
            if any(f[0] == 'cmp' and f[5] is True for f in facts):
                true_t = y
        got = False
        for (rb, rk, v) in ret_defs(fa):
            if true_t is not None and fa.cfg.dominates(true_t, rb):
                got = True
                okr = v[0] == 'agg' and v[2] == 'Some'
                if okr:
                    tv = unload(dict(v[3])['0'])
                    okr = tv[0] == 'fld' and tv[3] == '0' and 'Trans' in tv[2] and elem is not None and strip_sites(tv[1]) == strip_sites(elem)
                rep.ob('C06.R3', fn, 'returns-target-of-same-element', okr, 'returns %s' % shape(v))
        rep.ob('C06.R3', fn, 'true-edge-returns', got, '')
        # sum local writers
    # R4/R1 returns
    for (rb, rk, v) in ret_defs(fa):
        none_by_residual = is_call(v, 'FromResidual::from_residual') and fn.output.startswith('core::option::Option')
        if (v[0] == 'agg' and v[2] == 'None') or none_by_residual:
            for S in pf.at(rb, rk):
                no_vec = any(f[0] == 'variant' and f[2] == 'None' and slot_ok(f[1]) for f in S)
                # `self.transitions[..].as_ref()?`: the Break edge of Try::branch on the slot
                no_vec = no_vec or any(f[0] == 'variant' and f[2] == 'Break' and is_call(unload(f[1]), '::branch') and slot_ok(f[1]) for f in S)
                exhausted = any(f[0] == 'variant' and f[2] == 'None' and contains(f[1], lambda x: is_call(x, 'Iterator>::next') or is_call(x, 'Iterator::next')) for f in S)
                rep.ob('C06.R4', fn, 'None-only-when-no-vector-or-exhausted', no_vec or exhausted, '' if (no_vec or exhausted) else show_facts(S))
        elif v[0] == 'agg' and v[2] == 'Some':
            for S in pf.at(rb, rk):
                hit = any(f[0] == 'cmp' and f[1] == 'lt' and f[5] is True and strip_sites(rv) == f[2] for f in S)
                rep.ob('C06.R3', fn, 'Some-only-on-hit', hit, '')
        else:
            rep.ob('C06.R4', fn, 'return-shape', False, 'returns %s' % shape(v))
    # the selected slot: Some edge leads to the loop
    sel = [f for (b, e) in switch_conditions(fa) if e[0] == 'discr' and slot_ok(e[1]) for f in [b]]
    rep.ob('C06.R1', fn, 'slot-selected-by-to_usize', len(sel) == 1, 'switches on transitions[to_usize(event)]: %d' % len(sel))
    # writer side: State::new
    nw = prog.fn(FW, 'State', 'new')
    na = an.get(nw)
    w_ok = False
    for (pe, v, site, mp) in stores(na):
        for x in walk(pe):
            if isinstance(x, tuple) and x and x[0] == 'idx' and is_call(x[2], 'Event::to_usize'):
                w_ok = True
    rep.ob('C06.R1', nw, 'writer-indexes-by-to_usize', w_ok, 'State::new stores vectors at transitions[event.to_usize()]')
    tu = prog.fn(FW, 'Event', 'to_usize')
    ta = an.get(tu)
    rv2 = [v for (b, k, v) in ret_defs(ta)]
    okt = len(rv2) == 1 and rv2[0][0] == 'cast' and rv2[0][3][0] == 'discr'
    rep.ob('C06.R1', tu, 'to_usize-is-discriminant', okt, 'returns %s' % (shape(rv2[0]) if rv2 else '?'))
    n_ev = len(prog.variants('maybenot::event::Event'))
    rep.ob('C06.R1', 'constants', 'EVENT_NUM-equals-variants', int(prog.const_val('maybenot::constants::EVENT_NUM')) == n_ev, 'EVENT_NUM vs %d Event variants' % n_ev)
    rep.assumptions += ['the measure of each target over the draw values (f32 sums, rand float generation) is not decided',
                        'probabilities are validated by C12']
    rep.rule('C06.R5', 'premise: the vectors sample_state walks were accepted by State::validate, which lets a transition pass only with a '
             'NaN-safely established probability in (0, 1], a target in range or a pseudo state, no duplicate target, and a vector sum <= 1 '
             '(a NaN probability would make every later target unreachable)')
    from .rules_valid import check_state_vectors
    check_state_vectors(ctx, rep, 'C06.R5', 'C06.R5')
    rep.rule('C06.R7', 'the slot an event selects is the slot its transitions were declared in: Event keeps its variant order under the same '
             'format VERSION (to_usize is the discriminant; a parsed machine stores its vectors by position)')
    from .rules_valid import check_wire_layout
    check_wire_layout(ctx, rep, 'C06.R7')
    rep.rule('C06.R6', 'the vectors a framework samples from are the ones that were declared: Clone for Machine, State and Trans is the '
             'compiler-derived field-wise clone (clone / clone_from cannot leave a stale or missing vector behind)')
    for ty in ('machine::Machine', 'state::State', 'state::Trans'):
        imps = [i for i in prog.impls if i['crate'] == FW and i['trait'].endswith('clone::Clone') and i['self_ty'].split('<')[0].endswith(ty)]
        rep.ob('C06.R6', ty, 'derived-clone', len(imps) == 1 and imps[0]['derived'], 'Clone impls: %d, derived: %s' % (len(imps), [i['derived'] for i in imps]))
    return 'sampling skeleton of State::sample_state: selection, half-open draw, update-before-compare order, strictness, target identity, residual None'


# =================================================================== C05

def check_C05(ctx, rep):
    from .effects import Closure
    prog, an = ctx.prog, ctx.an
    F = fw_fns(prog)
    rep.rule('C05.R1', 'no source of ambient input (wall clock, OS randomness, hash iteration order, environment, threads, mutable or '
             'interior-mutable statics, thread-locals) is reachable in the call graph from Framework::new / trigger_events / num_machines, '
             'followed through maybenot, rand, rand_core, rand_distr and the other dependencies with facts; randomness is drawn only through '
             'the caller\'s R: RngCore, time only from the current_time arguments. Sanctioned: the membership-only HashSet in State::validate')
    rep.rule('C05.R2', 'Clone for Framework, MachineRuntime, SignalTarget and TriggerAction is the compiler-derived field-wise clone')
    rep.rule('C05.R3', 'documented order: trigger_events processes the events slice front to back with one process_event per element; '
             'every broadcast loop runs over 0..runtime.len() ascending (Range iterator, no rev/step); LimitReached and CounterZero are '
             'raised by direct calls inside the step that detects them; the signal round comes after the event loop')
    roots = [F['new'], F['trigger_events'], F['num_machines']] + prog.closures_of(F['trigger_events'])
    cl = Closure(prog, roots)
    effs = cl.effects()
    rep.extra['call_graph'] = {'functions_reached': len(cl.nodes), 'leaf_calls_without_facts': len(cl.leaves),
                               'parameter_calls': cl.param_calls, 'unresolved_non_parameter_calls': len(cl.unresolved),
                               'indirect_calls': len(cl.indirect), 'crates_reached': sorted({f.crate for f in cl.nodes.values()})}
    rep.count_floor('C05.R1', 'functions in the closure of the framework entry points', len(cl.nodes), 40)
    for r in roots:
        rep.analysed(r)
    sanction_hits = 0
    for (kind, k, path) in effs:
        caller = prog.fns.get(k)
        cname = caller.short() if caller else k
        if kind == 'hash-order' and caller is not None and caller.crate == FW and caller.name == 'validate' and (caller.impl_adt or '').endswith('State'):
            m = path.split('::')[-1]
            ok = m in ('new', 'with_capacity', 'contains', 'insert', 'len', 'is_empty') and 'HashSet' in path
            sanction_hits += 1
            rep.ob('C05.R1', caller, 'sanctioned-hashset:' + m, ok, 'HashSet used for membership only (%s)' % path)
            continue
        if kind == 'hash-order' and caller is not None and caller.crate in ('std', 'core', 'alloc', 'hashbrown'):
            continue
        rep.ob('C05.R1', cname, 'effect:%s:%s' % (kind, path.split('<')[0][-60:]), False,
               '%s source %s reachable via %s' % (kind, path, ' -> '.join(cl.chain(k)[-6:])))
    rep.ob('C05.R1', '<inventory>', 'effect-sources-reachable', True, 'effect sources found: %d, of which sanctioned: %d' % (len(effs), sanction_hits))
    for k in cl.indirect:
        fnk = prog.fns.get(k)
        if fnk is not None and fnk.crate == FW:
            rep.ob('C05.R1', fnk, 'indirect-call', False, 'call through a function pointer / dyn in %s' % fnk.short())
    # R2 derived clones
    for ty in ('framework::Framework', 'framework::MachineRuntime', 'framework::SignalTarget', 'action::TriggerAction', 'framework::MachineId'):
        imps = [i for i in prog.impls if i['crate'] == FW and i['trait'].endswith('clone::Clone') and i['self_ty'].split('<')[0].endswith(ty)]
        rep.ob('C05.R2', ty, 'derived-clone', len(imps) == 1 and imps[0]['derived'], 'Clone impls: %d, derived: %s' % (len(imps), [i['derived'] for i in imps]))
    # R3 order
    te = F['trigger_events']
    ta = an.get(te)
    loops = ta.cfg.loops()
    pe_calls = [(b, args) for (b, f, args, t) in calls(ta) if callee_str(f).endswith('::process_event')]
    rep.count_exact('C05.R3', 'process_event call sites', len(pe_calls), 1)
    for (b, args) in pe_calls:
        e = args[1]
        # element of slice::Iter over the events parameter
        ok = contains(e, lambda x: is_call(x, 'Iterator>::next')) and any(b in body for body in loops.values())
        it_ok = False
        for (b2, f2, a2, t2) in calls(ta):
            if callee_str(f2).endswith('into_iter') and a2 and a2[0] == ('param', 2):
                it_ok = True
        rep.ob('C05.R3', te, 'events-processed-in-slice-order', ok and it_ok, 'process_event(%s)' % show(e))
    # loops in framework fns: Range or slice iterators only, no adaptors such as rev/step_by/skip
    bad_adapt = ('::rev', '::step_by', '::skip', '::take', '::filter', '::chain', '::rev')
    for name, fn in F.items():
        fa = an.get(fn)
        for (b, f, args, t) in calls(fa):
            cs = callee_str(f)
            if any(cs.endswith(x) for x in bad_adapt) and 'Option' not in cs and name not in ():
                if name == 'trigger_events' and cs.endswith('filter_map'):
                    continue
                if cs.endswith('::filter') and not contains(args[0], lambda x: x == ('param', 2)):
                    # order preserving, and not applied to the events: which machines a filtered machine loop
                    # may skip is the business of the rules of the loop's own property (C09.R3)
                    continue
                rep.ob('C05.R3', fn, 'iterator-adaptor:' + cs.split('::')[-1], 'Option' in cs, '%s in %s' % (cs, name))
    # internal events raised by direct calls
    dl = an.get(F['decrement_limit'])
    uc = an.get(F['update_counter'])
    ok_lr = any(callee_str(f).endswith('::transition') and a[2][0] == 'agg' and a[2][2] == 'LimitReached' for (b, f, a, t) in calls(dl))
    ok_cz = any(callee_str(f).endswith('::transition') and a[2][0] == 'agg' and a[2][2] == 'CounterZero' for (b, f, a, t) in calls(uc))
    rep.ob('C05.R3', F['decrement_limit'], 'LimitReached-raised-immediately', ok_lr, '')
    rep.ob('C05.R3', F['update_counter'], 'CounterZero-raised-immediately', ok_cz, '')
    rep.assumptions += ['agreement with the documented operational semantics over histories is NOT decided (needs an executable reference)',
                        'std functions without MIR in the facts are judged by name against the effect-source table',
                        "the caller's R, T, M implementations are pure functions of their own state"]
    # the stated semantics themselves: the clauses C05 names are decided by the rule sets of their own properties; a change that breaks
    # one of them changes the actions a given input history produces
    rep.rule('C05.R4', 'the operational semantics clauses named by the property hold: limits and LimitReached (rules of C07), counters and '
             'CounterZero (C08), the signal round (C09), delivery of every event to every machine in index order (C10), the padding and '
             'blocking budgets that decide whether an action is returned (C02, C03) and the shape of a returned action (C04)')
    from .report import Report
    from .rules_limits import check_C07, check_C02, check_C03
    for (pid2, chk) in (('C02', check_C02), ('C03', check_C03), ('C04', check_C04), ('C07', check_C07), ('C08', check_C08), ('C09', check_C09), ('C10', check_C10)):
        sub = Report(rep.pid, rep.tier)
        try:
            chk(ctx, sub)
        except AnchorMissing as e:
            sub.fail_closed(pid2 + '.anchor', str(e))
        bad = sub.failing()
        if bad and ctx.n2_ctx() is not None:
            # each sibling is judged like its own check: on the default normal form, else on N2
            sub2 = Report(rep.pid, rep.tier)
            try:
                chk(ctx.n2_ctx(), sub2)
            except AnchorMissing as e:
                sub2.fail_closed(pid2 + '.anchor', str(e))
            if not sub2.failing():
                sub, bad = sub2, []
        rep.ob('C05.R4', '<semantics>', 'clauses-of-' + pid2, not bad,
               '%d obligations of %s judged' % (len(sub.obligations), pid2) + ('' if not bad else '; first failing: %s at %s: %s' % (bad[0]['rule'], bad[0]['fn'], bad[0]['construct'])))
        rep.functions |= sub.functions
    return 'ambient-effect closure of the framework entry points over the cross-crate call graph; derived clones; processing-order skeleton; semantics clauses of C07-C10'


# =================================================================== shared helper-contract rules

def check_helpers_ids(ctx, rep, rid):
    """MachineId accessors are identity wrappers; num_machines is machines.as_ref().len()"""
    prog, an = ctx.prog, ctx.an
    ir = prog.fn(FW, 'MachineId', 'into_raw')
    fr = prog.fn(FW, 'MachineId', 'from_raw')
    rv = [v for (b, k, v) in ret_defs(an.get(ir))]
    ok = len(rv) == 1 and unload(rv[0])[0] == 'fld' and unload(rv[0])[3] == '0' and unload(rv[0])[1] in (('param', 1), ('local', 1))
    rep.ob(rid, ir, 'into_raw-is-identity', ok, 'returns %s' % (shape(rv[0]) if rv else '?'))
    rv = [v for (b, k, v) in ret_defs(an.get(fr))]
    ok = len(rv) == 1 and rv[0][0] == 'agg' and rv[0][1].endswith('MachineId') and dict(rv[0][3]).get('0') == ('param', 1)
    rep.ob(rid, fr, 'from_raw-is-identity', ok, 'returns %s' % (shape(rv[0]) if rv else '?'))
    nm = prog.fn(FW, 'Framework', 'num_machines')
    rv = [v for (b, k, v) in ret_defs(an.get(nm))]
    ok = len(rv) == 1 and is_call(rv[0], '::len') and contains(rv[0], lambda x: isinstance(x, tuple) and x and x[0] == 'fld' and x[3] == 'machines')
    rep.ob(rid, nm, 'num_machines-is-machines-len', ok, 'returns %s' % (shape(rv[0]) if rv else '?'))


def check_initial_state(ctx, rep, rid, only=None):
    """the initial Framework / MachineRuntime values built by Framework::new"""
    prog, an = ctx.prog, ctx.an
    nw = prog.fn(FW, 'Framework', 'new')
    fa = an.get(nw)
    # positions of the public constructor's parameters (API order), not their names
    names = {'machines': 1, 'max_padding_frac': 2, 'max_blocking_frac': 3, 'current_time': 4, 'rng': 5}
    if len(nw.inputs) != 5 or nw.inputs[1] != 'f64' or nw.inputs[2] != 'f64':
        raise AnchorMissing('Framework::new(machines, f64, f64, current_time, rng) signature')

    def par(n):
        i = names.get(n)
        return lambda e: i is not None and (e == ('param', i) or unload(e) == ('local', i) or e == ('load', ('local', i)) or (isinstance(e, tuple) and e and e[0] == 'load' and e[1] == ('local', i)))
    zero_dur = lambda e: is_call(e, 'Duration::zero')
    table = {
        'current_time': par('current_time'), 'framework_start': par('current_time'), 'blocking_started': par('current_time'),
        'max_padding_frac': par('max_padding_frac'), 'max_blocking_frac': par('max_blocking_frac'),
        'rng': par('rng'), 'machines': par('machines'),
        'blocking_active': lambda e: is_const(e, 0), 'normal_sent_packets': lambda e: is_const(e, 0), 'padding_sent_packets': lambda e: is_const(e, 0),
        'blocking_duration': zero_dur, 'signal_pending': lambda e: e[0] == 'agg' and e[2] == 'None',
    }
    aggs = aggregates(fa, 'framework::Framework')
    rep.count_exact(rid, 'Framework aggregates in new', len(aggs), 1)
    for (site, var, flds, ln) in aggs:
        for f, pred in table.items():
            if only is not None and f not in only:
                continue
            if f not in flds:
                rep.ob(rid, nw, 'init:' + f, False, 'field %s missing from the Framework aggregate' % f)
                continue
            rep.ob(rid, nw, 'init:' + f, bool(pred(flds[f])), '%s = %s' % (f, shape(flds[f])))
    rt = {
        'current_state': lambda e: is_const(e, 0), 'padding_sent': lambda e: is_const(e, 0), 'normal_sent': lambda e: is_const(e, 0),
        'counter_a': lambda e: is_const(e, 0), 'counter_b': lambda e: is_const(e, 0), 'blocking_duration': zero_dur,
        'machine_start': None,
        'allowed_blocked_microsec': lambda e: is_call(e, 'Duration::from_micros') and is_field(e[2][0], 'allowed_blocked_microsec', 'Machine'),
    }
    found = []
    for fn in [nw] + [g for g in prog.crate_fns(FW) if g.has_body and not g.derived and (g.impl_adt or '').endswith('MachineRuntime')]:
        fa2 = an.get(fn)
        for (site, var, flds, ln) in aggregates(fa2, 'framework::MachineRuntime'):
            found.append((fn, flds))
    rep.count_exact(rid, 'MachineRuntime constructions', len(found), 1)
    for (fn, flds) in found:
        for f, pred in rt.items():
            if only is not None and f not in only:
                continue
            if f not in flds:
                rep.ob(rid, fn, 'runtime-init:' + f, False, 'missing')
                continue
            if f == 'machine_start':
                e = flds[f]
                if fn is nw:
                    ok = par('current_time')(e)
                else:
                    # helper constructor: the value must be a parameter that Framework::new fills with current_time
                    ok = e[0] == 'param'
                    for (b, f2, a, t) in calls(fa):
                        if callee_key(f2) == fn.key and e[0] == 'param':
                            ok = ok and par('current_time')(a[e[1] - 1])
                rep.ob(rid, fn, 'runtime-init:' + f, ok, '%s = %s' % (f, shape(e)))
            else:
                rep.ob(rid, fn, 'runtime-init:' + f, bool(pred(flds[f])), '%s = %s' % (f, shape(flds[f])))


def check_time_impl(ctx, rep, rid):
    prog, an = ctx.prog, ctx.an
    z = prog.fn(FW, 'Duration', 'zero', 'Duration')
    rv = [v for (b, k, v) in ret_defs(an.get(z))]
    ok = len(rv) == 1 and ((rv[0][0] == 'cdef' and rv[0][1].endswith('::ZERO') and rv[0][1].startswith('core::time::')) or is_call(rv[0], 'Duration::from_micros') and is_const(rv[0][2][0], 0) or
                           (rv[0][0] in ('ktext', 'const', 'agg') and 'ZERO' in str(rv[0])) or is_call(rv[0], 'Duration::new') and all(is_const(x, 0) for x in rv[0][2]))
    rep.ob(rid, z, 'zero-is-zero', ok, 'returns %s' % (shape(rv[0]) if rv else '?'))
    iz = prog.fn(FW, 'Duration', 'is_zero', 'Duration')
    rv = [v for (b, k, v) in ret_defs(an.get(iz))]
    ok = len(rv) == 1 and is_call(rv[0], 'Duration::is_zero') and contains(rv[0], lambda x: x == ('param', 1))
    rep.ob(rid, iz, 'is_zero-delegates', ok, 'returns %s' % (shape(rv[0]) if rv else '?'))


def check_sample_limit(ctx, rep, rid):
    prog, an = ctx.prog, ctx.an
    fn = prog.fn(FW, 'Action', 'sample_limit')
    fa = an.get(fn)
    pf = an.paths(fn, history=True)
    avars = prog.adt('maybenot::action::Action')['variants']
    mx = prog.const_val('maybenot::constants::STATE_LIMIT_MAX')
    rep.ob(rid, 'constants', 'STATE_LIMIT_MAX-is-u64-max', int(mx) == 2 ** 64 - 1, 'STATE_LIMIT_MAX = %s' % mx)
    n = 0
    for (b, k, v) in ret_defs(fa):
        v = expand_calls(ctx, v)
        alts = v[1] if v[0] == 'phi' else (v,)
        for a in alts:
            n += 1
            if a[0] == 'cdef' and a[1].endswith('STATE_LIMIT_MAX'):
                continue
            ok = a[0] == 'cast' and a[1] == 'FloatToInt' and is_call(a[3], '::round') and is_call(a[3][2][0], 'Dist::sample') and \
                contains(a[3][2][0][2][0], lambda x: isinstance(x, tuple) and x and x[0] == 'fld' and x[3] == 'limit' and x[2].endswith('Action'))
            rep.ob(rid, fn, 'limit-is-rounded-sample-of-limit-dist', ok, 'returns %s' % shape(a))
    rep.count_floor(rid, 'return alternatives of sample_limit', n, 2)
    # a variant with a limit field never returns the "no limit" constant while the limit is set
    for (b, k, v) in ret_defs(fa):
        if v[0] == 'cdef' and v[1].endswith('STATE_LIMIT_MAX'):
            for S in pf.at(b, k):
                var = [f[2] for f in S if f[0] == 'variant' and f[2] in [x['name'] for x in avars]]
                if var and any(fl['name'] == 'limit' for fl in prog.variant('maybenot::action::Action', var[0])['fields']):
                    none = any((f[0] == 'bcall' and f[1].endswith('is_none') and f[3] is True) or (f[0] == 'variant' and f[2] == 'None') for f in S)
                    rep.ob(rid, fn, 'no-limit-constant-only-without-limit:' + var[0], none, '')
