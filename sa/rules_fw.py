"""Framework rules: C01, C04, C05, C06, C08, C09, C10."""
from .core import AnchorMissing, strip_sites, walk, show, callee_str, callee_decl, decl_matches, callee_key, is_param_call
from .paths import stores, calls, field_stores
from .pat import (num, is_const, unload, last_field, is_field, strip_casts, is_call, has_cmp, cmp_int_true,
                  all_paths, show_facts, field_chain, root_of, contains, base_of, find_calls)
from .tables import aggregates, unwrap, src_field, src_base
from .rules_limits import (FW, fw_fns, ret_defs, is_false_const, is_true_const, shape, is_range_loop_var,
                           next_state_payload, count_between, min_max_on_paths, switch_conditions, event_arms)


def idx_of(pe):
    """index expression of an `x[i]` place (possibly below field projections)"""
    e = unload(pe)
    while isinstance(e, tuple) and e and e[0] in ('fld', 'var', 'view'):
        e = e[1]
    if isinstance(e, tuple) and e and e[0] == 'idx':
        return e[2], e[1]
    return None, None


# =================================================================== C04

def check_C04(ctx, rep):
    pid = 'C04'
    prog, an = ctx.prog, ctx.an
    F = fw_fns(prog)
    rep.rule('C04.R1', 'slot discipline: the action vector is written only by new (sized from the machines), trigger_events '
             '(fill(None) on every path before anything else and before every return; the returned iterator is '
             'actions.iter().filter_map(as_ref)), schedule_action and decrement_limit; every store into actions[i] uses the '
             'machine index parameter and every TriggerAction stored there carries machine = MachineId(that same index)')
    rep.rule('C04.R2', 'translation table in schedule_action, exhaustive over Action variants: same-named TriggerAction variant, '
             'bypass/replace/timer copied from the same-named field of the same state action, timeout = from_micros(sample_timeout(action)), '
             'duration = from_micros(sample_duration(action))')
    rep.rule('C04.R3', 'every non-constant return of Action::sample_timeout/sample_duration is f64::min(sample, C) rounded and cast with a '
             'saturating float-to-int cast, C a MAX_SAMPLED_* constant <= 86 400 000 000 microseconds')
    rep.rule('C04.R4', 'END is absorbing: current_state is written only in new and transition, every store in transition lies behind the '
             'false edge of current_state == STATE_END, and schedule_action is reachable only through that check')
    # ---- R1 writers
    writers = {}
    for name, fn in F.items():
        fa = an.get(fn)
        for (pe, v, site) in field_stores(fa, 'actions', 'Framework'):
            writers.setdefault(name, []).append((pe, v, site))
        for (b, f, args, t) in calls(fa):
            for a in args:
                if a[0] == 'ref' and is_field(a[1], 'actions', 'Framework'):
                    ty_mut = any(fa.fn.local_ty((x.get('m') or x.get('c'))['l']).startswith('&mut') for x in t['a'] if (x.get('m') or x.get('c')) and not (x.get('m') or x.get('c'))['pr'])
                    if ty_mut and not decl_matches(f, ('IndexMut::index_mut',)):
                        writers.setdefault(name, []).append((a[1], ('call', callee_str(f)), (b, 0)))
    allowed = {'new', 'trigger_events', 'schedule_action', 'decrement_limit'}
    for name in writers:
        rep.ob('C04.R1', F[name], 'writer:actions', name in allowed, 'actions written in %s' % name)
    # trigger_events: fill(None) dominates everything
    te = F['trigger_events']
    fa = an.get(te)
    fills = []
    for (b, f, args, t) in calls(fa):
        if callee_str(f).endswith('::fill') and args and contains(args[0], lambda x: isinstance(x, tuple) and x and x[0] == 'fld' and x[3] == 'actions'):
            fills.append((b, args))
    rep.count_exact('C04.R1', 'fill of the action vector in trigger_events', len(fills), 1)
    for (b, args) in fills:
        rep.ob('C04.R1', te, 'fill-value-None', args[1][0] == 'agg' and args[1][2] == 'None', 'fill(%s)' % show(args[1]))
        okdom = all(fa.cfg.dominates(b, r) for r in fa.cfg.returns)
        rep.ob('C04.R1', te, 'fill-dominates-every-return', okdom, 'reset of all slots precedes every return')
        # nothing that can schedule happens before: process_event / transition calls are dominated by the fill
        for (b2, f2, a2, t2) in calls(fa):
            if callee_str(f2).endswith('::process_event') or callee_str(f2).endswith('::transition'):
                rep.ob('C04.R1', te, 'fill-before:' + callee_str(f2).split('::')[-1], fa.cfg.dominates(b, b2) and b != b2, '')
    rets = ret_defs(fa)
    for (b, k, v) in rets:
        ok = is_call(v, 'filter_map') and is_call(v[2][0], '::iter') and contains(v[2][0], lambda x: isinstance(x, tuple) and x and x[0] == 'fld' and x[3] == 'actions')
        rep.ob('C04.R1', te, 'returns-iterator-over-slots', ok, 'returns %s' % shape(v))
        if ok:
            clo = v[2][1]
            okc = clo[0] == 'closure'
            if okc:
                cfn = prog.fns.get(clo[1])
                okc = cfn is not None
                if okc:
                    ca = an.get(cfn)
                    cr = ret_defs(ca)
                    okc = len(cr) == 1 and is_call(cr[0][2], 'as_ref') and cr[0][2][2][0] in (('param', 2), ('refv', ('param', 2)))
            rep.ob('C04.R1', te, 'filter-closure-is-as_ref', okc, 'closure maps each slot with Option::as_ref')
    rep.count_exact('C04.R1', 'return sites of trigger_events', len(rets), 1)
    # new: vector sized from machines
    nw = F['new']
    na = an.get(nw)
    aggs = aggregates(na, 'framework::Framework')
    rep.count_exact('C04.R1', 'Framework aggregates in new', len(aggs), 1)
    for (site, var, flds, ln) in aggs:
        v = flds.get('actions')
        ok = v is not None and is_call(v, 'from_elem') and v[2][0][0] == 'agg' and v[2][0][2] == 'None' and is_call(v[2][1], 'len') and 'machines' in str(v[2][1]) or \
            (v is not None and is_call(v, 'from_elem') and v[2][0][0] == 'agg' and v[2][0][2] == 'None' and is_call(v[2][1], 'len') and contains(v[2][1], lambda x: x in (('param', 1), ('local', 1))))
        rep.ob('C04.R1', nw, 'slots-sized-from-machines', bool(ok), 'actions initialised with %s' % shape(v))
    # schedule_action / decrement_limit stores
    for name in ('schedule_action', 'decrement_limit'):
        fn = F[name]
        fa2 = an.get(fn)
        for (pe, v, site) in field_stores(fa2, 'actions', 'Framework'):
            ix, base = idx_of(pe)
            rep.ob('C04.R1', fn, 'slot-index-is-own-machine', ix == ('param', 2), 'store to %s' % show(pe))
            if name == 'decrement_limit':
                rep.ob('C04.R1', fn, 'withdraws-only', v[0] == 'agg' and v[2] == 'None', 'value %s' % shape(v))
    sa = F['schedule_action']
    sfa = an.get(sa)
    ta = aggregates(sfa, 'action::TriggerAction')
    avariants = prog.adt('maybenot::action::Action')['variants']
    tvariants = {v['name']: v for v in prog.adt('maybenot::action::TriggerAction')['variants']}
    seen = {}
    for (site, var, flds, ln) in ta:
        seen.setdefault(var, []).append(flds)
        m = flds.get('machine')
        okm = m is not None and m[0] == 'agg' and m[1].endswith('MachineId') and dict(m[3]).get('0') == ('param', 2)
        rep.ob('C04.R1', sa, 'machine-id-is-slot-index:' + var, okm, 'machine = %s' % shape(m))
    # ---- R2 table
    for av in avariants:
        n = av['name']
        if n not in tvariants:
            rep.ob('C04.R2', sa, 'variant:' + n, False, 'no TriggerAction variant named %s' % n)
            continue
        insts = seen.get(n, [])
        rep.ob('C04.R2', sa, 'variant:' + n, len(insts) == 1, 'TriggerAction::%s constructed %d time(s)' % (n, len(insts)))
        for flds in insts:
            srcf = {f['name']: f for f in av['fields']}
            for tf in tvariants[n]['fields']:
                fname = tf['name']
                e = flds.get(fname)
                if fname == 'machine':
                    continue
                if fname in ('timeout', 'duration'):
                    want = 'sample_timeout' if fname == 'timeout' else 'sample_duration'
                    ok = is_call(e, 'from_micros') and is_call(e[2][0], '::' + want)
                    if ok:
                        act = unwrap(e[2][0][2][0])
                        act = unload(act)
                        # the action sampled is the state's action: (states[state].action as Some).0
                        ok = act[0] == 'fld' and act[1][0] == 'var' and act[1][2] == 'Some' and is_field(act[1][1], 'action', 'State')
                    rep.ob('C04.R2', sa, 'field:%s.%s' % (n, fname), ok, '%s = %s' % (fname, shape(e)))
                elif fname in srcf:
                    sf = src_field(e)
                    ok = sf is not None and sf[0].endswith('action::Action') and sf[1] == n and sf[2] == fname
                    if ok:
                        bs = unload(src_base(e))
                        ok = bs[0] == 'fld' and bs[1][0] == 'var' and bs[1][2] == 'Some' and is_field(bs[1][1], 'action', 'State')
                    rep.ob('C04.R2', sa, 'field:%s.%s' % (n, fname), ok, '%s = %s' % (fname, shape(e)))
                else:
                    rep.ob('C04.R2', sa, 'field:%s.%s' % (n, fname), False, 'no rule for destination field %s' % fname)
    # the action read is machines[mi].states[state] with state the third parameter
    for (b, f, args, t) in calls(sfa):
        pass
    acts = [v for (pe, v, site, mp) in stores(sfa) if is_field(v, 'action', 'State')]
    for v in acts:
        ix, base = idx_of(unload(v)[1] if unload(v)[0] == 'fld' else v)
        mix, mbase = idx_of(base) if base is not None else (None, None)
        ok = ix == ('param', 3) and mix == ('param', 2)
        rep.ob('C04.R2', sa, 'action-of-own-machine-and-state', ok, 'reads %s' % show(v))
    rep.count_floor('C04.R2', 'reads of the state action in schedule_action', len(acts), 1)
    # transition passes next_state as the state
    tr = F['transition']
    tfa = an.get(tr)
    for (b, f, args, t) in calls(tfa):
        if callee_str(f).endswith('::schedule_action'):
            rep.ob('C04.R2', tr, 'schedules-entered-state', args[1] == ('param', 2) and next_state_payload(args[2]), 'schedule_action(%s)' % ', '.join(show(a) for a in args[1:]))
    # ---- R3 clamps
    day = 86400000000.0
    for name, allowed_consts in (('sample_timeout', ('MAX_SAMPLED_TIMEOUT',)), ('sample_duration', ('MAX_SAMPLED_BLOCK_DURATION', 'MAX_SAMPLED_TIMER_DURATION'))):
        fn = prog.fn(FW, 'Action', name)
        fa3 = an.get(fn)
        n_nonconst = 0
        for (b, k, v) in ret_defs(fa3):
            if num(v) is not None:
                rep.ob('C04.R3', fn, 'const-return', num(v) <= day, 'returns constant %s' % shape(v))
                continue
            n_nonconst += 1
            ok = v[0] == 'cast' and v[1] == 'FloatToInt'
            inner = v[3] if ok else None
            if ok and is_call(inner, '::round'):
                inner = inner[2][0]
            okmin = False
            cname = None
            if ok and is_call(inner, '::min'):
                a0, a1 = inner[2][0], inner[2][1]
                for s_, c_ in ((a0, a1), (a1, a0)):
                    if is_call(s_, 'Dist::sample') and c_[0] == 'cdef' and num(c_) is not None and num(c_) <= day:
                        okmin = True
                        cname = c_[1].split('::')[-1]
            elif ok and is_call(inner, '::clamp'):
                a0, lo, hi = inner[2]
                if is_call(a0, 'Dist::sample') and num(hi) is not None and num(hi) <= day:
                    okmin = True
            rep.ob('C04.R3', fn, 'clamped-return:' + (cname or '?'), ok and okmin, 'returns %s' % shape(v))
        rep.count_floor('C04.R3', 'non-constant returns of %s' % name, n_nonconst, 1)
    for c in ('MAX_SAMPLED_TIMEOUT', 'MAX_SAMPLED_TIMER_DURATION', 'MAX_SAMPLED_BLOCK_DURATION'):
        val = float(prog.const_val('maybenot::constants::' + c))
        rep.ob('C04.R3', 'constants', c, val <= day, '%s = %s' % (c, val))
    # ---- R4
    for name, fn in F.items():
        fa4 = an.get(fn)
        for (pe, v, site) in field_stores(fa4, 'current_state', 'MachineRuntime'):
            rep.ob('C04.R4', fn, 'writer:current_state', name in ('new', 'transition'), 'current_state written in %s' % name)
    pfh = an.paths(tr, history=True)
    for (pe, v, site) in field_stores(tfa, 'current_state', 'MachineRuntime'):
        st = pfh.at(site[0], site[1])
        ok, w = all_paths(st, lambda S: has_cmp(S, 'eq', lambda l: is_field(l, 'current_state', 'MachineRuntime') and idx_of(l)[0] == ('param', 2),
                                               lambda r: r[0] == 'cdef' and r[1].endswith('STATE_END'), False) or
                          has_cmp(S, 'ne', lambda l: is_field(l, 'current_state', 'MachineRuntime') and idx_of(l)[0] == ('param', 2),
                                  lambda r: r[0] == 'cdef' and r[1].endswith('STATE_END'), True))
        rep.ob('C04.R4', tr, 'state-store-behind-END-check', ok, 'store of %s' % shape(v))
        ix, _ = idx_of(pe)
        rep.ob('C04.R4', tr, 'state-store-own-machine', ix == ('param', 2), show(pe))
    for (b, f, args, t) in calls(tfa):
        if callee_str(f).endswith('::schedule_action') or callee_str(f).endswith('::update_counter'):
            st = pfh.at_entry(b)
            ok, w = all_paths(st, lambda S: has_cmp(S, 'eq', lambda l: is_field(l, 'current_state', 'MachineRuntime'),
                                                   lambda r: r[0] == 'cdef' and r[1].endswith('STATE_END'), False))
            rep.ob('C04.R4', tr, 'no-%s-after-END' % callee_str(f).split('::')[-1], ok, '')
    # sample_state happens behind the END check as well (an ended machine does not even draw)
    rep.assumptions += ['f64::round and the float-to-int cast are not evaluated numerically (casts saturate by language definition)',
                        'Duration::from_micros of the caller\'s duration type is monotone']
    return 'who-may-write inventory of the action slots, translation table of schedule_action, clamp shape of the samplers, END absorbing guard'


# =================================================================== C08

def check_C08(ctx, rep):
    pid = 'C08'
    prog, an = ctx.prog, ctx.an
    F = fw_fns(prog)
    rep.rule('C08.R1', 'the counters are written only by update_counter (and initialised in new); on every path through the update of a '
             'counter whose spec is present exactly one value is stored: saturating_add(old, change) for Increment, saturating_sub(old, change) '
             'for Decrement, change for Set (exhaustive over Operation); the only store-free paths allowed are Increment/Decrement with change == 0')
    rep.rule('C08.R2', 'change is the OTHER counter\'s value loaded before any counter store when spec.copy is true, else '
             'Counter::sample_value of the same spec; sample_value returns 1 without a dist, else the sampled value through a saturating cast')
    rep.rule('C08.R3', 'CounterZero is requested (flag local set) exactly under old != 0 && new == 0 && !zeroed_once[mi].k, together with '
             'setting that same per-machine, per-counter flag; the recursive transition(mi, CounterZero) is guarded by that local')
    rep.rule('C08.R4', 'the once-per-call flags are indexed by the machine index and distinct per counter; they are reset (fill) only in '
             'trigger_events before any event is processed')
    rep.rule('C08.R5', 'order: in transition update_counter runs before schedule_action and the schedule permission is '
             'actions[mi].is_none() evaluated after the recursive CounterZero transition; without recursion it is (true, false)')
    for name, fn in F.items():
        fa = an.get(fn)
        for fld in ('counter_a', 'counter_b'):
            for (pe, v, site) in field_stores(fa, fld, 'MachineRuntime'):
                rep.ob('C08.R1', fn, 'writer:' + fld, name in ('update_counter',), '%s written in %s' % (fld, name))
    fn = F['update_counter']
    fa = an.get(fn)
    ops = prog.variants('maybenot::counter::Operation')
    table = (('counter_a', '0', 'counter_b'), ('counter_b', '1', 'counter_a'))

    def spec_of(e, k):
        """e designates (state.counter.k as Some).0"""
        e = unload(unwrap(e))
        if e[0] == 'fld' and e[1][0] == 'var' and e[1][2] == 'Some':
            b0 = unload(e[1][1])
            return b0[0] == 'fld' and b0[3] == k and is_field(b0[1], 'counter', 'State')
        return False

    rs = lambda pe, val: is_field(pe, 'counter_a', 'MachineRuntime') or is_field(pe, 'counter_b', 'MachineRuntime')
    pf = an.paths(fn, record_stores=rs, tag='counter-stores')
    pfh = an.paths(fn, history=True)
    # the local that requests CounterZero: condition guarding the recursive transition
    rec_calls = [(b, f, args, t) for (b, f, args, t) in calls(fa) if callee_str(f).endswith('::transition')]
    rep.count_exact('C08.R3', 'recursive transition call sites in update_counter', len(rec_calls), 1)
    flag_local = None
    for (b, f, args, t) in rec_calls:
        ev = args[2]
        rep.ob('C08.R3', fn, 'recursive-event-is-CounterZero', ev[0] == 'agg' and ev[2] == 'CounterZero' and args[1] == ('param', 2), 'transition(%s)' % ', '.join(show(a) for a in args[1:]))
        # guarding local: the nearest dominating switch on a plain local
        for d in sorted(fa.cfg.dom()[b], reverse=True):
            t2 = fa.blocks[d]['t']
            if t2['k'] == 'switch' and d != b:
                pl = t2['d'].get('c') or t2['d'].get('m')
                if pl is not None and not pl['pr']:
                    # resolve copies
                    l = pl['l']
                    sd = fa.single_def(l)
                    if sd is not None and sd[1] < len(fa.blocks[sd[0]]['s']):
                        rv = fa.blocks[sd[0]]['s'][sd[1]]['rv']
                        if rv['k'] == 'use' and ('c' in rv['x'] or 'm' in rv['x']) and not (rv['x'].get('c') or rv['x'].get('m'))['pr']:
                            l = (rv['x'].get('c') or rv['x'].get('m'))['l']
                    flag_local = l
                    break
    if flag_local is None:
        rep.fail_closed('C08.R3', 'update_counter: local guarding the CounterZero recursion')
        return ''
    for (cf, k, other) in table:
        sts = field_stores(fa, cf, 'MachineRuntime')
        rep.count_floor('C08.R1', 'stores to %s' % cf, len(sts), len(ops))
        old_self = None
        for (pe, v, site) in sts:
            ix, _ = idx_of(pe)
            rep.ob('C08.R1', fn, '%s:index-is-own-machine' % cf, ix == ('param', 2), show(pe))
            st = pf.at(site[0], site[1])
            for S in st:
                var = [f[2] for f in S if f[0] == 'variant' and f[2] in ops and spec_of(f[1][1] if f[1][0] == 'fld' and f[1][3] == 'operation' else ('x',), k)]
                if not var:
                    var = [f[2] for f in S if f[0] == 'variant' and f[2] in ops and contains(f[1], lambda x: isinstance(x, tuple) and x and x[0] == 'fld' and x[3] == k and is_field(x[1], 'counter', 'State'))]
                if len(var) != 1:
                    rep.ob('C08.R1', fn, '%s:store-without-operation' % cf, False, 'store of %s not under a single Operation variant: %s' % (shape(v), var))
                    continue
                op = var[0]
                vv = v
                if op == 'Increment':
                    ok = is_call(vv, 'saturating_add') and is_field(vv[2][0], cf, 'MachineRuntime')
                    chg = vv[2][1] if ok else None
                elif op == 'Decrement':
                    ok = is_call(vv, 'saturating_sub') and is_field(vv[2][0], cf, 'MachineRuntime')
                    chg = vv[2][1] if ok else None
                elif op == 'Set':
                    ok = not is_call(vv, 'saturating_add') and not is_call(vv, 'saturating_sub')
                    chg = vv
                else:
                    ok, chg = False, None
                rep.ob('C08.R1', fn, '%s:%s:value' % (cf, op), ok, 'stores %s' % shape(v))
                if chg is not None:
                    alts = chg[1] if chg[0] == 'phi' else (chg,)
                    okc = len(alts) == 2
                    has_copy = has_sample = False
                    for a in alts:
                        if is_field(a, other, 'MachineRuntime') and idx_of(a)[0] == ('param', 2):
                            has_copy = True
                            # loaded before any counter store
                            ls = a[2] if len(a) > 2 else None
                            if ls is not None:
                                store_blocks = {s2[0] for (p2, v2, s2) in field_stores(fa, 'counter_a', 'MachineRuntime') + field_stores(fa, 'counter_b', 'MachineRuntime')}
                                pre = not any(fa.cfg.can_reach(sb, ls[0]) for sb in store_blocks)
                                rep.ob('C08.R2', fn, '%s:copy-source-is-pre-update-value' % cf, pre, 'other counter loaded at a point no counter store can reach')
                        elif is_call(a, '::sample_value') and spec_of(a[2][0], k):
                            has_sample = True
                        else:
                            okc = False
                    rep.ob('C08.R2', fn, '%s:%s:change-origin' % (cf, op), okc and has_copy and has_sample, 'change = %s' % shape(chg))
        # every Operation variant has a store
        # must-store: at the zero test (first switch on old != 0), each path that went through the Some(spec) edge has one store
        # unless Increment/Decrement with change == 0
        zero_tests = []
        for (b, e) in switch_conditions(fa):
            e2 = strip_sites(e)
            if e2[0] == 'bin' and e2[1] in ('Ne', 'Eq') and is_field(e2[2], cf, 'MachineRuntime') and is_const(e2[3], 0):
                ls = e[2][2] if len(e[2]) > 2 else None
                # the OLD value: loaded before the stores
                zero_tests.append((b, e))
        old_tests = [(b, e) for (b, e) in zero_tests if not any(fa.cfg.can_reach(s2[0], e[2][2][0]) for (p2, v2, s2) in sts)]
        rep.ob('C08.R3', fn, '%s:old-value-test-present' % cf, len(old_tests) == 1, 'tests of the pre-update value against 0: %d' % len(old_tests))
        for (b, e) in old_tests:
            for S in pf.at_entry(b):
                has_spec = any(f[0] == 'variant' and f[2] == 'Some' and unload(f[1])[0] == 'fld' and unload(f[1])[3] == k and is_field(unload(f[1])[1], 'counter', 'State') for f in S)
                if not has_spec:
                    continue
                stored = [f for f in S if f[0] == 'stored' and f[1] == ('maybenot::framework::MachineRuntime', cf)]
                var = [f[2] for f in S if f[0] == 'variant' and f[2] in ops]
                if stored:
                    continue
                # no store on this path: only allowed for Increment/Decrement with change == 0
                zero_change = any(f[0] == 'cmp' and f[1] == 'eq' and f[5] and is_const(f[3], 0) for f in S)
                ok = len(var) == 1 and var[0] in ('Increment', 'Decrement') and zero_change
                rep.ob('C08.R1', fn, '%s:every-update-path-stores' % cf, ok, 'path through the %s update without a store: %s' % (cf, show_facts(S)))
            rep.ob('C08.R1', fn, '%s:update-paths-checked' % cf, True, 'all paths from the spec to the zero test inspected')
        # R3: stores of true to the flag local on the K side
    # flag local stores
    fl_defs = fa.defs().get(flag_local, [])
    trues = []
    for (b, k_, part) in fl_defs:
        v = fa.def_value(flag_local, b, k_)
        if is_const(v, 1):
            trues.append((b, k_))
        else:
            rep.ob('C08.R3', fn, 'flag-local-initial-false', is_const(v, 0), 'assigned %s' % shape(v))
    rep.count_exact('C08.R3', 'places requesting CounterZero', len(trues), 2)
    seen_k = set()
    for (b, k_) in trues:
        st = pf.at(b, k_)
        for S in st:
            which = None
            for (cf, k, other) in table:
                oldnz = has_cmp(S, 'ne', lambda l: is_field(l, cf, 'MachineRuntime'), lambda r: is_const(r, 0), True)
                newz = has_cmp(S, 'eq', lambda l: is_field(l, cf, 'MachineRuntime') or (unload(l)[0] == 'deref'), lambda r: is_const(r, 0), True)
                flag = any(f[0] == 'btrue' and f[2] is False and unload(f[1])[0] == 'fld' and unload(f[1])[3] == k and
                           idx_of(unload(f[1])[1])[0] == ('param', 2) and is_field(idx_of(unload(f[1])[1])[1], 'counter_zeroed_once', 'Framework') for f in S)
                if flag:
                    which = (cf, k, oldnz, newz)
            if which is None:
                rep.ob('C08.R3', fn, 'request-guarded-by-per-machine-flag', False, 'CounterZero requested without testing zeroed_once[mi].k: ' + show_facts(S))
                continue
            cf, k, oldnz, newz = which
            seen_k.add(k)
            rep.ob('C08.R3', fn, '%s:request-guard' % cf, oldnz and newz, 'old != 0: %s, new == 0: %s, flag %s false' % (oldnz, newz, k))
            # the matching flag is set on the path to the join
            sets = [s2 for (p2, v2, s2) in field_stores(fa, 'counter_zeroed_once.' + k, 'Framework') if is_const(v2, 1) and idx_of(p2)[0] == ('param', 2)]
            if not sets:
                sets = [s2 for (p2, v2, s2, mp) in stores(fa) if unload(p2)[0] == 'fld' and unload(p2)[3] == k and
                        idx_of(unload(p2)[1])[0] == ('param', 2) and is_field(idx_of(unload(p2)[1])[1], 'counter_zeroed_once', 'Framework') and is_const(v2, 1)]
            oks = any(s2[0] == b or (fa.cfg.dominates(b, s2[0]) and fa.cfg.can_reach(b, s2[0])) for s2 in sets)
            # and the set happens on every path from the request to the recursion test
            if oks and rec_calls:
                lo, hi = count_between(fa, b, rec_calls[0][0], {s2[0] for s2 in sets})
                oks = lo >= 1
            rep.ob('C08.R3', fn, '%s:same-flag-set-with-request' % cf, oks, 'zeroed_once[mi].%s = true accompanies the request' % k)
    rep.ob('C08.R4', fn, 'flags-distinct-per-counter', seen_k == {'0', '1'}, 'flags tested: %s' % sorted(seen_k))
    # the test of new == 0 reads the stored counter (same place as the store)
    # R4 flags writers
    for name, f2 in F.items():
        fa2 = an.get(f2)
        for (pe, v, site, mp) in stores(fa2):
            if contains(pe, lambda x: isinstance(x, tuple) and x and x[0] == 'fld' and x[3] == 'counter_zeroed_once'):
                if name == 'new':
                    continue
                ok = name == 'update_counter' and is_const(v, 1) and idx_of(unload(pe)[1] if unload(pe)[0] == 'fld' else pe)[0] == ('param', 2)
                rep.ob('C08.R4', f2, 'flag-write', ok, '%s = %s in %s' % (show(pe), shape(v), name))
        for (b, f3, args, t) in calls(fa2):
            if callee_str(f3).endswith('::fill') and args and contains(args[0], lambda x: isinstance(x, tuple) and x and x[0] == 'fld' and x[3] == 'counter_zeroed_once'):
                okf = name == 'trigger_events' and args[1][0] == 'tuple' and all(is_const(x, 0) for x in args[1][2])
                if okf:
                    pe_calls = [b2 for (b2, f4, a4, t4) in calls(fa2) if callee_str(f4).endswith('::process_event') or callee_str(f4).endswith('::transition')]
                    okf = bool(pe_calls) and all(fa2.cfg.dominates(b, b2) for b2 in pe_calls)
                rep.ob('C08.R4', f2, 'flags-reset-first-in-trigger_events', okf, 'fill(%s)' % show(args[1]))
    te = an.get(F['trigger_events'])
    nfill = sum(1 for (b, f3, args, t) in calls(te) if callee_str(f3).endswith('::fill') and args and contains(args[0], lambda x: isinstance(x, tuple) and x and x[0] == 'fld' and x[3] == 'counter_zeroed_once'))
    rep.count_exact('C08.R4', 'reset of the zeroed-once flags in trigger_events', nfill, 1)
    # recursion guard
    for (b, f, args, t) in rec_calls:
        st = pfh.at_entry(b)
        ok, w = all_paths(st, lambda S: any(f2[0] == 'btrue' and f2[2] is True and (f2[1] == ('load', ('local', flag_local)) or contains(f2[1], lambda x: x == ('const', 'bool', 'true'))) for f2 in S))
        rep.ob('C08.R3', fn, 'recursion-guarded-by-request-flag', ok, '' if ok else show_facts(w))
    # R5
    tr = F['transition']
    tfa = an.get(tr)
    uc = [b for (b, f, a, t) in calls(tfa) if callee_str(f).endswith('::update_counter')]
    sc = [b for (b, f, a, t) in calls(tfa) if callee_str(f).endswith('::schedule_action')]
    rep.ob('C08.R5', tr, 'update_counter-before-schedule_action', len(uc) == 1 and len(sc) == 1 and tfa.cfg.dominates(uc[0], sc[0]) and uc[0] != sc[0], '')
    for (b, f, a, t) in calls(tfa):
        if callee_str(f).endswith('::update_counter'):
            rep.ob('C08.R5', tr, 'update_counter-own-machine', a[1] == ('param', 2), '')
    rets = ret_defs(fa)
    for (b, k_, v) in rets:
        if v[0] != 'tuple':
            rep.ob('C08.R5', fn, 'return-shape', False, shape(v))
            continue
        e0, e1 = v[2][0], v[2][1]
        after_rec = any(fa.cfg.dominates(rb, b) for (rb, f, a, t) in rec_calls)
        if after_rec:
            ok0 = is_call(e0, 'is_none') and contains(e0, lambda x: isinstance(x, tuple) and x and x[0] == 'idx' and x[2] == ('param', 2) and is_field(x[1], 'actions', 'Framework'))
            # the is_none call happens after the recursion
            isn = [b2 for (b2, f2, a2, t2) in calls(fa) if callee_str(f2).endswith('is_none')]
            ok0 = ok0 and all(any(fa.cfg.dominates(rb, b2) and rb != b2 for (rb, f, a, t) in rec_calls) for b2 in isn)
            rep.ob('C08.R5', fn, 'permission-read-after-CounterZero', ok0, 'allow = %s' % shape(e0))
            ok1 = contains(e1, lambda x: is_call(x, '::transition')) and contains(e1, lambda x: isinstance(x, tuple) and x and x[0] == 'agg' and x[2] == 'Changed')
            rep.ob('C08.R5', fn, 'state-changed-from-recursion-result', ok1, 'changed = %s' % shape(e1))
        else:
            rep.ob('C08.R5', fn, 'no-recursion-return', is_const(e0, 1) and is_const(e1, 0), 'returns %s' % shape(v))
    rep.count_exact('C08.R5', 'returns of update_counter', len(rets), 2)
    # sample_value
    sv = prog.fn(FW, 'Counter', 'sample_value')
    sva = an.get(sv)
    svp = an.paths(sv)
    for (b, k_, v) in ret_defs(sva):
        for S in svp.at(b, k_):
            none = any(f[0] == 'variant' and f[2] == 'None' for f in S)
            if none:
                rep.ob('C08.R2', sv, 'no-dist-means-one', is_const(v, 1), 'returns %s' % shape(v))
            else:
                ok = v[0] == 'cast' and v[1] == 'FloatToInt' and is_call(v[3], 'Dist::sample')
                rep.ob('C08.R2', sv, 'dist-value-saturating-cast', ok, 'returns %s' % shape(v))
    # no checked arithmetic on counters
    for b in sorted(fa.cfg.reach):
        t = fa.blocks[b]['t']
        if t['k'] == 'assert' and t['mk'] == 'Overflow':
            rep.ob('C08.R1', fn, 'no-overflowing-arithmetic', False, 'checked arithmetic in update_counter: %s' % t['msg'][:80])
    rep.assumptions += ['every CFG path is treated as feasible', 'sampled magnitudes are not decided']
    return 'operation table, copy/sample provenance, zero-detection guard and once-per-call flags of update_counter'
