"""Path-sensitive fact propagation (engine E3/E7 of DESIGN.md).

For every block we compute the set of *path fact sets*: one frozenset of facts
per class of CFG paths from the entry (disjunctive completion of the must
lattice).  A rule then states an obligation "for every path reaching point X,
phi(facts)" with phi monotone in the fact set, so keeping only the minimal fact
sets is sound and exact w.r.t. the CFG (every CFG path is assumed feasible).

Facts (site-stripped expressions, see core.strip_sites):
  ('cmp', op, L, R, ty, pol)   op in lt/le/eq/ne (gt/ge swapped), pol = edge polarity
  ('bcall', name, args, pol)   boolean call result (is_nan, contains, is_none, ...)
  ('btrue', e, pol)            boolean value e
  ('variant', e, name)         discriminant of e is variant `name`
  ('notvariant', e, names)     discriminant of e is none of names
  ('eqc', e, val) / ('nec', e, vals)   integer switch
  ('called', callee_name, args, bb)    a call executed on the path (opt-in)
"""
from .core import (FnAnalysis, callee_decl, callee_key, callee_str, decl_matches, fields_read, roots_read,
                   is_param_call, path_fields, split_path, strip_sites, walk, show,
                   NONMUTATING_DESPITE_MUT)

ALL = ('*ALL*', '*ALL*')

CMP_NORM = {'Lt': ('lt', False), 'Le': ('le', False), 'Gt': ('lt', True), 'Ge': ('le', True),
            'Eq': ('eq', False), 'Ne': ('ne', False)}
CMP_CALLS = {'cmp::PartialOrd::lt': 'Lt', 'cmp::PartialOrd::le': 'Le', 'cmp::PartialOrd::gt': 'Gt',
             'cmp::PartialOrd::ge': 'Ge', 'cmp::PartialEq::eq': 'Eq', 'cmp::PartialEq::ne': 'Ne'}

STD_VARIANTS = {
    'core::option::Option': ['None', 'Some'], 'std::option::Option': ['None', 'Some'],
    'core::result::Result': ['Ok', 'Err'], 'std::result::Result': ['Ok', 'Err'],
    'core::ops::ControlFlow': ['Continue', 'Break'], 'std::ops::ControlFlow': ['Continue', 'Break'],
    'core::ops::control_flow::ControlFlow': ['Continue', 'Break'],
    'core::cmp::Ordering': None, 'std::cmp::Ordering': None,
}
ORDERING = {'-1': 'Less', '255': 'Less', '18446744073709551615': 'Less', '0': 'Equal', '1': 'Greater'}


def mentions_log(e):
    for x in walk(e):
        if isinstance(x, tuple) and x:
            if x[0] == 'call' and isinstance(x[1], str) and x[1].startswith('log::'):
                return True
            if x[0] == 'agg' and isinstance(x[1], str) and x[1].startswith('log::'):
                return True
            if x[0] in ('cdef', 'static') and isinstance(x[1], str) and x[1].startswith('log::'):
                return True
    return False


def adt_head(ty):
    """'std::option::Option<usize>' -> 'std::option::Option'"""
    t = ty.lstrip('&').strip()
    if t.startswith('mut '):
        t = t[4:]
    depth = 0
    for i, ch in enumerate(t):
        if ch == '<':
            return t[:i]
    return t


def deref_arg(a):
    """value designated by a reference argument of a pure comparison call"""
    if a and a[0] == 'refv':
        return a[1]
    if a and a[0] == 'ref':
        return ('load', a[1], None)
    return a


def has_site(e):
    for x in walk(e):
        if isinstance(x, tuple) and x:
            if x[0] == 'load' and len(x) > 2 and x[2] is not None:
                return True
            if x[0] == 'call' and len(x) > 3 and x[3] is not None:
                return True
    return False


def bool_facts(e, pol):
    """facts implied by boolean expression e evaluating to `pol`"""
    e0 = e
    if e[0] == 'un' and e[1] == 'Not':
        return bool_facts(e[2], not pol)
    if e[0] == 'bin' and e[1] in CMP_NORM:
        op, swap = CMP_NORM[e[1]]
        l, r = (e[3], e[2]) if swap else (e[2], e[3])
        return [('cmp', op, strip_sites(l), strip_sites(r), e[4], pol)]
    if e[0] == 'call':
        decl = e[4] if len(e) > 4 else ''
        for suf, op in CMP_CALLS.items():
            if decl.endswith(suf) and len(e[2]) == 2:
                nop, swap = CMP_NORM[op]
                a, b = deref_arg(e[2][0]), deref_arg(e[2][1])
                l, r = (b, a) if swap else (a, b)
                return [('cmp', nop, strip_sites(l), strip_sites(r), 'call', pol)]
        return [('bcall', e[1], tuple(strip_sites(deref_arg(a)) for a in e[2]), pol)]
    if e[0] == 'phi':
        # value is one of several: no single fact
        return [('btrue', strip_sites(e0), pol)]
    return [('btrue', strip_sites(e0), pol)]


class PathFacts:
    def __init__(self, prog, fa, kill_summaries=None, record_calls=None, cap=2000, history=False, record_stores=None, entry=0, norun=False):
        self.prog = prog
        self.fa = fa
        self.fn = fa.fn
        self.cfg = fa.cfg
        self.blocks = fa.blocks
        self.kills = kill_summaries  # KillSummaries or None
        self.record_calls = record_calls  # predicate on callee record -> bool
        self.record_stores = record_stores  # predicate on (place expr, value) -> bool
        self.cap = cap
        self.widened = False
        self._edge_cache = {}
        self._loop_blocks = None
        self._stored_locals = None
        self._blk_kill = {}
        self.IN = None
        self.history = history
        # entry != 0: analyse one iteration of the loop headed by `entry` (edges back into it are cut)
        self.entry = entry
        region = self.cfg.reachable_from(entry) if entry else self.cfg.reach
        # feasibility pruning of repeated tests of the same value is exact only without loops
        self.loop_free = all((y == entry and entry != 0) for (x, y) in self.cfg.back_edges() if x in region and y in region)
        # parameters of shared reference type: their referents are immutable during the call
        self.immut = frozenset(i + 1 for i, t in enumerate(self.fn.inputs) if t.startswith('&') and not t.startswith('&mut'))
        if not norun:
            self.run()

    # ---- variants
    def variant_names(self, ty):
        head = adt_head(ty)
        if head in STD_VARIANTS:
            return STD_VARIANTS[head]
        a = self.prog.adts.get(head)
        if a:
            return {v['discr']: v['name'] for v in a['variants']}
        return None

    def edge_facts(self, b, lab):
        key = (b, lab)
        if key in self._edge_cache:
            return self._edge_cache[key]
        res = []
        bb = self.blocks[b]
        t = bb['t']
        at = (b, len(bb['s']))
        if t['k'] == 'switch':
            e = self.fa.operand(t['d'], at)
            dty = t.get('dty', '')
            if mentions_log(e):
                # `debug!`-style level gates: both edges carry the same facts (logging is output only)
                self._edge_cache[key] = self.store_markers(b) if self.record_stores else []
                return self._edge_cache[key]
            if dty == 'bool':
                if lab[0] == 'sw':
                    pol = (lab[1] != '0')
                else:
                    pol = ('0' in lab[1])  # else-edge of [0 -> x] means true
                    if not ('0' in lab[1]) and ('1' in lab[1]):
                        pol = False
                res = bool_facts(e, pol)
            elif e[0] == 'discr':
                names = self.variant_names(e[2])
                x = strip_sites(e[1])
                head = adt_head(e[2])
                if 'cmp::Ordering' in head:
                    if lab[0] == 'sw':
                        res = [('variant', x, ORDERING.get(lab[1], lab[1]))]
                    else:
                        res = [('notvariant', x, tuple(ORDERING.get(v, v) for v in lab[1]))]
                elif names is not None:
                    def nm(v):
                        if isinstance(names, dict):
                            return names.get(v, v)
                        try:
                            return names[int(v)]
                        except Exception:
                            return v
                    if lab[0] == 'sw':
                        res = [('variant', x, nm(lab[1]))]
                    else:
                        excluded = tuple(nm(v) for v in lab[1])
                        allv = list(names.values()) if isinstance(names, dict) else list(names)
                        rest = [v for v in allv if v not in excluded]
                        if len(rest) == 1:
                            res = [('variant', x, rest[0])]
                        else:
                            res = [('notvariant', x, excluded)]
                else:
                    if lab[0] == 'sw':
                        res = [('eqc', ('discr', x), lab[1])]
                    else:
                        res = [('nec', ('discr', x), lab[1])]
            else:
                x = strip_sites(e)
                if lab[0] == 'sw':
                    res = [('eqc', x, lab[1])]
                else:
                    res = [('nec', x, lab[1])]
            if self.loop_free and res and has_site(e):
                # hidden markers with sites kept: the same sited value cannot be tested with two outcomes on one path
                # (an expression without any sited read, e.g. phi(true, false) of two unrelated flag locals, identifies nothing)
                if dty == 'bool':
                    pol = None
                    for f in res:
                        pass
                    if lab[0] == 'sw':
                        pol = (lab[1] != '0')
                    else:
                        pol = ('0' in lab[1])
                    res = list(res) + [('~b', e, pol)]
                elif e[0] == 'discr':
                    res = list(res) + [('~v', e[1], lab[1] if lab[0] == 'sw' else ('not', lab[1]))]
                else:
                    res = list(res) + [('~v', e, lab[1] if lab[0] == 'sw' else ('not', lab[1]))]
        elif t['k'] == 'call' and self.record_calls and 'indirect' not in t['f'] and self.record_calls(t['f']):
            v = self.fa.call_value(t, at)
            res = [('called', callee_str(t['f']), tuple(strip_sites(a) for a in v[2]), b)]
        if self.record_stores:
            res = list(res) + self.store_markers(b)
        self._edge_cache[key] = res
        return res

    def switch_local(self, b):
        t = self.blocks[b]['t']
        if t['k'] != 'switch' or t.get('dty') != 'bool':
            return None
        pl = t['d'].get('c') or t['d'].get('m')
        if pl is None or pl['pr']:
            return None
        return pl['l']

    def edge_facts_tracked(self, b, lab, fs, l):
        """edge facts of a bool switch on local l, from the expression this path assigned to l (if tracked)"""
        for f in fs:
            if f[0] == '~c' and f[1] == l and isinstance(f[2], tuple) and f[2][0] == 'x':
                key = (b, lab, f[2][1])
                if key in self._edge_cache:
                    return self._edge_cache[key]
                e = f[2][2]
                if mentions_log(e):
                    break
                if lab[0] == 'sw':
                    pol = (lab[1] != '0')
                else:
                    pol = ('0' in lab[1])
                    if not ('0' in lab[1]) and ('1' in lab[1]):
                        pol = False
                res = list(bool_facts(e, pol))
                if self.loop_free and res and has_site(e):
                    res.append(('~b', e, pol))
                if self.record_stores:
                    res = res + self.store_markers(b)
                self._edge_cache[key] = res
                return res
        return self.edge_facts(b, lab)

    def store_markers(self, b):
        key = ('sm', b)
        if key in self._edge_cache:
            return self._edge_cache[key]
        out = []
        bb = self.blocks[b]
        for k, s in enumerate(bb['s']):
            if 'p' not in s:
                continue
            p = s['p']
            pe = self.fa.place_expr(p, (b, k))
            if s['rv']['k'] == 'setdiscr':
                continue
            val = self.fa.rvalue(s['rv'], (b, k))
            if self.record_stores(pe, val):
                fs = path_fields(pe)
                out.append(('stored', fs[-1] if fs else ('local', pe[1] if pe[0] == 'local' else -1), strip_sites(pe), strip_sites(val)))
        self._edge_cache[key] = out
        return out

    # ---- kills of a block: set of (adt, field) / ('local', l) / ALL
    def block_kills(self, b):
        if self.history:
            return set()
        if b in self._blk_kill:
            return self._blk_kill[b]
        ks = set()
        bb = self.blocks[b]
        for k, s in enumerate(bb['s']):
            if 'p' not in s:
                continue
            ks |= store_kill(self.fa, s['p'], (b, k))
        t = bb['t']
        if t['k'] == 'call':
            ks |= call_kill(self.prog, self.fa, t, (b, len(bb['s'])), self.kills)
            ks |= store_kill(self.fa, t['d'], (b, len(bb['s'])))
        self._blk_kill[b] = ks
        return ks

    def apply_kills(self, state, ks):
        if not ks:
            return state
        out = set()
        for fs in state:
            out.add(frozenset(f for f in fs if not fact_killed(f, ks, self.immut)))
        return minimal(out)

    def run(self):
        order = sorted(self.cfg.reach)
        IN = {b: None for b in order}
        IN[self.entry] = {frozenset()}
        work = [self.entry]
        inq = {self.entry}
        while work:
            b = work.pop(0)
            inq.discard(b)
            st = IN[b]
            if st is None:
                continue
            st2 = self.apply_kills(st, self.block_kills(b))
            st2 = self.track_consts(b, st2)
            for (s, lab) in self.cfg.succ[b]:
                if self.entry and s == self.entry:
                    continue  # one iteration only
                ef0 = self.edge_facts(b, lab)
                swl = self.switch_local(b)
                new = set()
                for fs in st2:
                    if not self.edge_feasible(b, lab, fs):
                        continue
                    ef = self.edge_facts_tracked(b, lab, fs, swl) if swl is not None else ef0
                    ns = fs | frozenset(ef) if ef else fs
                    if self.loop_free and ef and contradictory(ns, ef):
                        continue
                    if ef and state_contradiction(fs, ef, self.immut if self.history else None):
                        continue
                    new.add(ns)
                old = IN[s]
                merged = minimal(set(old) | new) if old is not None else minimal(new)
                if len(merged) > self.cap:
                    self.widened = True
                    inter = frozenset.intersection(*merged)
                    merged = {inter}
                if old is None or merged != old:
                    IN[s] = merged
                    if s not in inq:
                        work.append(s)
                        inq.add(s)
        self.IN = IN

    # ---- constants assigned to plain locals along the path (flow-sensitive, killed on reassignment)
    def _const_script(self, b):
        key = ('cs', b)
        if key in self._edge_cache:
            return self._edge_cache[key]
        script = []
        bb = self.blocks[b]
        defs = self.fa.defs()

        def multi(l):
            return len(defs.get(l, ())) > 1

        def match_valued(l):
            # a non-bool local with 2..8 whole definitions, each in its own block, none inside a loop: the value of a match / if
            ds = defs.get(l, ())
            if not (2 <= len(ds) <= 8) or self.fa.fn.local_ty(l) == 'bool' or l == 0:
                return False
            if self._stored_locals is None:
                # only locals whose value is written to memory (`*slot = v`, `self.x[i].f = v`), directly or through one copy
                st_ = set()
                cp_ = {}
                for bb_ in self.blocks:
                    for s_ in bb_['s']:
                        if 'p' not in s_ or s_['rv']['k'] != 'use':
                            continue
                        src_ = s_['rv']['x'].get('m') or s_['rv']['x'].get('c')
                        if src_ is None or src_['pr']:
                            continue
                        if any(e_ in ('*', '*raw') for e_ in s_['p']['pr']):
                            st_.add(src_['l'])
                        elif not s_['p']['pr']:
                            cp_.setdefault(s_['p']['l'], set()).add(src_['l'])
                for d_ in list(st_):
                    st_ |= cp_.get(d_, set())
                self._stored_locals = st_
            if l not in self._stored_locals:
                return False
            if any(part for (b_, k_, part) in ds) or len({b_ for (b_, k_, part) in ds}) != len(ds):
                return False
            if self._loop_blocks is None:
                self._loop_blocks = set()
                for h_, body_ in self.cfg.loops().items():
                    self._loop_blocks |= body_
            return not any(b_ in self._loop_blocks for (b_, k_, part) in ds)
        for s in bb['s']:
            if 'p' not in s:
                continue
            p = s['p']
            if p['pr']:
                if p['pr'][0] not in ('*', '*raw'):
                    script.append(('kill', p['l']))
                continue
            rv = s['rv']
            if rv['k'] == 'use' and 'k' in rv['x'] and 'scalar' in rv['x']['k'] and 'def' not in rv['x']['k']:
                script.append(('set', p['l'], rv['x']['k']['scalar']['bits']))
            elif rv['k'] == 'agg' and rv.get('ak') == 'adt' and not rv['ops']:
                # unit variant (e.g. Queue::Blocking, None): tracked as a symbolic constant
                script.append(('set', p['l'], 'agg:%s::%s' % (rv['adt'], rv['variant'])))
            elif rv['k'] == 'use' and ('c' in rv['x'] or 'm' in rv['x']) and not (rv['x'].get('c') or rv['x'].get('m'))['pr']:
                k = bb['s'].index(s)
                alt = None
                if self.fa.fn.local_ty(p['l']) == 'bool' and multi(p['l']):
                    e = self.fa.operand(rv['x'], (b, k))
                    if isinstance(e, tuple) and e and e[0] in ('bin', 'un', 'call'):
                        alt = ('x', (b, k), e)
                script.append(('copy', p['l'], (rv['x'].get('c') or rv['x'].get('m'))['l'], alt))
            elif self.fa.fn.local_ty(p['l']) == 'bool' and multi(p['l']) and (
                    (rv['k'] == 'bin' and rv['op'] in ('Eq', 'Ne', 'Lt', 'Le', 'Gt', 'Ge')) or (rv['k'] == 'un' and rv['op'] == 'Not')):
                # materialised condition (`let z = a != 0 && b == 0; if z {..}`): the expression is tracked so
                # that the later test of the local yields the facts of the expression this path assigned
                e = self.fa.rvalue(rv, (b, bb['s'].index(s)))
                script.append(('set', p['l'], ('x', (b, bb['s'].index(s)), e)))
            elif match_valued(p['l']):
                # `let v = match op { A => f(x), B => g(x), C => y }; *slot = v`: which definition reached is tracked per path
                script.append(('set', p['l'], ('d', (b, bb['s'].index(s)))))
            else:
                script.append(('kill', p['l']))
        t = bb['t']
        if t['k'] == 'call' and not t['d']['pr']:
            if self.fa.fn.local_ty(t['d']['l']) == 'bool' and 'indirect' not in t['f'] and multi(t['d']['l']):
                e = self.fa.call_value(t, (b, len(bb['s'])))
                script.append(('set', t['d']['l'], ('x', (b, len(bb['s'])), e)))
            elif match_valued(t['d']['l']):
                script.append(('set', t['d']['l'], ('d', (b, len(bb['s'])))))
            else:
                script.append(('kill', t['d']['l']))
        am = self.fa.addr_taken_mut()
        script = [x for x in script if x[1] not in am]
        self._edge_cache[key] = script
        return script

    def track_consts(self, b, state):
        script = self._const_script(b)
        if not script:
            return state
        out = set()
        for fs in state:
            cur = {f[1]: f[2] for f in fs if f[0] == '~c'}
            if not cur and not any(x[0] == 'set' or (x[0] == 'copy' and len(x) > 3 and x[3] is not None) for x in script):
                out.add(fs)
                continue
            for x in script:
                if x[0] == 'set':
                    cur[x[1]] = x[2]
                elif x[0] == 'copy':
                    if x[2] in cur:
                        cur[x[1]] = cur[x[2]]
                    elif len(x) > 3 and x[3] is not None:
                        cur[x[1]] = x[3]
                    else:
                        cur.pop(x[1], None)
                else:
                    cur.pop(x[1], None)
            base = frozenset(f for f in fs if f[0] != '~c')
            out.add(base | frozenset(('~c', l, v) for l, v in cur.items()))
        return out

    @staticmethod
    def tracked_const(fs, local):
        """constant known to be held by a plain local on this path (bits as str, or 'agg:<adt>::<variant>'), else None"""
        for f in fs:
            if f[0] == '~c' and f[1] == local:
                return None if isinstance(f[2], tuple) else f[2]
        return None

    def path_def_value(self, fs, local):
        """value of the definition of a match-valued local that reached on this path (None if not tracked)"""
        for _hop in range(3):
            for f in fs:
                if f[0] == '~c' and f[1] == local and isinstance(f[2], tuple) and f[2][0] == 'd':
                    b, k = f[2][1]
                    return self.fa.def_value(local, b, k)
            # a temporary copy of the tracked local made in the block of the use itself
            sd = self.fa.single_def(local)
            if sd is None or sd[1] >= len(self.blocks[sd[0]]['s']):
                return None
            rv = self.blocks[sd[0]]['s'][sd[1]]['rv']
            src = (rv['x'].get('m') or rv['x'].get('c')) if rv['k'] == 'use' else None
            if src is None or src['pr']:
                return None
            local = src['l']
        return None

    def at_call(self, b):
        """path fact sets just before the terminator of block b, with the block's own constant assignments applied"""
        st = self.apply_kills(self.at_entry(b), set() if self.history else {k for k in self.block_kills(b)})
        return self.track_consts(b, st)

    def edge_feasible(self, b, lab, fs):
        t = self.blocks[b]['t']
        if t['k'] != 'switch':
            return True
        pl = t['d'].get('c') or t['d'].get('m')
        if pl is None or pl['pr']:
            return True
        for f in fs:
            if f[0] == '~c' and f[1] == pl['l']:
                v = f[2]
                if isinstance(v, tuple):
                    return True
                if lab[0] == 'sw':
                    return lab[1] == v
                return v not in lab[1]
        return True

    def at_entry(self, b):
        """path fact sets at entry of block b"""
        return self.IN.get(b) or set()

    def at(self, b, idx):
        """path fact sets just before statement idx of block b"""
        st = self.at_entry(b)
        ks = set()
        bb = self.blocks[b]
        if self.history:
            return st
        for k, s in enumerate(bb['s'][:idx]):
            if 'p' in s:
                ks |= store_kill(self.fa, s['p'], (b, k))
        return self.apply_kills(st, ks)

    def on_edge(self, b, s, lab=None):
        st2 = self.apply_kills(self.at_entry(b), self.block_kills(b))
        out = set()
        for (s2, l2) in self.cfg.succ[b]:
            if s2 == s and (lab is None or lab == l2):
                swl = self.switch_local(b)
                for fs in self.track_consts(b, st2):
                    ef = self.edge_facts_tracked(b, l2, fs, swl) if swl is not None else self.edge_facts(b, l2)
                    out.add(fs | frozenset(ef))
        return minimal(out)


def state_contradiction(fs, new_facts, immut=None):
    """a new variant test of the same place with a different outcome cannot succeed.  State mode: every fact in fs
    still holds (its memory was not written since).  History mode (immut given): only for places reached from
    shared-reference parameters, which cannot change during the call"""
    for m in new_facts:
        if m[0] in ('variant', 'notvariant') and immut is not None:
            rr = roots_read(m)
            if not (rr and rr <= immut and not any(x and x[0] in ('local', 'call', 'rec', 'phi') for x in walk(m[1]))):
                continue
        if m[0] == 'btrue' and immut is None:
            # the same boolean place read twice with different outcomes, nothing written in between (state mode)
            if ('btrue', m[1], not m[2]) in fs:
                return True
        elif m[0] == 'cmp' and immut is None:
            if (m[0], m[1], m[2], m[3], m[4], not m[5]) in fs:
                return True
        if m[0] == 'variant':
            for f in fs:
                if f[0] == 'variant' and f[1] == m[1] and f[2] != m[2]:
                    return True
                if f[0] == 'notvariant' and f[1] == m[1] and m[2] in f[2]:
                    return True
        elif m[0] == 'notvariant':
            for f in fs:
                if f[0] == 'variant' and f[1] == m[1] and f[2] in m[2]:
                    return True
    return False


def contradictory(fs, new_facts):
    """does the path fact set test one sited value with two different outcomes?"""
    for m in new_facts:
        if m[0] == '~b':
            if ('~b', m[1], not m[2]) in fs:
                return True
        elif m[0] == '~v':
            for f in fs:
                if f[0] == '~v' and f[1] == m[1] and f[2] != m[2]:
                    a, b = f[2], m[2]
                    if not isinstance(a, tuple) and not isinstance(b, tuple):
                        return True          # two different explicit values
                    if isinstance(a, tuple) and not isinstance(b, tuple) and b in a[1]:
                        return True
                    if isinstance(b, tuple) and not isinstance(a, tuple) and a in b[1]:
                        return True
    return False


PRUNE_ABOVE = 400


def minimal(sets, force=False):
    """Path fact sets are kept exactly (one per distinct set of facts) so that non-monotone
    obligations ("if A was seen then B must have been seen") stay exact.  Only when a block
    accumulates more than PRUNE_ABOVE sets are supersets dropped (sound for monotone obligations,
    which is what rules use on such large functions)."""
    sets = set(sets)
    if len(sets) <= PRUNE_ABOVE and not force:
        return sets
    lst = sorted(sets, key=len)
    keep = []
    for s in lst:
        if any(k <= s for k in keep):
            continue
        keep.append(s)
    return set(keep)


def fact_killed(f, ks, immut=frozenset()):
    """is fact f invalidated by the kill keys ks?  Loads rooted at a shared-reference
    parameter (index in immut) cannot change during the call and are never killed."""
    if f[0] == '~c' and isinstance(f[2], tuple):
        if f[2][0] == 'd':
            return False
        return fact_killed(('btrue', strip_sites(f[2][2])), ks, immut)
    if f[0] in ('stored', 'called', '~b', '~v', '~c'):
        return False  # history markers
    rr = roots_read(f)
    only_immut = bool(rr) and rr <= immut and not any(x and x[0] == 'local' for x in walk(f))
    if only_immut:
        return False
    if ALL in ks:
        return any(x and x[0] in ('load', 'local') for x in walk(f)) or bool(fields_read(f))
    fr = fields_read(f)
    if fr & ks:
        return True
    for k in ks:
        if k[0] == 'root' and k[1] in rr:
            return True
    for x in walk(f):
        if x and x[0] == 'local' and ('local', x[1]) in ks:
            return True
    return False


def store_kill(fa, p, at):
    """kill keys of a store to MIR place p"""
    pr = p['pr']
    if not pr:
        return {('local', p['l'])} if p['l'] in fa.addr_taken_mut() else set()
    if not any(e in ('*', '*raw') for e in pr):
        # field of a local
        return {('local', p['l'])}
    pe = fa.place_expr(p, at)
    return path_kill(pe, pr)


def path_kill(pe, pr=None):
    fs = path_fields(pe)
    if fs:
        return {fs[-1]}
    # no field in the symbolic path: use the projection's own field info if any
    if pr:
        for e in reversed(pr):
            if isinstance(e, dict) and 'f' in e and e.get('adt'):
                return {(e.get('adt', ''), e['n'])}
    root, _ = split_path(pe)
    if root[0] == 'local':
        return {('local', root[1])}
    if root[0] == 'deref' and root[1][0] == 'param':
        return {('root', root[1][1])}
    if root[0] == 'param':
        return {('root', root[1])}
    return {ALL}


def value_kill(v):
    """kill keys for writing through pointer value v"""
    if v[0] == 'ref':
        return path_kill(v[1])
    if v[0] == 'param':
        return {('root', v[1])}
    return {ALL}


def mut_ref_args(fa, t, at):
    """[(arg index, place expr or None)] for arguments that are `&mut` references"""
    res = []
    for i, a in enumerate(t['a']):
        p = a.get('m') or a.get('c')
        if p is None:
            continue
        ty = fa.fn.local_ty(p['l']) if not p['pr'] else ''
        if p['pr']:
            # projection: take the type of the last field
            last = p['pr'][-1]
            ty = last.get('ty', '') if isinstance(last, dict) else ''
        if ty.startswith('&mut') or ty.startswith('*mut'):
            v = fa.operand(a, at)
            pe = v[1] if v[0] == 'ref' else None
            res.append((i, pe, v))
    return res


def call_kill(prog, fa, t, at, summaries):
    f = t['f']
    if 'indirect' in f:
        return {ALL}
    if decl_matches(f, NONMUTATING_DESPITE_MUT):
        return set()
    ks = set()
    margs = mut_ref_args(fa, t, at)
    if not margs:
        return ks
    key = callee_key(f)
    callee = prog.fns.get(key) if f.get('resolved') else None
    if callee is not None and callee.has_body and summaries is not None:
        s = summaries.of(callee)
        if ALL not in s:
            for k in s:
                if k[0] == 'root':
                    i = k[1] - 1
                    if i < len(t['a']):
                        ks |= value_kill(fa.operand(t['a'][i], at))
                    else:
                        ks.add(ALL)
                else:
                    ks.add(k)
            return ks
    for (i, pe, v) in margs:
        ks |= value_kill(v)
    return ks


class KillSummaries:
    """For each workspace function: set of (adt, field) it may store to (transitively)."""

    def __init__(self, prog, analyses):
        self.prog = prog
        self.analyses = analyses
        self.sum = {}
        self._compute()

    def of(self, fn):
        return self.sum.get(fn.key, {ALL})

    def _compute(self):
        ws = ('maybenot', 'maybenot_simulator', 'maybenot_ffi')
        fns = [f for f in self.prog.fns.values() if f.has_body and f.crate in ws]
        direct = {}
        callsites = {}
        for f in fns:
            fa = self.analyses.get(f)
            d = set()
            cs = []
            for b in fa.cfg.reach:
                bb = fa.blocks[b]
                for k, s in enumerate(bb['s']):
                    if 'p' not in s:
                        continue
                    p = s['p']
                    if any(e in ('*', '*raw') for e in p['pr']):
                        pe = fa.place_expr(p, (b, k))
                        d |= {x for x in path_kill(pe, p['pr']) if x[0] != 'local'}
                t = bb['t']
                if t['k'] == 'call':
                    at = (b, len(bb['s']))
                    if any(e in ('*', '*raw') for e in t['d']['pr']):
                        pe = fa.place_expr(t['d'], at)
                        d |= {x for x in path_kill(pe, t['d']['pr']) if x[0] != 'local'}
                    fr = t['f']
                    if 'indirect' in fr:
                        d.add(ALL)
                        continue
                    if decl_matches(fr, NONMUTATING_DESPITE_MUT):
                        continue
                    margs = mut_ref_args(fa, t, at)
                    if not margs:
                        continue
                    key = callee_key(fr)
                    callee = self.prog.fns.get(key) if fr.get('resolved') else None
                    if callee is not None and callee.has_body and callee.crate in ws:
                        cs.append((callee.key, tuple(fa.operand(a, at) for a in t['a'])))
                        continue
                    for (i, pe, v) in margs:
                        d |= {x for x in value_kill(v) if x[0] != 'local'}
            direct[f.key] = d
            callsites[f.key] = cs
        self.sum = {k: set(v) for k, v in direct.items()}
        changed = True
        while changed:
            changed = False
            for k in self.sum:
                for (c, args) in callsites[k]:
                    add = set()
                    for e in self.sum.get(c, {ALL}):
                        if e[0] == 'root':
                            i = e[1] - 1
                            if i < len(args):
                                add |= {x for x in value_kill(args[i]) if x[0] != 'local'}
                            else:
                                add.add(ALL)
                        else:
                            add.add(e)
                    add -= self.sum[k]
                    if add:
                        self.sum[k] |= add
                        changed = True


class Analyses:
    """cache of FnAnalysis objects"""

    def __init__(self, prog):
        self.prog = prog
        self._c = {}
        self._kills = None

    def get(self, fn):
        if fn.key not in self._c:
            self._c[fn.key] = FnAnalysis(self.prog, fn)
        return self._c[fn.key]

    def kills(self):
        if self._kills is None:
            self._kills = KillSummaries(self.prog, self)
        return self._kills

    def paths(self, fn, record_calls=None, history=False, tag=None, record_stores=None, entry=0):
        """path facts of fn.  history=True: facts are never invalidated (they record which
        tests were passed on the way, evaluated at the time of the test); history=False:
        facts about memory are dropped when that memory may have been written."""
        key = ('pf', fn.key, tag if (record_calls or record_stores) else None, history, entry)
        if key not in self._c:
            self._c[key] = PathFacts(self.prog, self.get(fn), self.kills(), record_calls, history=history, record_stores=record_stores, entry=entry)
        return self._c[key]


# --------------------------------------------------------------------- store inventory (E8)

def stores(fa):
    """all memory / local stores in a function: (place_expr, value_expr, site, mir_place)"""
    res = []
    for b in sorted(fa.cfg.reach):
        bb = fa.blocks[b]
        for k, s in enumerate(bb['s']):
            if 'p' not in s:
                continue
            pe = fa.place_expr(s['p'], (b, k))
            val = fa.rvalue(s['rv'], (b, k)) if s['rv']['k'] != 'setdiscr' else ('setdiscr', s['rv']['vi'])
            res.append((pe, val, (b, k), s['p']))
        t = bb['t']
        if t['k'] == 'call':
            at = (b, len(bb['s']))
            pe = fa.place_expr(t['d'], at)
            res.append((pe, fa.call_value(t, at), at, t['d']))
    return res


def calls(fa):
    """all call terminators: (bb, callee record, arg exprs, terminator)"""
    res = []
    for b in sorted(fa.cfg.reach):
        bb = fa.blocks[b]
        t = bb['t']
        if t['k'] == 'call':
            at = (b, len(bb['s']))
            args = tuple(fa.operand(a, at) for a in t['a'])
            res.append((b, t['f'], args, t))
    return res


def field_stores(fa, field, adt_suffix=None):
    """stores whose place path ends in .field (optionally of an ADT whose path ends with adt_suffix)"""
    out = []
    for (pe, val, site, mp) in stores(fa):
        fs = path_fields(pe)
        if not fs:
            # try MIR projection
            last = None
            for e in mp['pr']:
                if isinstance(e, dict) and 'f' in e:
                    last = (e.get('adt', ''), e['n'])
            if last is None:
                continue
            fs = [last]
        a, n = fs[-1]
        if n == field and (adt_suffix is None or a.endswith(adt_suffix)):
            out.append((pe, val, site))
    return out


def local_paths(prog, fa, start, stops, limit=4096):
    """explicit enumeration of the acyclic paths from block `start` to any block of `stops`, with the branch facts of the edges taken
    (no fixpoint, no kills: for small decision regions such as one compound condition).  Returns [(stop block, frozenset(facts))]."""
    pf = PathFacts(prog, fa, history=True, norun=True)
    out = []
    stack = [(start, frozenset(), frozenset([start]))]
    while stack and len(out) < limit:
        b, fs, seen = stack.pop()
        if b in stops and b != start:
            out.append((b, fs))
            continue
        for (y, lab) in fa.cfg.succ[b]:
            if y in seen:
                continue
            ef = frozenset(f for f in pf.edge_facts(b, lab) if not str(f[0]).startswith('~'))
            stack.append((y, fs | ef, seen | {y}))
    return out
