"""Translation-table engine (E6): aggregates built in a function and the origin of their fields."""
from .core import walk
from .pat import unload, is_call

WRAPPERS = ('convert::Into::into', 'convert::From::from', 'MachineId::into_raw', 'MachineId::from_raw', 'clone::Clone::clone')


def aggregates(fa, adt_suffix):
    """all aggregate constructions of an ADT whose path ends with adt_suffix:
    [(site, variant, {field: expr}, line)]"""
    out = []
    for b in sorted(fa.cfg.reach):
        bb = fa.blocks[b]
        for k, s in enumerate(bb['s']):
            if 'p' not in s:
                continue
            rv = s['rv']
            if rv['k'] == 'agg' and rv.get('ak') == 'adt' and rv['adt'].endswith(adt_suffix):
                v = fa.rvalue(rv, (b, k))
                out.append(((b, k), rv['variant'], dict(v[3]), s['ln']))
    return out


def unwrap(e, wrappers=WRAPPERS):
    """strip value-preserving wrappers (into, into_raw, clone, refv, loads of temporaries)"""
    while True:
        if not isinstance(e, tuple) or not e:
            return e
        if e[0] in ('refv',):
            e = e[1]
            continue
        if e[0] == 'call' and any(e[1].endswith(w) or (len(e) > 4 and e[4].endswith(w)) for w in wrappers) and len(e[2]) >= 1:
            e = e[2][0]
            continue
        return e


def src_field(e):
    """(adt, variant, field) when e reads field `field` of variant `variant` of an enum value; else None.
    A phi whose alternatives all read the same field of the same variant counts as that field."""
    e = unload(unwrap(e))
    if isinstance(e, tuple) and e and e[0] == 'phi':
        rs = {src_field(a) for a in e[1]}
        if len(rs) == 1 and None not in rs:
            return rs.pop()
        return None
    if isinstance(e, tuple) and e and e[0] == 'fld' and isinstance(e[1], tuple) and e[1] and e[1][0] == 'var':
        return (e[2], e[1][2], e[3])
    return None


def src_base(e):
    """the enum value whose variant field is read (first alternative of a phi)"""
    e = unload(unwrap(e))
    if isinstance(e, tuple) and e and e[0] == 'phi':
        return src_base(e[1][0])
    if isinstance(e, tuple) and e and e[0] == 'fld' and e[1][0] == 'var':
        return e[1][1]
    return None
