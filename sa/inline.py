"""Bounded inlining of private helper functions into value expressions (refactor tolerance)."""
from .core import walk


def subst(e, mapping):
    if not isinstance(e, tuple):
        return e
    if e and e[0] == 'param' and e[1] in mapping:
        return mapping[e[1]]
    if e and e[0] == 'local' and ('L', e[1]) in mapping:
        return mapping[('L', e[1])]
    return tuple(subst(x, mapping) for x in e)


def expand_calls(ctx, e, depth=2, skip=()):
    """replace calls to workspace functions that have a single non-constant return value by that
    value (parameters substituted).  Used so that a computation moved into a helper is still seen."""
    if depth <= 0 or not isinstance(e, tuple) or not e:
        return e
    if e[0] == 'call' and len(e) > 5 and e[5] in ctx.prog.fns:
        fn = ctx.prog.fns[e[5]]
        args = tuple(expand_calls(ctx, a, depth, skip) for a in e[2])
        if fn.has_body and fn.crate in ('maybenot', 'maybenot_simulator', 'maybenot_ffi') and fn.name not in skip and fn.vis != 'Public':
            fa = ctx.an.get(fn)
            rets = [fa.def_value(0, b, k) for (b, k, part) in fa.defs().get(0, [])]
            rets = list(dict.fromkeys(rets))
            if len(rets) == 1:
                mapping = {i + 1: a for i, a in enumerate(args)}
                body = subst(rets[0], mapping)
                return expand_calls(ctx, body, depth - 1, skip)
        return e[:2] + (args,) + e[3:]
    return tuple(expand_calls(ctx, x, depth, skip) if isinstance(x, tuple) else x for x in e)
