"""Bounded inlining of private helper functions into value expressions (refactor tolerance)."""
from .core import walk


def subst(e, mapping):
    if not isinstance(e, tuple):
        return e
    if e and e[0] == 'param' and e[1] in mapping:
        return mapping[e[1]]
    if e and e[0] == 'local' and ('L', e[1]) in mapping:
        return mapping[('L', e[1])]
    return tuple(subst(x, mapping) for x in e)


def closure_body(ctx, clo, args):
    """return expression of closure value `clo` = ('closure', key, captured ops) applied to `args`
    (captured variables and the arguments substituted); None if not available"""
    if not (isinstance(clo, tuple) and clo and clo[0] == 'closure' and clo[1] in ctx.prog.fns):
        return None
    fn = ctx.prog.fns[clo[1]]
    if not fn.has_body:
        return None
    fa = ctx.an.get(fn)
    rets = list(dict.fromkeys(fa.def_value(0, b, k) for (b, k, part) in fa.defs().get(0, [])))
    if len(rets) != 1:
        return None
    caps = clo[2]

    def sub(e):
        if not isinstance(e, tuple) or not e:
            return e
        # captured variable: field i of the closure environment (param 1, by value or by reference)
        if e[0] == 'fld' and e[3].isdigit() and _is_env(e[1]):
            i = int(e[3])
            if i < len(caps):
                return caps[i]
        if e[0] == 'param' and e[1] >= 2 and e[1] - 2 < len(args):
            return args[e[1] - 2]
        return tuple(sub(x) for x in e)
    return simp(sub(rets[0]))


def _is_env(e):
    while isinstance(e, tuple) and e and e[0] in ('deref', 'load', 'pick', 'refv'):
        e = e[1]
    return e in (('param', 1), ('local', 1))


def simp(e):
    """*(&p) -> p after substitution"""
    if not isinstance(e, tuple) or not e:
        return e
    e = tuple(simp(x) for x in e)
    if e[0] == 'deref' and isinstance(e[1], tuple) and e[1] and e[1][0] in ('ref', 'refv'):
        return e[1][1]
    if e[0] == 'load' and isinstance(e[1], tuple) and e[1] and e[1][0] == 'deref' and isinstance(e[1][1], tuple) and e[1][1] and e[1][1][0] in ('ref', 'refv'):
        return e[1][1][1]
    return e


def payload(o, variant='Some', field='0'):
    return ('pick', ('fld', ('var', o, variant), '', field))


def expand_combinators(ctx, e):
    """Option/Result combinators with closure arguments rewritten into phi/values:
    map_or(o, d, f) -> phi(d, f(o.Some.0));  map(o, f) -> Some(f(payload)) | None;  unwrap_or(o, d) -> phi(payload, d)"""
    if not isinstance(e, tuple) or not e:
        return e
    e = tuple(expand_combinators(ctx, x) if isinstance(x, tuple) else x for x in e)
    if e[0] == 'call':
        name = e[1]
        a = e[2]
        if name.endswith('Option::<T>::map_or') and len(a) == 3:
            body = closure_body(ctx, a[2], (payload(a[0]),))
            if body is not None:
                return ('phi', (a[1], expand_combinators(ctx, body)))
        if name.endswith('Option::<T>::map') and len(a) == 2:
            body = closure_body(ctx, a[1], (payload(a[0]),))
            if body is not None:
                return ('phi', (('agg', 'core::option::Option', 'Some', (('0', expand_combinators(ctx, body)),)), ('agg', 'core::option::Option', 'None', ())))
        if name.endswith('Option::<T>::unwrap_or') and len(a) == 2:
            return ('phi', (payload(a[0]), a[1]))
    return e


def expand_calls(ctx, e, depth=2, skip=()):
    """replace calls to workspace functions that have a single non-constant return value by that
    value (parameters substituted).  Used so that a computation moved into a helper is still seen."""
    if depth <= 0 or not isinstance(e, tuple) or not e:
        return e
    if e[0] == 'call' and e[1].startswith('core::option::Option'):
        e2 = expand_combinators(ctx, e)
        if e2 is not e and e2[0] != 'call':
            return expand_calls(ctx, e2, depth, skip)
    key = None
    if e[0] == 'call' and len(e) > 5 and e[5] in ctx.prog.fns:
        key = e[5]
    elif e[0] == 'call' and len(e) == 3 and isinstance(e[1], str):
        # site-stripped call (inside a path fact): find the function by its path
        idx = getattr(ctx.prog, '_by_path', None)
        if idx is None:
            idx = {}
            for f in ctx.prog.fns.values():
                idx.setdefault(f.path, []).append(f.key)
            ctx.prog._by_path = idx
        c = idx.get(e[1], [])
        if len(c) == 1:
            key = c[0]
    if key is not None:
        fn = ctx.prog.fns[key]
        args = tuple(expand_calls(ctx, a, depth, skip) for a in e[2])
        if fn.has_body and fn.crate in ('maybenot', 'maybenot_simulator', 'maybenot_ffi') and fn.name not in skip and fn.vis != 'Public':
            fa = ctx.an.get(fn)
            rets = [fa.def_value(0, b, k) for (b, k, part) in fa.defs().get(0, [])]
            rets = list(dict.fromkeys(rets))
            if 1 <= len(rets) <= 4:
                mapping = {i + 1: a for i, a in enumerate(args)}
                bodies = tuple(expand_calls(ctx, subst(r, mapping), depth - 1, skip) for r in rets)
                return bodies[0] if len(bodies) == 1 else ('phi', bodies)
        return e[:2] + (args,) + e[3:]
    return tuple(expand_calls(ctx, x, depth, skip) if isinstance(x, tuple) else x for x in e)
