"""Gate rules on the COMPOSITE of transition: below_action_limits, below_limit_padding and below_limit_blocking inlined into
Framework::transition (alternative form of the R2/R3/R4 rules of C02, C03 and C07).

The per-helper rules of rules_limits.py state what each of the three predicates returns.  A refactoring that moves a test from
one predicate to another (the state-limit test hoisted into below_action_limits, the budget test pulled out into a helper, the
predicates taking (mi, state) instead of (&runtime, &machine)) changes every one of those statements without changing the
decision.  Here the decision is judged where it is used: at the point where the inlined below_action_limits hands its verdict to
transition, per path, with the verdict this path produced:

  ALLOW (verdict true)   the action is a variant V of the entered state's action and
        V has a `limit` field      ->  state_limit > 0 was established                                  (C07)
        V == SendPadding           ->  budget edge, or both fraction gates                               (C02)
        V == BlockOutgoing         ->  replace-while-blocking, or budget edge, or both fraction gates    (C03)
  DENY  (verdict false)  there is a reason: no action, an exhausted state limit of a limited action, padding ratio >= a set
        fraction, blocked share >= a set fraction.  Anything else (Cancel, a padding under its budget, ..) must be allowed.
"""
from .core import AnchorMissing, strip_sites, walk, show, callee_str, callee_decl
from .paths import stores, calls, bool_facts
from .pat import (num, is_const, unload, is_field, is_call, has_cmp, cmp_int_true, all_paths, show_facts, contains)
from .rules_limits import FW, padding_ratio_ok, total_ok, is_sds, shape

GATE_FNS = ((FW, 'Framework', 'below_action_limits'), (FW, 'Framework', 'below_limit_blocking'), (FW, 'Framework', 'below_limit_padding'))


class Pad:
    @staticmethod
    def frac_is(e, who):
        return is_field(e, 'max_padding_frac', 'Machine' if who == 'machine' else 'Framework')

    @staticmethod
    def budget(S):
        return has_cmp(S, 'lt', lambda l: is_field(l, 'padding_sent', 'MachineRuntime'),
                       lambda r: is_field(r, 'allowed_padding_packets', 'Machine'), True)

    @classmethod
    def gate(cls, S, who):
        fr = lambda x: cls.frac_is(x, who)
        if has_cmp(S, 'lt', lambda l: is_const(l, 0.0), fr, False) or has_cmp(S, 'le', fr, lambda r: is_const(r, 0.0), True):
            return True
        if has_cmp(S, 'le', fr, lambda r: padding_ratio_ok(r, who), False) or has_cmp(S, 'lt', lambda l: padding_ratio_ok(l, who), fr, True):
            return True
        if cmp_int_true(S, 'le', lambda l: total_ok(l, who), lambda r: is_const(r, 0)) or \
                cmp_int_true(S, 'eq', lambda l: total_ok(l, who), lambda r: is_const(r, 0)):
            return True
        return False

    @classmethod
    def deny(cls, S):
        return any(has_cmp(S, 'le', lambda l, w=who: cls.frac_is(l, w), lambda r, w=who: padding_ratio_ok(r, w), True) for who in ('machine', 'global'))


class Block:
    def __init__(self, fa):
        self.fa = fa
        self.durs = {}
        for (pe, v, site, mp) in stores(fa):
            if pe[0] == 'local' and not mp['pr']:
                vv = unload(v)
                if is_field(vv, 'blocking_duration', 'MachineRuntime'):
                    self.durs.setdefault('machine', set()).add(pe[1])
                elif is_field(vv, 'blocking_duration', 'Framework'):
                    self.durs.setdefault('global', set()).add(pe[1])
        self.ok = set(self.durs) == {'machine', 'global'}

    def is_dur(self, e, who):
        e = unload(e)
        return isinstance(e, tuple) and len(e) == 2 and e[0] == 'local' and e[1] in self.durs[who]

    def dur_local(self, e, who):
        e = unload(e)
        return e[1] if self.is_dur(e, who) else None

    @staticmethod
    def frac_is(e, who):
        return is_field(e, 'max_blocking_frac', 'Machine' if who == 'machine' else 'Framework')

    def share_ok(self, e, who):
        e = unload(e)
        if not is_call(e, 'div_duration_f64'):
            return False
        a, b = e[2][0], e[2][1]
        return self.is_dur(a, who) and is_sds(b, 'current_time', 'machine_start' if who == 'machine' else 'framework_start')

    def ongoing_counted(self, S, who, local=None):
        """on a path where blocking is active the ongoing block was added to the duration local that is compared"""
        active = any(f[0] == 'btrue' and f[2] is True and is_field(f[1], 'blocking_active', 'Framework') for f in S)
        if not active:
            return True
        locs = {local} if local is not None else self.durs[who]
        for f in S:
            # `m += now - started`, or `let ongoing = now - started; m += ongoing; g += ongoing`
            if f[0] == 'called' and f[1].endswith('add_assign') and f[2][0][0] == 'ref' and f[2][0][1][0] == 'local' and f[2][0][1][1] in locs and \
                    (is_sds(f[2][1], 'current_time', 'blocking_started') or
                     contains(f[2][1], lambda y: isinstance(y, tuple) and is_sds(y, 'current_time', 'blocking_started'))):
                return True
        return False

    def _cmp_locals(self, S, who):
        """duration locals of `who` that take part in a comparison on this path"""
        out = set()
        for f in S:
            if f[0] == 'cmp':
                for x in walk(f):
                    if isinstance(x, tuple) and len(x) == 2 and x[0] == 'local' and x[1] in self.durs[who]:
                        out.add(x[1])
        return out

    @staticmethod
    def replace_case(S):
        act = any(f[0] == 'btrue' and f[2] is True and is_field(f[1], 'blocking_active', 'Framework') for f in S)
        rp = False
        for f in S:
            if f[0] == 'btrue' and f[2] is True:
                e = f[1]
                alts = e[1] if e[0] == 'phi' else (e,)
                if any(is_field(x, 'replace') and 'BlockOutgoing' in str(x) for x in alts) and \
                        all((is_field(x, 'replace') and 'BlockOutgoing' in str(x)) or is_const(x, 0) for x in alts):
                    rp = True
        return act and rp

    def budget(self, S):
        for l in self.durs['machine']:
            if has_cmp(S, 'lt', lambda x, l=l: unload(x) == ('local', l), lambda r: is_field(r, 'allowed_blocked_microsec', 'MachineRuntime'), True) \
                    and self.ongoing_counted(S, 'machine', l):
                return True
        return False

    def gate(self, S, who):
        fr = lambda x: self.frac_is(x, who)
        if has_cmp(S, 'lt', lambda l: is_const(l, 0.0), fr, False) or has_cmp(S, 'le', fr, lambda r: is_const(r, 0.0), True):
            return True
        for l in self.durs[who]:
            sh = lambda x, l=l: self.share_ok(x, who) and contains(x, lambda y: y == ('local', l))
            if (has_cmp(S, 'le', fr, sh, False) or has_cmp(S, 'lt', sh, fr, True)) and self.ongoing_counted(S, who, l):
                return True
        return False

    def deny(self, S):
        return any(has_cmp(S, 'le', lambda l, w=who: self.frac_is(l, w), lambda r, w=who: self.share_ok(r, w), True) for who in ('machine', 'global'))


def state_nz(S):
    lim = lambda x: is_field(x, 'state_limit', 'MachineRuntime')
    return cmp_int_true(S, 'lt', lambda l: is_const(l, 0), lim) or cmp_int_true(S, 'ne', lim, lambda r: is_const(r, 0)) or \
        has_cmp(S, 'eq', lim, lambda r: is_const(r, 0), False)


def state_zero(S):
    lim = lambda x: is_field(x, 'state_limit', 'MachineRuntime')
    return cmp_int_true(S, 'eq', lim, lambda r: is_const(r, 0)) or cmp_int_true(S, 'le', lim, lambda r: is_const(r, 0)) or \
        has_cmp(S, 'lt', lambda l: is_const(l, 0), lim, False)


def gate_composite(ctx, sub, pid):
    """judge the composite; obligations go to `sub` (a Report).  Raises AnchorMissing when the composite cannot be formed."""
    prog, an = ctx.composite(GATE_FNS)
    tr = prog.fn(FW, 'Framework', 'transition')
    fa = an.get(tr)
    sites = [s for s in getattr(tr, 'inline_sites', []) if s['name'] == 'below_action_limits']
    if len(sites) != 1 or sites[0]['cont'] is None or sites[0]['dest']['pr']:
        raise AnchorMissing('transition: one inlined call of below_action_limits')
    site = sites[0]
    J, dest = site['cont'], site['dest']['l']
    rec = lambda f: callee_decl(f).endswith('AddAssign::add_assign')
    pf = an.paths(tr, rec, tag='gate')
    rid = pid + '.G'
    sub.rule(rid, 'composite gate (below_action_limits and the two limit predicates inlined into transition), judged per path at the point '
             'where the verdict reaches transition: ALLOW needs state_limit > 0 for actions with a limit, the padding resp. blocking '
             'budget edge or both fraction gates (or replace-while-blocking); DENY needs a reason (no action, exhausted state limit, '
             'ratio/share >= a set fraction)')
    variants = {v['name']: v for v in prog.adt('maybenot::action::Action')['variants']}
    blk = Block(fa)
    if not blk.ok:
        raise AnchorMissing('composite transition: locals initialised from runtime.blocking_duration and self.blocking_duration')
    paths = pf.at_entry(J)
    if not paths:
        raise AnchorMissing('composite transition: no path reaches the verdict')
    n_allow = n_deny = 0
    for S0 in paths:
        verdict = None
        for f in S0:
            if f[0] == '~c' and f[1] == dest:
                verdict = f[2]
        cases = []
        if verdict == '1':
            cases = [(True, S0)]
        elif verdict == '0':
            cases = [(False, S0)]
        elif isinstance(verdict, tuple):
            e = verdict[2]
            cases = [(True, S0 | frozenset(bool_facts(e, True))), (False, S0 | frozenset(bool_facts(e, False)))]
        else:
            sub.ob(rid, tr, 'verdict-known-per-path', False, 'the value handed to transition is not a per-path constant or comparison: ' + show_facts(S0)[:300])
            continue
        # the action the predicates look at is the one of the CURRENT state (transition's own look at the action of the
        # state being entered, for the limit resample, is a different test)
        def action_place(x, idxp):
            # x is (or projects out of) machines[..].states[IDX].action with idxp(IDX)
            y = x
            for _ in range(12):
                y = unload(y)
                if not isinstance(y, tuple) or not y:
                    return False
                if y[0] == 'fld' and y[3] == 'action' and is_field(y, 'action', 'State'):
                    b = unload(y[1])
                    return isinstance(b, tuple) and b and b[0] == 'idx' and idxp(b[2])
                if y[0] in ('fld', 'var', 'deref', 'ref', 'refv'):
                    y = y[1]
                    continue
                return False
            return False
        by_current = lambda x: action_place(x, lambda i: is_field(i, 'current_state'))
        by_entered = lambda x: action_place(x, lambda i: not is_field(i, 'current_state'))
        cur = by_current if any(f[0] in ('variant', 'notvariant') and by_current(f[1]) for f in S0) else by_entered
        act_none = any(f[0] == 'variant' and f[2] == 'None' and is_field(f[1], 'action', 'State') and cur(f[1]) for f in S0)
        vs = [f[2] for f in S0 if f[0] == 'variant' and f[2] in variants and cur(f[1]) and
              contains(f[1], lambda y: isinstance(y, tuple) and y and y[0] == 'fld' and y[3] == 'action')]
        nots = [x for f in S0 if f[0] == 'notvariant' for x in f[2] if x in variants]
        if act_none:
            names = [None]
        elif vs:
            names = [vs[0]]
        else:
            names = [n for n in variants if n not in nots]
        for (allow, S) in cases:
            for V in names:
                if V is None:
                    if allow:
                        sub.ob(rid, tr, 'no-action:denied', False, 'a state without action yields an allowing verdict')
                    else:
                        n_deny += 1
                        sub.ob(rid, tr, 'no-action:denied', True, '')
                    continue
                has_limit = any(fl['name'] == 'limit' for fl in variants[V]['fields'])
                if allow:
                    n_allow += 1
                    if has_limit and pid in ('C07', 'C02', 'C03'):
                        ok = state_nz(S)
                        if pid == 'C07' or not ok:
                            sub.ob('C07.G' if pid == 'C07' else rid, tr, 'allow:%s:state-limit-positive' % V, ok, '' if ok else 'witness: ' + show_facts(S)[:500])
                    if V == 'SendPadding' and pid == 'C02':
                        for who in ('machine', 'global'):
                            ok = Pad.budget(S) or Pad.gate(S, who)
                            sub.ob(rid, tr, 'allow:SendPadding:%s-fraction-consulted' % who, ok, '' if ok else 'witness: ' + show_facts(S)[:500])
                    if V == 'BlockOutgoing' and pid == 'C03':
                        for who in ('machine', 'global'):
                            ok = blk.replace_case(S) or blk.budget(S) or blk.gate(S, who)
                            sub.ob(rid, tr, 'allow:BlockOutgoing:%s-fraction-consulted' % who, ok, '' if ok else 'witness: ' + show_facts(S)[:500])
                else:
                    n_deny += 1
                    reason = (has_limit and state_zero(S)) or (V == 'SendPadding' and Pad.deny(S)) or (V == 'BlockOutgoing' and blk.deny(S))
                    sub.ob(rid, tr, 'deny:%s:has-a-reason' % V, bool(reason), '' if reason else 'an action is withheld without exhausted state limit or reached fraction: ' + show_facts(S)[:500])
    sub.count_floor(rid, 'allowing verdict paths judged in the composite', n_allow, 3)
    sub.count_floor(rid, 'denying verdict paths judged in the composite', n_deny, 2)
    # the blocked durations are the stored ones plus the ongoing block, added only while blocking is active
    for who, l in [(w, l_) for w, ls in blk.durs.items() for l_ in sorted(ls)]:
        for (b, f, args, t) in calls(fa):
            for i, a in enumerate(args):
                if a == ('ref', ('local', l)) and fa.fn.local_ty((t['a'][i].get('m') or t['a'][i].get('c'))['l']).startswith('&mut'):
                    ok = callee_decl(f).endswith('AddAssign::add_assign') and contains(args[1], lambda y: isinstance(y, tuple) and is_sds(y, 'current_time', 'blocking_started'))
                    sub.ob(rid, tr, '%s-duration-update' % who, ok, '%s(%s)' % (callee_str(f), ', '.join(show(x)[:60] for x in args)))
                    ok2, w = all_paths(pf.at_entry(b), lambda S: any(f2[0] == 'btrue' and f2[2] is True and is_field(f2[1], 'blocking_active', 'Framework') for f2 in S))
                    sub.ob(rid, tr, '%s-duration-update-only-while-blocking' % who, ok2, '')
    return True
