"""Reference forwarding and scalar replacement of aggregates, applied to the code of functions that received inlined
helpers / spliced closures (never to the pinned tree).

* forwarding: a local with the single definition `R = &[mut] P` (P a local or a field path of a local) or `R = move R2`
  makes `(*R).rest` the same place as `P.rest` / `(*R2).rest`; the rewrite removes the indirection that inlining a
  `&mut self` helper or a closure environment introduces.
* scalarisation: a local of a struct / tuple / closure type that is only built by aggregate statements, copied whole to
  locals of the same kind and otherwise accessed field by field is replaced by one local per field.  A cursor object
  (`ByteCursor { buf, pos }`) introduced by a refactoring then reads like the `buf` / `r` variables it replaced.
"""
import copy


def is_place(x):
    return isinstance(x, dict) and 'pr' in x and isinstance(x.get('l'), int)


def map_places(x, f):
    if isinstance(x, dict):
        if is_place(x):
            return f(x)
        return {k: (v if (k == 'f' and isinstance(v, dict) and 'decl' in v) else map_places(v, f)) for k, v in x.items()}
    if isinstance(x, list):
        return [map_places(v, f) for v in x]
    return x


def walk_places(x, out, ctx=None):
    """collect (place, context) with context in {'def','use','ref','refmut','discr','drop','dest','arg','other'}"""
    if isinstance(x, dict):
        if is_place(x):
            out.append((x, ctx or 'other'))
            return
        for k, v in x.items():
            if k == 'f' and isinstance(v, dict) and 'decl' in v:
                continue
            walk_places(v, out, ctx)
    elif isinstance(x, list):
        for v in x:
            walk_places(v, out, ctx)


def all_uses(fn):
    """[(place, ctx, block, stmt index or None)] for every place occurrence"""
    res = []
    for b, bb in enumerate(fn.blocks):
        for k, s in enumerate(bb['s']):
            if 'p' not in s:
                continue
            res.append((s['p'], 'def', b, k))
            rv = s['rv']
            kind = rv['k']
            if kind in ('ref', 'rawptr'):
                res.append((rv['p'], 'refmut' if rv.get('mut') else 'ref', b, k))
            elif kind == 'discr':
                res.append((rv['p'], 'discr', b, k))
            else:
                tmp = []
                walk_places({kk: vv for kk, vv in rv.items()}, tmp, 'use')
                res += [(p, c, b, k) for (p, c) in tmp]
        t = bb['t']
        tk = t['k']
        if tk == 'call':
            res.append((t['d'], 'dest', b, None))
            tmp = []
            walk_places(t['a'], tmp, 'arg')
            if 'indirect' in t['f']:
                walk_places(t['f']['indirect'], tmp, 'arg')
            res += [(p, c, b, None) for (p, c) in tmp]
        elif tk == 'drop':
            res.append((t['p'], 'drop', b, None))
        else:
            tmp = []
            walk_places({kk: vv for kk, vv in t.items() if kk not in ('ts',)}, tmp, 'use')
            res += [(p, c, b, None) for (p, c) in tmp]
    return res


def rewrite_all(fn, f):
    for bb in fn.blocks:
        for s in bb['s']:
            if 'p' in s:
                s['p'] = f(s['p'])
                s['rv'] = map_places(s['rv'], f)
        bb['t'] = map_places(bb['t'], f)


def forward_refs(fn, lo):
    """returns number of locals forwarded; only locals >= lo (code that came from inlining) or any local when lo == 0"""
    n = 0
    for _round in range(8):
        defs = {}
        for b, bb in enumerate(fn.blocks):
            for k, s in enumerate(bb['s']):
                if 'p' in s and not s['p']['pr']:
                    defs.setdefault(s['p']['l'], []).append(s['rv'])
                elif 'p' in s and s['p']['pr'] and s['p']['pr'][0] not in ('*', '*raw'):
                    defs.setdefault(s['p']['l'], []).append(None)
            t = bb['t']
            if t['k'] == 'call' and not t['d']['pr']:
                defs.setdefault(t['d']['l'], []).append(None)
        target = {}
        for l, ds in defs.items():
            if len(ds) != 1 or ds[0] is None or l <= fn.argc:
                continue
            rv = ds[0]
            if rv['k'] == 'ref' and not any(e in ('*', '*raw') or (isinstance(e, dict) and ('ix' in e or 'ci' in e or 'sub' in e or 'dc' in e)) for e in rv['p']['pr']):
                # R = &[mut] L.f.g
                if rv['p']['l'] != l:
                    target[l] = ('place', rv['p'])
            elif rv['k'] == 'ref' and rv['p']['pr'] == ['*'] and rv['p']['l'] != l:
                target[l] = ('same', rv['p']['l'])           # reborrow of the whole referent
            elif rv['k'] == 'use' and ('m' in rv['x'] or 'c' in rv['x']):
                src = rv['x'].get('m') or rv['x'].get('c')
                if not src['pr'] and src['l'] != l and fn.local_ty(l).startswith('&') and len(defs.get(src['l'], [None, None])) <= 1:
                    target[l] = ('same', src['l'])
        # only forward through locals whose own target is stable: apply one level per round
        changed = [0]

        def f(p):
            pr = p['pr']
            if pr and pr[0] == '*' and p['l'] in target and (p['l'] >= lo or True):
                kind, tg = target[p['l']]
                changed[0] += 1
                if kind == 'place':
                    return {'l': tg['l'], 'pr': copy.deepcopy(tg['pr']) + pr[1:]}
                return {'l': tg, 'pr': pr}
            return p
        rewrite_all(fn, f)
        if not changed[0]:
            break
        n += changed[0]
    return n


def remove_dead_refs(fn):
    """delete `R = &[mut] P` / `R = move R2` (R a reference local) when R is never used again"""
    total = 0
    for _ in range(10):
        used = set()
        for (p, c, b, k) in all_uses(fn):
            if c == 'def' and not p['pr']:
                continue
            used.add(p['l'])
            for e in p['pr']:
                if isinstance(e, dict) and 'ix' in e:
                    used.add(e['ix'])
        n = 0
        for bb in fn.blocks:
            out = []
            for s in bb['s']:
                if 'p' in s and not s['p']['pr'] and s['p']['l'] not in used and s['p']['l'] > fn.argc and s['p']['l'] != 0:
                    rv = s['rv']
                    ty = fn.local_ty(s['p']['l'])
                    if ty.startswith('&') and (rv['k'] == 'ref' or (rv['k'] == 'use' and ('m' in rv['x'] or 'c' in rv['x']))):
                        n += 1
                        continue
                out.append(s)
            bb['s'] = out
        total += n
        if not n:
            break
    return total


def scalarise(fn, prog, cands_extra=()):
    """returns the locals replaced"""
    uses = all_uses(fn)
    by_local = {}
    for (p, c, b, k) in uses:
        by_local.setdefault(p['l'], []).append((p, c, b, k))
    known_adts = prog.known_adts
    # candidate test
    def ty_ok(l):
        ty = fn.local_ty(l)
        if ty.startswith('&') or ty.startswith('*'):
            return False
        if '{closure' in ty or 'closure#' in ty:
            return l in cands_extra
        head = ty.split('<')[0]
        a = prog.adts.get(head)
        if a is not None:
            return head not in known_adts and len(a['variants']) == 1 and a.get('kind', 'struct') != 'enum'
        return False
    cand = {}
    for l, us in by_local.items():
        if l <= fn.argc or l == 0 or not ty_ok(l):
            continue
        ok = True
        nf = None
        for (p, c, b, k) in us:
            if p['pr']:
                e = p['pr'][0]
                if not (isinstance(e, dict) and 'f' in e):
                    ok = False
                    break
                continue
            # whole use
            if c == 'def':
                rv = fn.blocks[b]['s'][k]['rv']
                if rv['k'] == 'agg':
                    nf = len(rv['ops']) if nf is None else nf
                    if nf != len(rv['ops']):
                        ok = False
                        break
                    continue
                if rv['k'] == 'use' and ('m' in rv['x'] or 'c' in rv['x']):
                    src = rv['x'].get('m') or rv['x'].get('c')
                    if not src['pr']:
                        continue  # checked as a group below
                ok = False
                break
            if c == 'use':
                # whole copy into another local: `X = move L`
                s = fn.blocks[b]['s'][k] if k is not None else None
                if s is not None and s['rv']['k'] == 'use' and not s['p']['pr']:
                    continue
                ok = False
                break
            if c == 'drop':
                continue
            ok = False
            break
        if ok:
            cand[l] = nf
    # whole copies must stay inside the candidate set
    changed = True
    while changed:
        changed = False
        for l in list(cand):
            for (p, c, b, k) in by_local[l]:
                if p['pr'] or k is None:
                    continue
                s = fn.blocks[b]['s'][k]
                if s['rv']['k'] == 'use':
                    src = s['rv']['x'].get('m') or s['rv']['x'].get('c')
                    dst = s['p']
                    if src is not None and not src['pr'] and not dst['pr']:
                        if src['l'] not in cand or dst['l'] not in cand:
                            if l in cand:
                                del cand[l]
                                changed = True
    # field counts: propagate through copies
    for _ in range(4):
        for l in cand:
            if cand[l] is None:
                for (p, c, b, k) in by_local[l]:
                    if not p['pr'] and k is not None and fn.blocks[b]['s'][k]['rv']['k'] == 'use':
                        s = fn.blocks[b]['s'][k]
                        src = s['rv']['x'].get('m') or s['rv']['x'].get('c')
                        for other in (src['l'], s['p']['l']):
                            if other in cand and cand[other] is not None:
                                cand[l] = cand[other]
    cand = {l: n for l, n in cand.items() if n}
    if not cand:
        return []
    # field locals
    fld = {}
    for l, nf in cand.items():
        tys = {}
        for (p, c, b, k) in by_local[l]:
            if p['pr'] and isinstance(p['pr'][0], dict) and 'f' in p['pr'][0]:
                tys[p['pr'][0]['f']] = p['pr'][0].get('ty', '?')
        fld[l] = []
        for i in range(nf):
            fn.locals.append({'ty': tys.get(i, '?'), 'sroa': [l, i]})
            fld[l].append(len(fn.locals) - 1)
    for bb in fn.blocks:
        out = []
        for s in bb['s']:
            if 'p' in s and not s['p']['pr'] and s['p']['l'] in cand:
                l = s['p']['l']
                rv = s['rv']
                if rv['k'] == 'agg':
                    for i, o in enumerate(rv['ops']):
                        out.append({'p': {'l': fld[l][i], 'pr': []}, 'rv': {'k': 'use', 'x': o}, 'ln': s.get('ln'), 'exp': s.get('exp', False), 'sroa': True})
                    continue
                if rv['k'] == 'use':
                    src = rv['x'].get('m') or rv['x'].get('c')
                    key = 'm' if 'm' in rv['x'] else 'c'
                    for i in range(cand[l]):
                        out.append({'p': {'l': fld[l][i], 'pr': []}, 'rv': {'k': 'use', 'x': {key: {'l': fld[src['l']][i], 'pr': []}}},
                                    'ln': s.get('ln'), 'exp': s.get('exp', False), 'sroa': True})
                    continue
            out.append(s)
        bb['s'] = out
        if bb['t']['k'] == 'drop' and not bb['t']['p']['pr'] and bb['t']['p']['l'] in cand:
            bb['t'] = {'k': 'goto', 't': bb['t']['t']}

    def f(p):
        if p['l'] in cand and p['pr'] and isinstance(p['pr'][0], dict) and 'f' in p['pr'][0]:
            i = p['pr'][0]['f']
            if i < len(fld[p['l']]):
                return {'l': fld[p['l']][i], 'pr': p['pr'][1:]}
        return p
    rewrite_all(fn, f)
    return sorted(cand)


def normalise(fn, prog):
    """forwarding and scalarisation to a fixpoint (bounded); returns (forwarded places, scalarised locals)"""
    nf, ns = 0, []
    lo = getattr(fn, 'inl_from', 0)
    extra = getattr(fn, 'spliced_closure_locals', set())
    for _ in range(4):
        a = forward_refs(fn, lo)
        if a:
            remove_dead_refs(fn)
        b = scalarise(fn, prog, extra)
        nf += a
        ns += b
        if not a and not b:
            break
    return nf, ns
