"""Thorough tier: mutant self-test of the checker (informational; never changes the verdict on /repo).

For each catalogued mutant that is expected to be caught by the property under check, a scratch
copy of the CURRENT /repo working tree is made outside /repo and /verif, the patch is applied,
facts are extracted with the same driver and the same rules are run on them.  The copy and its
build output are removed immediately.
"""
import glob
import json
import os
import shutil
import subprocess
import tempfile
from concurrent.futures import ThreadPoolExecutor

VERIF = os.path.dirname(os.path.dirname(os.path.abspath(__file__)))
CAP = 28   # mutants per property and run (each needs a scratch copy, a fact extraction and a check run)


def catalogue(pid):
    out = []
    for d in sorted(glob.glob(os.path.join(VERIF, 'seeded', '*')) + glob.glob(os.path.join(VERIF, 'mutants', '*'))):
        mp = os.path.join(d, 'meta.json')
        pp = os.path.join(d, 'patch.diff')
        if not (os.path.exists(mp) and os.path.exists(pp)):
            continue
        m = json.load(open(mp))
        exp = m.get('caught_by') or m.get('expected_caught_by') or []
        if pid in exp:
            own = m.get('property') == pid or os.path.basename(d).startswith(pid + '_') or (m.get('expected_caught_by') or [None])[0] == pid
            out.append((0 if own else 1, m.get('id', os.path.basename(d)), pp))
    # mutants written for this property first, then those of sibling properties this check also catches; bounded
    out.sort()
    return [(mid, pp) for (_, mid, pp) in out[:CAP]]


def run_one(args):
    pid, mid, patch, repo = args
    scratch = tempfile.mkdtemp(prefix='mnv-mut.')
    try:
        src = os.path.join(scratch, 'repo')
        subprocess.run(['rsync', '-a', '--exclude', 'target', '--exclude', '.git', repo + '/', src + '/'], check=True)
        r = subprocess.run(['git', 'apply', '--unsafe-paths', '--directory', src, patch], cwd=scratch, capture_output=True, text=True)
        if r.returncode != 0:
            r = subprocess.run(['patch', '-p1', '-s', '-d', src, '-i', patch], capture_output=True, text=True)
            if r.returncode != 0:
                return (mid, 'skipped', 'patch no longer applies')
        facts = os.path.join(scratch, 'facts')
        r = subprocess.run([os.path.join(VERIF, 'driver', 'run.sh'), src, facts], capture_output=True, text=True)
        if r.returncode != 0:
            return (mid, 'skipped', 'mutant does not build')
        env = dict(os.environ)
        env['VERIF_EVIDENCE_DIR'] = os.path.join(scratch, 'ev')
        r = subprocess.run(['python3', '-m', 'sa.main', pid, '--facts', facts, '--tier', 'quick'], cwd=VERIF, capture_output=True, text=True, env=env)
        n = sum(1 for l in r.stdout.splitlines() if l.startswith('VIOLATION'))
        keys = [l.split('replay=')[-1].split('/')[-1][:90] for l in r.stdout.splitlines() if l.startswith('VIOLATION')][:3]
        return (mid, 'detected' if n else 'MISSED', '%d violation(s) %s' % (n, keys))
    finally:
        shutil.rmtree(scratch, ignore_errors=True)


def run(pid, repo="/repo", jobs=8):
    cat = catalogue(pid)
    res = []
    with ThreadPoolExecutor(max_workers=jobs) as ex:
        for r in ex.map(run_one, [(pid, mid, patch, repo) for (mid, patch) in cat]):
            res.append(r)
    return res
