"""Ambient-effect closure over the cross-crate call graph (engine E10)."""
from .core import callee_key, callee_str, callee_decl, is_param_call

# substrings of callee paths that denote a source of ambient (non-argument) input
SOURCES = [
    ('wall-clock', ('time::Instant::now', 'time::SystemTime::now', 'SystemTime::elapsed', 'Instant::elapsed')),
    ('os-randomness', ('thread_rng', 'rand::random', 'OsRng', 'from_entropy', 'getrandom::', 'rngs::thread::', 'ThreadRng')),
    ('hash-order', ('collections::hash::', 'hash::random::RandomState', 'hashbrown::')),
    ('environment', ('std::env::', 'std::fs::', 'std::net::', 'std::process::', 'std::io::stdin', 'std::thread::', 'std::os::')),
    ('thread-local', ('thread::local::', 'thread_local')),
]


def classify(path):
    for kind, pats in SOURCES:
        for p in pats:
            if p in path:
                return kind
    return None


class Closure:
    def __init__(self, prog, roots):
        """roots: list of Fn.  Follows resolved call edges, fn references (closures, fn pointers)
        through every crate for which facts exist."""
        self.prog = prog
        self.parent = {}
        self.nodes = {}
        self.leaves = []          # (caller key, callee record) for callees without facts
        self.param_calls = 0
        self.unresolved = []
        self.indirect = []
        self.statics = []         # (fn key, static record)
        self.tls = []
        work = []
        for r in roots:
            self.parent[r.key] = None
            work.append(r.key)
        while work:
            k = work.pop()
            fn = prog.fns.get(k)
            if fn is None:
                continue
            self.nodes[k] = fn
            e = fn.edges
            for s in e.get('statics', []):
                self.statics.append((k, s))
            for t in e.get('tls', []):
                self.tls.append((k, t))
            for c in list(e.get('calls', [])) + list(e.get('fnrefs', [])):
                if 'drop' in c:
                    continue
                if c.get('indirect'):
                    self.indirect.append(k)
                    continue
                if is_param_call(c):
                    self.param_calls += 1
                    continue
                ck = callee_key(c)
                if ck is None:
                    continue
                if not c.get('resolved') and c.get('kind') != 'closure':
                    self.unresolved.append((k, c))
                if ck in prog.fns:
                    if ck not in self.parent:
                        self.parent[ck] = k
                        work.append(ck)
                else:
                    self.leaves.append((k, c))

    def chain(self, k):
        out = []
        while k is not None:
            fn = self.prog.fns.get(k)
            out.append(fn.short() if fn else k)
            k = self.parent.get(k)
        return list(reversed(out))

    def effects(self):
        """[(kind, caller key, callee path)] for every call to an effect source, and statics/tls"""
        out = []
        for (k, c) in self.leaves:
            for path in (callee_str(c), callee_decl(c), c.get('key', '')):
                kind = classify(path)
                if kind:
                    out.append((kind, k, callee_str(c)))
                    break
        for k, fn in self.nodes.items():
            # calls to functions that have facts but are themselves sources by name (e.g. rand::thread_rng)
            for c in list(fn.edges.get('calls', [])) + list(fn.edges.get('fnrefs', [])):
                if 'drop' in c or c.get('indirect'):
                    continue
                ck = callee_key(c)
                if ck in self.prog.fns:
                    for path in (callee_str(c), callee_decl(c)):
                        kind = classify(path)
                        if kind:
                            out.append((kind, k, callee_str(c)))
                            break
        for (k, s) in self.statics:
            if s.get('static_mut') or not s.get('static_freeze', True):
                out.append(('mutable-static', k, s['static']))
        for (k, t) in self.tls:
            out.append(('thread-local', k, t))
        return out
