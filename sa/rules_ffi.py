"""C20: the C API (translation tables, header agreement, bounded output, null discipline, pass-through)."""
import os
import re

from .core import AnchorMissing, strip_sites, walk, show, callee_str, callee_decl, decl_matches, callee_key
from .paths import stores, calls, field_stores
from .pat import (num, is_const, unload, last_field, is_field, is_call, has_cmp, all_paths, show_facts, contains, root_of)
from .tables import aggregates, unwrap, src_field, src_base
from .rules_limits import ret_defs, shape, switch_conditions

FFI = 'maybenot_ffi'

C_TYPES = {'usize': 'uintptr_t', 'u64': 'uint64_t', 'u32': 'uint32_t', 'bool': 'bool', 'f64': 'double', 'u8': 'uint8_t', 'u16': 'uint16_t'}


def parse_header(text):
    text = re.sub(r'/\*.*?\*/', '', text, flags=re.S)
    text = re.sub(r'//[^\n]*', '', text)
    enums, structs, typedefs, fns, unions = {}, {}, {}, {}, {}
    for m in re.finditer(r'enum\s+(\w+)\s*\{(.*?)\}\s*;', text, flags=re.S):
        vals = []
        for part in m.group(2).split(','):
            part = part.strip()
            if not part:
                continue
            mm = re.match(r'(\w+)\s*=\s*(\d+)', part)
            if mm:
                vals.append((mm.group(1), int(mm.group(2))))
        enums[m.group(1)] = vals
    for m in re.finditer(r'typedef\s+(\w+)\s+(\w+)\s*;', text):
        typedefs[m.group(2)] = m.group(1)
    for m in re.finditer(r'typedef\s+struct\s+(\w+)\s*\{(.*?)\}\s*(\w+)\s*;', text, flags=re.S):
        body = m.group(2)
        um = re.search(r'union\s*\{(.*?)\}\s*;', body, flags=re.S)
        if um:
            members = []
            for part in um.group(1).split(';'):
                part = part.strip()
                if part:
                    ty, nm = part.rsplit(None, 1)
                    members.append((ty.replace('struct ', '').strip(), nm))
            unions[m.group(1)] = members
            body = body[:um.start()] + body[um.end():]
        fields = []
        for part in body.split(';'):
            part = part.strip()
            if part:
                ty, nm = part.rsplit(None, 1)
                fields.append((ty.replace('struct ', '').strip(), nm))
        structs[m.group(1)] = fields
    for m in re.finditer(r'(?m)^([\w \*]+?)\b(\w+)\s*\(([^;{]*?)\)\s*;', text):
        name = m.group(2)
        if name in ('typedef',):
            continue
        params = [p.strip() for p in m.group(3).replace('\n', ' ').split(',') if p.strip() and p.strip() != 'void']
        fns[name] = (m.group(1).strip(), params)
    return enums, structs, typedefs, fns, unions


def repr_ctype(r):
    """'Fixed(I32, false)' -> uint32_t"""
    m = re.match(r'Fixed\(I(\d+), (true|false)\)', r or '')
    if not m:
        return None
    return ('int' if m.group(2) == 'true' else 'uint') + m.group(1) + '_t'


def snake(name):
    return re.sub(r'(?<!^)(?=[A-Z])', '_', name).lower()


def c_type_of(rust_ty):
    t = rust_ty.strip()
    if t in C_TYPES:
        return C_TYPES[t]
    return t.split('::')[-1]


def counting_loop_ok(ctx, ma, v, ca):
    """loop form of `.zip(actions.iter_mut()).map(|(a, out)| out.write(a)).count()`: the returned counter starts at 0 and is
    incremented exactly once, next to exactly one write, on every iteration of a loop over
    zip(map(trigger_events(..), convert_action), actions.iter_mut())"""
    from .rules_limits import min_max_on_paths
    alts = v[1]
    if len(alts) != 2 or not any(is_const(a, 0) for a in alts):
        return False
    inc = [a for a in alts if a[0] == 'bin' and a[1] == 'Add' and a[2][0] == 'rec' and is_const(a[3], 1)]
    if len(inc) != 1:
        return False
    ctr = inc[0][2][1]
    loops = ma.cfg.loops()
    writes = [(b, a) for (b, f, a, t) in calls(ma) if callee_str(f).endswith('MaybeUninit::<T>::write') or callee_str(f).endswith('<impl *mut T>::write')]
    if len(writes) != 1:
        return False
    wb, wargs = writes[0]
    hs = [h for h, body in loops.items() if wb in body]
    if len(hs) != 1:
        return False
    h = hs[0]
    body = loops[h]
    # the loop's iterator: Zip::next whose receiver was built from zip(map(trigger_events, convert_action), iter_mut(actions))
    nxt = unload(unload(wargs[0])[1]) if unload(wargs[0])[0] == 'fld' else None
    elem = None
    for x in walk(wargs[0]):
        if is_call(x, 'Iterator>::next') and 'zip::Zip' in x[1]:
            elem = x
    if elem is None:
        return False
    okz = False
    for (b, f, a, t) in calls(ma):
        if (callee_decl(f) or '').endswith('Iterator::zip') and ma.cfg.dominates(b, h):
            okz = contains(a[1], lambda y: is_call(y, 'iter_mut') and contains(y, lambda z: z == ('param', 3))) and \
                contains(a[0], lambda x: is_call(x, 'Framework::<M, R, T>::trigger_events')) and \
                contains(a[0], lambda x: isinstance(x, tuple) and x and x[0] == 'fn' and x[1] == ca.key)
    if not okz:
        return False
    # write(out = element.1, value = element.0)
    def comp(e, i):
        e = unload(e)
        return e[0] == 'fld' and e[3] == str(i) and contains(e[1], lambda x: x is elem or strip_sites(x) == strip_sites(elem))
    if not (comp(wargs[0], 1) and comp(wargs[1], 0)):
        return False
    # exactly one write and one increment per iteration; increments nowhere else
    incs = []
    for b in sorted(ma.cfg.reach):
        for k, s in enumerate(ma.blocks[b]['s']):
            if 'p' in s and not s['p']['pr'] and s['p']['l'] == ctr:
                val = ma.rvalue(s['rv'], (b, k))
                if is_const(val, 0):
                    if b in body:
                        return False
                    continue
                incs.append(b)
    if len(incs) != 1 or incs[0] not in body:
        return False
    if min_max_on_paths(ma, h, {wb}, body, stop_at_header=True) != (1, 1):
        return False
    if min_max_on_paths(ma, h, {incs[0]}, body, stop_at_header=True) != (1, 1):
        return False
    return ma.cfg.dominates(wb, incs[0]) or ma.cfg.dominates(incs[0], wb)


def check_convert_action_table(ctx, rep, rid):
    """convert_action: exhaustive over TriggerAction, every destination field filled from the same-named source field of the same variant"""
    prog, an = ctx.prog, ctx.an
    ca = prog.fn(FFI, None, 'convert_action')
    fa = an.get(ca)
    rep.analysed(ca)
    tvars = prog.adt('maybenot::action::TriggerAction')['variants']
    mvars = {v['name']: v for v in prog.adt('maybenot_ffi::MaybenotAction')['variants']}
    aggs = aggregates(fa, 'maybenot_ffi::MaybenotAction')
    by = {}
    for (site, var, flds, ln) in aggs:
        by.setdefault(var, []).append((site, flds))
    pfh = an.paths(ca, history=True)
    for tv in tvars:
        n = tv['name']
        rep.ob(rid, ca, 'action-variant:' + n, n in mvars and len(by.get(n, [])) == 1, 'MaybenotAction::%s built %d time(s)' % (n, len(by.get(n, []))))
        for (site, flds) in by.get(n, []):
            ok_arm, w = all_paths(pfh.at(site[0], site[1]), lambda S: any(f[0] == 'variant' and f[2] == n for f in S))
            rep.ob(rid, ca, 'action-variant-under-own-arm:' + n, ok_arm, '')
            srcf = {f['name'] for f in tv['fields']}
            for df in mvars[n]['fields']:
                e = flds.get(df['name'])
                sf = src_field(e)
                ok = sf is not None and sf[0].endswith('TriggerAction') and sf[1] == n and sf[2] == df['name'] and df['name'] in srcf
                rep.ob(rid, ca, 'action-field:%s.%s' % (n, df['name']), ok, '%s = %s' % (df['name'], shape(e)))
            for sfld in srcf:
                rep.ob(rid, ca, 'action-field-carried:%s.%s' % (n, sfld), sfld in flds, '')
    for v in mvars:
        rep.ob(rid, ca, 'no-extra-variant:' + v, v in [t['name'] for t in tvars], '')
    return ca


def check_C20(ctx, rep):
    prog, an = ctx.prog, ctx.an
    rep.rule('C20.R1', 'translation tables: convert_action is exhaustive over TriggerAction and fills every destination field from the same-named '
             'source field of the same variant (into/into_raw wrappers allowed); convert_event and From<Timer> are name-identity maps, id-carrying '
             'events get MachineId::from_raw(event.machine); From<Duration> maps secs <- as_secs, nanos <- subsec_nanos')
    rep.rule('C20.R2', 'header agreement: maybenot.h declares the same enum constants and values, struct field order and types, tag type, union '
             'member order and function signatures as the #[repr(C)] / extern "C" items of the crate')
    rep.rule('C20.R3', 'bounded output: the output slice is from_raw_parts_mut(actions_out, framework.num_machines()); the count written is the '
             'return value of on_events = number of (action, slot) pairs of a zip with the slice; every Ok return of maybenot_on_events is '
             'preceded by that write; the unsafe operations of the crate are exactly the enumerated table (no pointer arithmetic)')
    rep.rule('C20.R4', 'null discipline: every raw-pointer parameter of an extern "C" function, except the two exempted by the documented contract, '
             'is tested for null (is_null / as_mut None arm) on every path before it is used')
    rep.rule('C20.R5', 'pass-through and errors: the two fractions reach Framework::new in the same positions; machines are '
             'lines().map(Machine::from_str); the three failure sites map to MachineStringNotUtf8 / InvalidMachineString / StartFramework; '
             'Box::into_raw only in maybenot_start, Box::from_raw only in maybenot_stop, no forget/leak')
    # ---- R1
    ca = check_convert_action_table(ctx, rep, 'C20.R1')
    fa = an.get(ca)
    ce = prog.fn(FFI, None, 'convert_event')
    ea = an.get(ce)
    rep.analysed(ce)
    pfe = an.paths(ce, history=True)
    evars = prog.adt('maybenot::event::TriggerEvent')['variants']
    etypes = prog.variants('maybenot_ffi::MaybenotEventType')
    rep.ob('C20.R1', ce, 'event-types-match', sorted(etypes) == sorted(v['name'] for v in evars), '%s' % sorted(set(etypes) ^ set(v['name'] for v in evars)))
    seen = set()
    for (b, k, v) in ret_defs(ea):
        for S in pfe.at(b, k):
            var = [f[2] for f in S if f[0] == 'variant' and f[2] in etypes]
            nots = [x for f in S if f[0] == 'notvariant' for x in f[2]]
            names = var[:1] if var else [x for x in etypes if x not in nots]
            alts = v[1] if v[0] == 'phi' else (v,)
            for n in names:
                seen.add(n)
                good = [a for a in alts if a[0] == 'agg' and a[2] == n]
                ok = len(alts) == 1 and len(good) == 1
                if ok:
                    flds = dict(good[0][3])
                    want_id = any(f['name'] == 'machine' for f in [x for x in evars if x['name'] == n][0]['fields'])
                    if want_id:
                        m = flds.get('machine')
                        ok = is_call(m, 'MachineId::from_raw') and is_field(m[2][0], 'machine', 'MaybenotEvent')
                rep.ob('C20.R1', ce, 'event:' + n, ok, 'MaybenotEventType::%s -> %s' % (n, shape(v)))
    for n in etypes:
        rep.ob('C20.R1', ce, 'event-covered:' + n, n in seen, '')
    ft = prog.fn(FFI, 'MaybenotTimer', 'from', 'From')
    ta = an.get(ft)
    pft = an.paths(ft, history=True)
    timers = prog.variants('maybenot::action::Timer')
    rep.ob('C20.R1', ft, 'timer-types-match', sorted(timers) == sorted(prog.variants('maybenot_ffi::MaybenotTimer')), '')
    seen = set()
    for (b, k, v) in ret_defs(ta):
        for S in pft.at(b, k):
            var = [f[2] for f in S if f[0] == 'variant' and f[2] in timers]
            nots = [x for f in S if f[0] == 'notvariant' for x in f[2]]
            names = var[:1] if var else [x for x in timers if x not in nots]
            for n in names:
                seen.add(n)
                rep.ob('C20.R1', ft, 'timer:' + n, v[0] == 'agg' and v[2] == n, 'Timer::%s -> %s' % (n, shape(v)))
    for n in timers:
        rep.ob('C20.R1', ft, 'timer-covered:' + n, n in seen, '')
    fd = prog.fn(FFI, 'MaybenotDuration', 'from', 'From')
    da = an.get(fd)
    for (site, var, flds, ln) in aggregates(da, 'maybenot_ffi::MaybenotDuration'):
        s_, n_ = flds.get('secs'), flds.get('nanos')
        ok = is_call(s_, 'Duration::as_secs') and is_call(n_, 'Duration::subsec_nanos') and contains(s_, lambda x: x == ('param', 1)) and contains(n_, lambda x: x == ('param', 1))
        rep.ob('C20.R1', fd, 'duration-split', ok, 'secs = %s, nanos = %s' % (shape(s_), shape(n_)))
    rep.count_exact('C20.R1', 'MaybenotDuration constructions', len(aggregates(da, 'maybenot_ffi::MaybenotDuration')), 1)
    # ---- R2 header
    hp = os.path.join(ctx.extra.get('repo') or '/repo', 'crates/maybenot-ffi/maybenot.h')
    if not os.path.exists(hp):
        rep.fail_closed('C20.R2', 'crates/maybenot-ffi/maybenot.h')
    else:
        enums, structs, typedefs, cfns, unions = parse_header(open(hp).read())
        for adt_path, a in sorted(prog.adts.items()):
            if not adt_path.startswith('maybenot_ffi::') or a['vis'] != 'Public':
                continue
            name = a['name']
            if a['kind'] == 'enum' and not a['repr_c']:
                want = [(name + '_' + v['name'], int(v['discr'])) for v in a['variants']]
                rep.ob('C20.R2', name, 'enum-constants', enums.get(name) == want, 'header %s vs crate %s' % (enums.get(name), want) if enums.get(name) != want else 'ok')
                rep.ob('C20.R2', name, 'enum-width', typedefs.get(name) == repr_ctype(a['repr_int']), 'typedef %s (repr %s)' % (typedefs.get(name), a['repr_int']))
            elif a['kind'] == 'struct' and a['repr_c']:
                want = [(c_type_of(f['ty']), f['name']) for f in a['variants'][0]['fields']]
                rep.ob('C20.R2', name, 'struct-fields', structs.get(name) == want, 'header %s vs crate %s' % (structs.get(name), want) if structs.get(name) != want else 'ok')
            elif a['kind'] == 'enum' and a['repr_c']:
                tag = name + '_Tag'
                want = [(name + '_' + v['name'], int(v['discr'])) for v in a['variants']]
                rep.ob('C20.R2', name, 'tag-constants', enums.get(tag) == want, 'header %s vs crate %s' % (enums.get(tag), want) if enums.get(tag) != want else 'ok')
                rep.ob('C20.R2', name, 'tag-width', typedefs.get(tag) == repr_ctype(a['repr_int']), 'typedef %s (repr %s)' % (typedefs.get(tag), a['repr_int']))
                for v in a['variants']:
                    body = '%s_%s_Body' % (name, v['name'])
                    want = [(c_type_of(f['ty']), f['name']) for f in v['fields']]
                    rep.ob('C20.R2', name, 'body:' + v['name'], structs.get(body) == want, 'header %s vs crate %s' % (structs.get(body), want) if structs.get(body) != want else 'ok')
                wantu = [('%s_%s_Body' % (name, v['name']), snake(v['name'])) for v in a['variants']]
                rep.ob('C20.R2', name, 'union-members', unions.get(name) == wantu, 'header %s vs crate %s' % (unions.get(name), wantu) if unions.get(name) != wantu else 'ok')
                rep.ob('C20.R2', name, 'tag-first', structs.get(name) == [(tag, 'tag')], 'struct head %s' % structs.get(name))
        n_ext = 0
        for fn in prog.crate_fns(FFI):
            if fn.no_mangle and fn.abi.startswith('C'):
                n_ext += 1
                h = cfns.get(fn.name)
                ok = h is not None and len(h[1]) == len(fn.inputs)
                if ok:
                    for rt, cp in zip(fn.inputs, h[1]):
                        is_ptr = rt.startswith('*')
                        ok = ok and (('*' in cp) == is_ptr)
                        if not is_ptr:
                            ok = ok and cp.split()[0] == c_type_of(rt)
                rep.ob('C20.R2', fn, 'prototype', ok, 'header: %s / crate inputs: %s' % (h, fn.inputs))
        rep.count_exact('C20.R2', 'extern "C" functions', n_ext, 5)
    # ---- R3
    oe = prog.fn(FFI, None, 'maybenot_on_events')
    oa = an.get(oe)
    rep.analysed(oe)
    frp = [(b, f, a, t) for (b, f, a, t) in calls(oa) if callee_str(f).endswith('from_raw_parts_mut')]
    rep.count_exact('C20.R3', 'from_raw_parts_mut in maybenot_on_events', len(frp), 1)
    for (b, f, a, t) in frp:
        ok = a[0] == ('param', 4) and is_call(a[1], 'Framework::<M, R, T>::num_machines') and contains(a[1], lambda x: isinstance(x, tuple) and x and x[0] == 'fld' and x[3] == 'framework')
        rep.ob('C20.R3', oe, 'output-slice-is-num_machines-long', ok, 'from_raw_parts_mut(%s, %s)' % (show(a[0]), show(a[1])))
    rc = lambda f: callee_str(f).endswith('<impl *mut T>::write')
    pfo = an.paths(oe, history=True, record_calls=rc, tag='write')
    for (b, k, v) in ret_defs(oa):
        if v[0] == 'agg' and v[2] == 'Ok':
            okw, w = all_paths(pfo.at(b, k), lambda S: any(f[0] == 'called' and f[2][0] == ('param', 5) and is_call(f[2][1], 'MaybenotFramework::on_events') for f in S))
            rep.ob('C20.R3', oe, 'count-written-before-every-Ok', okw, 'num_actions_out.write(on_events(..)) precedes Ok' + ('' if okw else '; witness: ' + show_facts(w)))
    oecalls = [(b, f, a, t) for (b, f, a, t) in calls(oa) if callee_str(f).endswith('MaybenotFramework::on_events')]
    oloops = oa.cfg.loops()
    rep.ob('C20.R3', oe, 'one-framework-call-per-batch', len(oecalls) == 1 and not any(oecalls[0][0] in body for body in oloops.values()),
           'on_events call sites: %d (a batch must reach the framework as one trigger_events call: calls do not compose)' % len(oecalls))
    for (b, f, a, t) in oecalls:
        def whole(x, name):
            # the argument is the slice built by from_raw_parts(_mut) itself, possibly reborrowed, not a sub-slice or chunk of it
            y = x
            while isinstance(y, tuple) and y and y[0] in ('ref', 'refv', 'deref', 'load', 'pick'):
                y = y[1]
            return is_call(y, name)
        ok = whole(a[2], 'from_raw_parts_mut') and whole(a[1], 'from_raw_parts')
        rep.ob('C20.R3', oe, 'on_events-gets-the-bounded-slices', ok, 'on_events(_, %s, %s)' % (shape(a[1])[:40], shape(a[2])[:40]))
    me = prog.fn(FFI, 'MaybenotFramework', 'on_events')
    ma = an.get(me)
    rep.analysed(me)
    rv = [v for (b, k, v) in ret_defs(ma)]
    okc = len(rv) == 1 and is_call(rv[0], 'Iterator::count')
    if okc:
        ch = rv[0]
        okc = contains(ch, lambda x: is_call(x, 'Iterator::zip') and contains(x[2][1], lambda y: is_call(y, 'iter_mut') and contains(y, lambda z: z == ('param', 3)))) and \
            contains(ch, lambda x: is_call(x, 'Framework::<M, R, T>::trigger_events')) and contains(ch, lambda x: isinstance(x, tuple) and x and x[0] == 'fn' and x[1] == ca.key)
    if not okc and len(rv) == 1 and rv[0][0] == 'phi':
        okc = counting_loop_ok(ctx, ma, rv[0], ca)
    rep.ob('C20.R3', me, 'count-is-number-of-zipped-writes', okc, 'returns %s' % (shape(rv[0]) if rv else '?'))
    # events are converted one to one, in order
    pushes = [(b, a) for (b, f, a, t) in calls(ma) if callee_str(f).endswith('Vec::<T, A>::push')]
    okp = len(pushes) == 1 and is_call(pushes[0][1][1], 'convert_event')
    if okp:
        # every element of the events slice is converted and pushed: exactly one push per iteration of the loop over `events`
        mloops = ma.cfg.loops()
        hs = [h for h, body in mloops.items() if pushes[0][0] in body]
        okp = len(hs) == 1
        if okp:
            from .rules_limits import min_max_on_paths
            lo, hi = min_max_on_paths(ma, hs[0], {pushes[0][0]}, mloops[hs[0]], stop_at_header=True)
            okp = (lo, hi) == (1, 1)
            ev = pushes[0][1][1][2][0]
            okp = okp and contains(ev, lambda x: is_call(x, 'Iterator>::next') or is_call(x, 'Iterator::next'))
    rep.ob('C20.R3', me, 'events-converted-one-to-one', okp, 'every event of the batch is converted and buffered, in order')
    for (b, f, a, t) in calls(ma):
        if callee_str(f).endswith('Framework::<M, R, T>::trigger_events'):
            okb = contains(a[1], lambda x: isinstance(x, tuple) and x and x[0] == 'fld' and x[2].endswith('MaybenotFramework')) and not contains(a[1], lambda x: isinstance(x, tuple) and x and x[0] == 'agg' and 'Range' in x[1])
            rep.ob('C20.R3', me, 'framework-gets-the-whole-buffer', okb, 'trigger_events(%s, ..)' % shape(a[1])[:50])
    okclr = any(callee_str(f).endswith('Vec::<T, A>::clear') for (b, f, a, t) in calls(ma))
    rep.ob('C20.R3', me, 'event-buffer-cleared-first', okclr, '')
    # unsafe inventory
    allowed_unsafe = {'as_mut': 3, 'from_ptr': 1, 'from_raw_parts': 1, 'from_raw_parts_mut': 1, 'write': 1, 'from_raw': 1}
    found = {}
    for fn in prog.crate_fns(FFI):
        if not fn.has_body or fn.derived:
            continue
        fa2 = an.get(fn)
        for (b, f, a, t) in calls(fa2):
            if f.get('unsafe') and not t.get('fexp'):
                nm = callee_str(f).split('::')[-1]
                found[nm] = found.get(nm, 0) + 1
                rep.ob('C20.R3', fn, 'unsafe-op:' + nm, nm in allowed_unsafe, 'unsafe call %s' % callee_str(f))
            cs = callee_str(f)
            if any(cs.endswith(x) for x in ('::offset', '<impl *mut T>::add', '<impl *const T>::add', '::get_unchecked', '::get_unchecked_mut', '::set_len', '::transmute', '::read', 'mem::forget', '::leak', 'ManuallyDrop::<T>::new')):
                rep.ob('C20.R3', fn, 'forbidden-op:' + cs.split('::')[-1], False, cs)
        for b in fa2.cfg.reach:
            for s in fa2.blocks[b]['s']:
                if 'p' in s and ('*raw' in s['p']['pr'] or (s['rv'].get('p') and '*raw' in s['rv']['p']['pr'])):
                    rep.ob('C20.R3', fn, 'raw-deref', False, 'raw pointer dereference outside the enumerated calls')
    rep.ob('C20.R3', '<inventory>', 'unsafe-table', found == allowed_unsafe, 'unsafe calls %s, expected %s' % (found, allowed_unsafe))
    # ---- R4 null discipline
    exempt = {('maybenot_start', 1), ('maybenot_stop', 1)}
    testers = ('is_null', 'as_mut', 'as_ref')
    n_ptr = 0
    for fn in prog.crate_fns(FFI):
        if not (fn.no_mangle and fn.abi.startswith('C')):
            continue
        fa2 = an.get(fn)
        pf2 = an.paths(fn, history=True)
        for i, ty in enumerate(fn.inputs):
            if not ty.startswith('*'):
                continue
            pi = i + 1
            n_ptr += 1
            if (fn.name, pi) in exempt:
                rep.ob('C20.R4', fn, 'ptr-param-%d-exempt' % pi, True, 'exempt by the documented contract')
                continue
            uses = 0
            for (b, f, a, t) in calls(fa2):
                nm = callee_str(f).split('::')[-1]
                for x in a:
                    if x == ('param', pi):
                        if nm in testers:
                            continue
                        uses += 1

                        def tested(S, pi=pi):
                            for f2 in S:
                                if f2[0] == 'bcall' and f2[1].endswith('is_null') and f2[3] is False and f2[2][0] == ('param', pi):
                                    return True
                                if f2[0] == 'variant' and f2[2] == 'Some' and is_call(f2[1], 'as_mut') and f2[1][2][0] == ('param', pi):
                                    return True
                            return False
                        ok, w = all_paths(pf2.at_entry(b), tested)
                        rep.ob('C20.R4', fn, 'ptr-param-%d-tested-before:%s' % (pi, nm), ok, '' if ok else 'witness: ' + show_facts(w))
            # results of as_mut(param) are only used under Some
            for (b, e) in switch_conditions(fa2):
                pass
            # null outcome maps to NullPointer / 0
        for (b, k, v) in ret_defs(fa2):
            for S in pf2.at(b, k):
                nullish = any((f2[0] == 'bcall' and f2[1].endswith('is_null') and f2[3] is True) or
                              (f2[0] == 'variant' and f2[2] == 'None' and is_call(f2[1], 'as_mut')) for f2 in S)
                if nullish:
                    okv = (v[0] == 'agg' and v[2] == 'NullPointer') or is_const(v, 0)
                    rep.ob('C20.R4', fn, 'null-maps-to-error', okv, 'returns %s on a null pointer' % shape(v))
    rep.count_floor('C20.R4', 'raw pointer parameters of extern "C" functions', n_ptr, 7)
    # ---- R5
    ms = prog.fn(FFI, None, 'maybenot_start')
    msa = an.get(ms)
    rep.analysed(ms)
    for (b, f, a, t) in calls(msa):
        if callee_str(f).endswith('MaybenotFramework::start'):
            ok = a[1] == ('param', 2) and a[2] == ('param', 3) and contains(a[0], lambda x: is_call(x, 'CStr::to_str') or is_call(x, 'to_str'))
            rep.ob('C20.R5', ms, 'fractions-passed-in-order', ok, 'start(%s)' % ', '.join(show(x)[:30] for x in a))
    st = prog.fn(FFI, 'MaybenotFramework', 'start')
    sta = an.get(st)
    rep.analysed(st)
    for (b, f, a, t) in calls(sta):
        if callee_str(f).endswith('Framework::<M, R, T>::new'):
            ok = a[1] == ('param', 2) and a[2] == ('param', 3)
            rep.ob('C20.R5', st, 'fractions-reach-Framework::new-unchanged', ok, 'Framework::new(_, %s, %s, ..)' % (show(a[1]), show(a[2])))
            okm = contains(a[0], lambda x: is_call(x, 'Iterator::collect')) and contains(a[0], lambda x: is_call(x, 'Iterator::map')) and \
                contains(a[0], lambda x: (is_call(x, 'str>::lines') or is_call(x, '::lines')) and x[2][0] == ('param', 1)) and contains(a[0], lambda x: isinstance(x, tuple) and x and x[0] == 'fn' and x[1] and 'from_str' in x[1])
            rep.ob('C20.R5', st, 'machines-are-lines-map-from_str', okm, 'machines = %s' % shape(a[0]))
    # error mapping closures
    errs = {}
    for clo in prog.closures_of(st):
        caa = an.get(clo)
        for (b, k, v) in ret_defs(caa):
            if v[0] == 'agg' and v[1].endswith('MaybenotResult'):
                errs[clo.key] = v[2]
    for (b, f, a, t) in calls(sta):
        if callee_str(f).endswith('Result::<T, E>::map_err'):
            clo = a[1]
            var = errs.get(clo[1]) if clo[0] == 'closure' else None
            src = a[0]
            if contains(src, lambda x: is_call(x, 'Framework::<M, R, T>::new')):
                rep.ob('C20.R5', st, 'error:StartFramework', var == 'StartFramework', 'Framework::new failure -> %s' % var)
            elif contains(src, lambda x: is_call(x, 'Iterator::collect')):
                rep.ob('C20.R5', st, 'error:InvalidMachineString', var == 'InvalidMachineString', 'parse failure -> %s' % var)
    rep.ob('C20.R5', st, 'two-error-mappings', len(errs) == 2, '%s' % sorted(errs.values()))
    pfm = an.paths(ms, history=True)
    for (b, k, v) in ret_defs(msa):
        for S in pfm.at(b, k):
            bad_utf8 = any(f[0] == 'variant' and f[2] == 'Err' and is_call(unload(f[1]), 'to_str') for f in S)
            if bad_utf8:
                rep.ob('C20.R5', ms, 'error:MachineStringNotUtf8', v[0] == 'agg' and v[2] == 'MachineStringNotUtf8', 'returns %s' % shape(v))
    into = [fn.name for fn in prog.crate_fns(FFI) if fn.has_body and any(callee_str(f).endswith('Box::<T, A>::into_raw') or callee_str(f).endswith('Box::<T>::into_raw') for (b, f, a, t) in calls(an.get(fn)))]
    fromr = [fn.name for fn in prog.crate_fns(FFI) if fn.has_body and any(callee_str(f).endswith('::from_raw') and 'Box' in callee_str(f) for (b, f, a, t) in calls(an.get(fn)))]
    rep.ob('C20.R5', '<inventory>', 'Box::into_raw-only-in-start', into == ['maybenot_start'], '%s' % into)
    # the instance is handed over on every path that creates it: Box::into_raw runs only after `out` was found non-null,
    # and every path from it to a return writes the pointer through `out` (else the framework leaks: no handle to stop it)
    rw = lambda f: callee_str(f).endswith('MaybeUninit::<T>::write') or callee_str(f).endswith('<impl *mut T>::write') or \
        callee_str(f).endswith('into_raw')
    pfw = an.paths(ms, history=True, record_calls=rw, tag='handover')
    outp = len(ms.inputs)   # last parameter
    for (b, f, a, t) in calls(msa):
        if not callee_str(f).endswith('into_raw'):
            continue
        ok, w = all_paths(pfw.at_entry(b), lambda S: any(
            (f2[0] == 'variant' and f2[2] in ('Some', 'Continue', 'Ok') and contains(f2[1], lambda y: y == ('param', outp)) and
             contains(f2[1], lambda y: is_call(y, 'as_mut') or is_call(y, 'as_ref') or is_call(y, 'NonNull::<T>::new'))) or
            (f2[0] == 'bcall' and f2[1].endswith('is_null') and f2[3] is False and contains(f2[2], lambda y: y == ('param', outp))) for f2 in S))
        rep.ob('C20.R5', ms, 'instance-created-only-with-a-place-to-return-it', ok,
               'Box::into_raw is reached only after `out` was found non-null' + ('' if ok else '; witness: ' + show_facts(w)))
    for r in msa.cfg.returns:
        for S in pfw.at_entry(r):
            made = [f2 for f2 in S if f2[0] == 'called' and f2[1].endswith('into_raw')]
            if not made:
                continue
            wrote = [f2 for f2 in S if f2[0] == 'called' and f2[1].endswith('::write') and contains(f2[2][0], lambda y: y == ('param', outp))
                     and contains(f2[2][1], lambda y: is_call(y, 'into_raw')) and msa.cfg.can_reach(made[0][3], f2[3])]
            rep.ob('C20.R5', ms, 'created-instance-always-handed-over', bool(wrote),
                   '' if wrote else 'a path creates the instance and returns without writing it to `out`: ' + show_facts(S))
    rep.ob('C20.R5', '<inventory>', 'Box::from_raw-only-in-stop', fromr == ['maybenot_stop'], '%s' % fromr)
    rep.assumptions += ['behaviour of the wrapped framework is covered by C01-C10', 'the caller honours the documented safety contract for the two exempted pointers',
                        'cbindgen naming conventions for tag enum, body structs and union members']
    return 'translation tables, header/ABI agreement, bounded output slice, unsafe inventory, null discipline and argument pass-through of the C API'
