"""wire layout of a serialised machine (bincode is positional): for every type reachable from Machine the variants in order (with
their names: the position of a variant is its meaning on the wire) and the field types in order (field names do not reach the
wire), plus the order of Event, whose discriminant indexes State.transitions."""
import re, json, os, hashlib

ROOTS = ('maybenot::machine::Machine', 'maybenot::event::Event')


def layout(prog, on_wire=None):
    out = {}
    work = list(ROOTS)
    while work:
        p = work.pop()
        if p in out or p not in prog.adts:
            continue
        a = prog.adts[p]
        vs = []
        for v in a['variants']:
            ftys = []
            for fl in v['fields']:
                if on_wire is not None and not on_wire(p, fl['name']):
                    continue
                ty = fl['ty']
                for q in prog.adts:
                    if q.startswith('maybenot::') and q in ty:
                        work.append(q)
                ty = ty.replace('EVENT_NUM', str(prog.const_val('maybenot::constants::EVENT_NUM')))
                ftys.append(ty)
            vs.append([v['name'] if a['kind'] == 'enum' else '', v.get('discr', ''), ftys])
        out[p] = [a['kind'], vs]
    return out


def fingerprint(prog, on_wire=None):
    lay = layout(prog, on_wire)
    # type names are replaced by the position of the type in a canonical order of the structures, so that renaming a type is not a change
    names = sorted(lay, key=lambda k: json.dumps(lay[k]))

    def norm(ty):
        for k in sorted(names, key=len, reverse=True):
            ty = ty.replace(k, '#')
        return ty
    canon = []
    for k in sorted(lay):
        kind, vs = lay[k]
        canon.append([kind, [[n, d, [norm(t) for t in ftys]] for (n, d, ftys) in vs]])
    canon.sort(key=json.dumps)
    return hashlib.sha256(json.dumps(canon).encode()).hexdigest(), lay


def frozen():
    p = os.path.join(os.path.dirname(__file__), 'known_layout.json')
    return json.load(open(p)) if os.path.exists(p) else None


def serialized_keys(prog, an, adt):
    """names of the fields the derived Serialize impl of `adt` writes (None: not derived / keyless form)"""
    from .core import callee_str
    from .paths import calls
    ser = [i for i in prog.impls if i['self_ty'].split('<')[0] == adt and (i['trait'].endswith('ser::Serialize') or i['trait'].endswith('serde::Serialize'))]
    if len(ser) != 1 or not ser[0]['derived']:
        return None
    sf = prog.fns.get(ser[0]['items'][0]['key'])
    if sf is None:
        return None
    keys = []
    for (b, f, ar, t) in calls(an.get(sf)):
        if callee_str(f).split('::')[-1] == 'serialize_field' and len(ar) == 3 and ar[1][0] == 'ktext':
            keys.append(ar[1][2].strip('"'))
    return keys


def wire_fingerprint(prog, an):
    cache = {}

    def on_wire(adt, field):
        if field.isdigit():
            return True
        if adt not in cache:
            cache[adt] = serialized_keys(prog, an, adt)
        ks = cache[adt]
        return ks is None or not ks or field in ks
    return fingerprint(prog, on_wire)
