"""C01: the framework is total (panic-site inventory, recursion fuel, loop shape)."""
from .core import AnchorMissing, strip_sites, walk, show, callee_str, callee_decl, decl_matches, callee_key, is_param_call
from .paths import stores, calls, field_stores, ALL
from .pat import (num, is_const, unload, last_field, is_field, strip_casts, is_call, has_cmp, cmp_int_true,
                  all_paths, show_facts, field_chain, root_of, contains, base_of)
from .tables import aggregates, unwrap, src_field
from .rules_limits import (FW, fw_fns, ret_defs, shape, is_range_loop_var, next_state_payload, switch_conditions)
from .rules_fw import idx_of, STEP_FNS
from .effects import Closure
from .report import Report

def family(prog):
    """the per-machine vectors: every Vec-typed field of Framework (read from the ADT table)"""
    a = prog.adt('maybenot::framework::Framework')
    fam = tuple(f['name'] for f in a['variants'][0]['fields'] if ('vec::Vec<' in f['ty'].split('<')[0] + '<'))
    if 'runtime' not in fam or 'actions' not in fam:
        raise AnchorMissing('Framework.runtime / Framework.actions vectors')
    return fam


PARTIAL_CALLS = ('::unwrap', '::expect', '::unwrap_err', 'panicking::', '::index', '::index_mut', 'gen_range', '::split_at',
                 '::copy_from_slice', '::swap_remove', 'Vec::<T, A>::remove', 'Vec::<T, A>::insert', 'Vec::<T, A>::drain', '::split_off', 'unwrap_unchecked',
                 '::from_secs_f64', '::from_secs_f32', 'Duration::from_secs_f', '::duration_since', 'ops::arith::Div::div',
                 'ops::arith::Rem::rem', 'time::Instant::sub', 'time::Instant::add', '::elapsed', 'ops::arith::Sub::sub',
                 'ops::arith::Add::add', 'ops::arith::Mul::mul', '::clamp', 'unreachable', 'assert_failed')


def own_closure(prog):
    F = fw_fns(prog)
    roots = [F['new'], F['trigger_events'], F['num_machines']] + prog.closures_of(F['trigger_events'])
    cl = Closure(prog, roots)
    own = [f for f in cl.nodes.values() if f.crate == FW and f.has_body]
    return cl, sorted(own, key=lambda f: f.key)


# ---------------------------------------------------------------- family length discipline

def check_family(ctx, rep):
    """runtime, actions, counter_zeroed_once all have machines.len() elements for the life of the framework"""
    prog, an = ctx.prog, ctx.an
    F = fw_fns(prog)
    nw = F['new']
    na = an.get(nw)
    aggs = aggregates(na, 'framework::Framework')
    ok_all = len(aggs) == 1
    if aggs:
        flds = aggs[0][2]
        FAMILY = family(prog)
        for nm in [x for x in FAMILY if x != 'runtime']:
            v = flds.get(nm)
            ok = v is not None and is_call(v, 'from_elem') and is_call(v[2][1], 'len') and contains(v[2][1], lambda x: x in (('param', 1), ('local', 1)))
            rep.ob('C01.R1', nw, 'family-length:' + nm, ok, '%s = %s' % (nm, shape(v)))
            ok_all = ok_all and ok
        # runtime: a local Vec pushed once per element of machines.as_ref()
        v = flds.get('runtime')
        pushes = [(b, args) for (b, f, args, t) in calls(na) if callee_str(f).endswith('Vec::<T, A>::push') or callee_str(f).endswith('Vec::<T>::push')]
        loops = na.cfg.loops()
        okr = len(pushes) == 1
        if okr:
            pb = pushes[0][0]
            hs = [h for h, body in loops.items() if pb in body]
            okr = len(hs) == 1
            if okr:
                h = hs[0]
                body = loops[h]
                # the loop iterates machines.as_ref(): a next() call in the body whose iterator derives from param 1
                nx = [(b, f, a, t) for (b, f, a, t) in calls(na) if b in body and (callee_str(f).endswith('Iterator>::next') or callee_decl(f).endswith('Iterator::next'))]
                okr = len(nx) == 1
                if okr:
                    itl = nx[0][2][0]
                    itl = itl[1][1] if itl[0] == 'ref' and itl[1][0] == 'local' else None
                    dv = [na.def_value(itl, bb, kk) for (bb, kk, part) in na.defs().get(itl, [])] if itl is not None else []
                    okr = len(dv) == 1 and contains(dv[0], lambda x: x in (('param', 1), ('local', 1))) and contains(dv[0], lambda x: is_call(x, 'as_ref') or (isinstance(x, tuple) and x and x[0] == 'view'))
                # exactly one push on every iteration path
                from .rules_limits import min_max_on_paths
                lo, hi = min_max_on_paths(na, h, {pb}, body, stop_at_header=True)
                okr = okr and (lo, hi) == (1, 1)
                # leaving the loop other than by exhaustion returns Err (no Ok with a short vector)
                pfh = an.paths(nw, history=True)
                for (rb, rk, rv) in ret_defs(na):
                    if rv[0] == 'agg' and rv[2] == 'Ok':
                        ok_exh = all(any(f[0] == 'variant' and f[2] == 'None' and contains(f[1], lambda x: is_call(x, 'Iterator>::next') or is_call(x, 'Iterator::next')) for f in S)
                                     for S in pfh.at(rb, rk))
                        okr = okr and ok_exh
        rep.ob('C01.R1', nw, 'family-length:runtime', bool(okr), 'runtime is pushed exactly once per machine and Ok is returned only after the loop is exhausted')
        ok_all = ok_all and bool(okr)
    FAMILY = family(prog)
    # no length-changing use of the family (or machines) anywhere in the crate
    allowed = ('IndexMut::index_mut', 'DerefMut::deref_mut', '<impl [T]>::iter_mut', '<impl [T]>::fill', 'Index::index',
               '<impl [T]>::get_mut', '<impl [T]>::get')   # element access only: none of these changes a length
    for fn in prog.crate_fns(FW):
        if not fn.has_body or fn.derived:
            continue
        fa = an.get(fn)
        for (b, f, args, t) in calls(fa):
            for i, a in enumerate(args):
                if a[0] != 'ref':
                    continue
                lf = last_field(a[1])
                if lf and lf[1] in FAMILY + ('machines',) and lf[0].endswith('Framework'):
                    pl = t['a'][i].get('m') or t['a'][i].get('c')
                    if pl is None or pl['pr'] or not fa.fn.local_ty(pl['l']).startswith('&mut'):
                        continue
                    ok = decl_matches(f, allowed)
                    rep.ob('C01.R1', fn, 'family-mut-use:%s:%s' % (lf[1], callee_str(f).split('::')[-1]), ok, '&mut %s handed to %s' % (lf[1], callee_str(f)))
        for (pe, v, site, mp) in stores(fa):
            lf = last_field(pe)
            if lf and lf[1] in FAMILY + ('machines',) and lf[0].endswith('Framework') and fn.name != 'new':
                rep.ob('C01.R1', fn, 'family-replaced:' + lf[1], False, 'whole vector %s overwritten' % lf[1])
    return ok_all


# ---------------------------------------------------------------- ValidIdx

class ValidIdx:
    """interprocedural validity of machine indices (Appendix B.3)"""

    def __init__(self, ctx, rep):
        self.ctx = ctx
        self.prog, self.an = ctx.prog, ctx.an
        self.F = fw_fns(self.prog)
        self.param_valid = {n: None for n in ('transition', 'update_counter', 'schedule_action', 'decrement_limit')}
        # the limit predicates, when they are handed the machine index instead of its runtime/machine references
        for n in ('below_action_limits', 'below_limit_blocking', 'below_limit_padding'):
            f = self.F.get(n)
            if f is not None and len(f.inputs) >= 2 and f.inputs[1] == 'usize':
                self.param_valid[n] = None
        self.allexcept_valid = None
        self._pf = {}
        self.fixpoint()

    def pf(self, fn):
        if fn.key not in self._pf:
            self._pf[fn.key] = self.an.paths(fn)
        return self._pf[fn.key]

    def family_len(self, e):
        """e == len(&self.<family member>) or len of machines.as_ref()"""
        FAMILY = family(self.prog)
        e = unload(e)
        if is_call(e, '::len'):
            return contains(e, lambda x: isinstance(x, tuple) and x and x[0] == 'fld' and x[3] in FAMILY + ('machines',) and x[2].endswith('Framework'))
        if e[0] == 'un' and e[1] == 'PtrMetadata':
            return contains(e, lambda x: isinstance(x, tuple) and x and x[0] == 'fld' and x[3] == 'machines')
        return False

    def valid(self, fn, fa, e, at, assume=True):
        """is index expression e (evaluated at block at[0]) a valid machine index?"""
        e0 = e
        e = unload(e) if e[0] in ('pick',) else e
        if e[0] == 'phi':
            return all(self.valid(fn, fa, a, at, assume) for a in e[1])
        if e == ('param', 2) and fn.name in self.param_valid:
            v = self.param_valid[fn.name]
            return assume if v is None else v
        if is_range_loop_var(fa, e, allow_filter=True):
            # the range is 0..len(family)
            for (site, var, flds, ln) in aggregates(fa, 'ops::Range') + aggregates(fa, 'range::Range'):
                if is_const(flds.get('start'), 0) and self.family_len(flds.get('end')) and fa.cfg.dominates(site[0], at[0]):
                    # and this range feeds the next() whose payload e is
                    return True
            return False
        # index half of an `.iter().enumerate()` element over a family vector
        eu = unload(e)
        if eu[0] == 'fld' and eu[3] == '0' and isinstance(eu[1], tuple) and eu[1] and eu[1][0] in ('fld', 'pick'):
            inner = unload(eu[1])
            if inner[0] == 'fld' and inner[3] == '0' and inner[1][0] == 'var' and inner[1][2] == 'Some':
                nx = unload(inner[1][1])
                if is_call(nx, 'Iterator>::next') and 'Enumerate' in nx[1]:
                    it = nx[2][0]
                    itl = it[1][1] if it[0] == 'ref' and it[1][0] == 'local' else None
                    if itl is not None:
                        dv = [fa.def_value(itl, bb, kk) for (bb, kk, part) in fa.defs().get(itl, [])]
                        fam = family(self.prog)
                        if len(dv) == 1 and contains(dv[0], lambda x: is_call(x, 'Iterator::enumerate')) and \
                                contains(dv[0], lambda x: isinstance(x, tuple) and x and x[0] == 'fld' and x[3] in fam and x[2].endswith('Framework')) and \
                                not contains(dv[0], lambda x: is_call(x, '::skip') or is_call(x, '::rev') or is_call(x, '::step_by') or is_call(x, '::chain')):
                            return True
        # AllExcept payload of a taken signal
        if contains(e, lambda x: isinstance(x, tuple) and x and x[0] == 'var' and x[2] == 'AllExcept'):
            v = self.allexcept_valid
            return assume if v is None else v
        # guarded by a bounds test still alive on every path
        st = self.pf(fn).at(at[0], at[1])
        es = strip_sites(e)
        fam = family(self.prog)

        def checked_get(S):
            # `family.get(e)` / `get_mut(e)` returned Some (possibly through `?`): e is in range
            for f in S:
                if f[0] == 'variant' and f[2] in ('Some', 'Continue'):
                    for x in walk(f[1]):
                        if isinstance(x, tuple) and x and x[0] == 'call' and (x[1].endswith('<impl [T]>::get') or x[1].endswith('<impl [T]>::get_mut')) \
                                and len(x[2]) == 2 and strip_sites(x[2][1]) == es and \
                                contains(x[2][0], lambda y: isinstance(y, tuple) and y and y[0] == 'fld' and y[3] in fam and y[2].endswith('Framework')):
                            return True
            return False
        ok, w = all_paths(st, lambda S: cmp_int_true(S, 'lt', lambda l: l == es, self.family_len) or checked_get(S))
        return ok and bool(st)

    def fixpoint(self):
        for _ in range(6):
            changed = False
            for name in list(self.param_valid):
                tgt = self.F[name]
                res = True
                n = 0
                for caller in self.F.values():
                    fa = self.an.get(caller)
                    for (b, f, args, t) in calls(fa):
                        if callee_key(f) == tgt.key:
                            n += 1
                            if not self.valid(caller, fa, args[1], (b, len(fa.blocks[b]['s']))):
                                res = False
                if n == 0:
                    res = False
                if self.param_valid[name] != res:
                    self.param_valid[name] = res
                    changed = True
            res = True
            n = 0
            for g in self.prog.crate_fns(FW):
                if not g.has_body or g.derived:
                    continue
                ga = self.an.get(g)
                for (site, var, flds, ln) in aggregates(ga, 'framework::SignalTarget'):
                    if var != 'AllExcept':
                        continue
                    n += 1
                    v = flds.get('0')
                    if g in self.F.values():
                        if not self.valid(g, ga, v, site):
                            res = False
                    elif v[0] == 'param':
                        # built in a helper: the index is a parameter, valid iff every call site passes a valid index
                        m = 0
                        for caller in self.F.values():
                            ca = self.an.get(caller)
                            for (b, f, args, t) in calls(ca):
                                if callee_key(f) == g.key:
                                    m += 1
                                    if not self.valid(caller, ca, args[v[1] - 1], (b, len(ca.blocks[b]['s']))):
                                        res = False
                        if m == 0:
                            res = False
                    else:
                        res = False
            if n == 0:
                res = False
            if self.allexcept_valid != res:
                self.allexcept_valid = res
                changed = True
            if not changed:
                break


# ---------------------------------------------------------------- Regular typestate

def regular_typestate(ctx, fn, entry_regular):
    """forward dataflow: is runtime[mi].current_state known to be a regular state (not END) at block entry?
    Returns (state_at_entry: dict bb -> bool, eval_at(b, idx) -> bool)."""
    prog, an = ctx.prog, ctx.an
    fa = an.get(fn)
    ks = an.kills()
    pfh = an.paths(fn, history=True)
    cfg = fa.cfg
    IN = {b: None for b in cfg.reach}
    IN[0] = bool(entry_regular)

    def writes_cs(t):
        f = t['f']
        if 'indirect' in f:
            return True
        callee = prog.fns.get(callee_key(f)) if f.get('resolved') else None
        if callee is not None and callee.has_body:
            s = ks.of(callee)
            return ALL in s or any(k[1] == 'current_state' for k in s if k[0] != 'root') or any(k[0] == 'root' for k in s) and callee.crate == FW and callee.name in ('transition', 'update_counter', 'decrement_limit', 'process_event')
        return False

    def regular_value(v, site):
        if not next_state_payload(v):
            return False
        st = pfh.at(site[0], site[1])
        end = prog.const_val('maybenot::constants::STATE_END')
        return bool(st) and all(any(f[0] == 'nec' and next_state_payload(f[1]) and end in f[2] for f in S) for S in st)

    def step(b, state, upto=None):
        bb = fa.blocks[b]
        for k, s in enumerate(bb['s']):
            if upto is not None and k >= upto:
                return state
            if 'p' not in s:
                continue
            pe = fa.place_expr(s['p'], (b, k))
            if is_field(pe, 'current_state', 'MachineRuntime'):
                v = fa.rvalue(s['rv'], (b, k))
                state = regular_value(v, (b, k))
        return state

    def out_edges(b, state):
        bb = fa.blocks[b]
        t = bb['t']
        res = []
        if t['k'] == 'call' and writes_cs(t):
            state = False
        for (y, lab) in cfg.succ[b]:
            s2 = state
            for f in pfh.edge_facts(b, lab):
                if f[0] == 'cmp' and f[1] in ('eq', 'ne') and (is_field(f[2], 'current_state', 'MachineRuntime') or is_field(f[3], 'current_state', 'MachineRuntime')):
                    other = f[3] if is_field(f[2], 'current_state', 'MachineRuntime') else f[2]
                    if other[0] == 'cdef' and other[1].endswith('STATE_END'):
                        if (f[1] == 'eq' and f[5] is False) or (f[1] == 'ne' and f[5] is True):
                            s2 = True
            res.append((y, s2))
        return res
    work = [0]
    while work:
        b = work.pop()
        st = IN[b]
        o = step(b, st)
        for (y, s2) in out_edges(b, o):
            new = s2 if IN[y] is None else (IN[y] and s2)
            if IN[y] is None or new != IN[y]:
                IN[y] = new
                work.append(y)

    def eval_at(b, idx):
        st = IN.get(b)
        if st is None:
            return False
        return step(b, st, idx)
    return IN, eval_at


REGULAR_PRE = ('update_counter', 'below_action_limits', 'below_limit_blocking', 'below_limit_padding', 'decrement_limit')


def state_param_regular(ctx, F, fn, pi, depth=0):
    """every call site of fn among the framework's step functions passes, as argument pi, the payload of sample_state on a path
    that excluded the END pseudo state, or the caller's own state parameter with the same guarantee"""
    prog, an = ctx.prog, ctx.an
    if depth > 3:
        return False
    end = prog.const_val('maybenot::constants::STATE_END')
    n = 0
    for caller in F.values():
        ca_ = an.get(caller)
        for (cb, cf, ca, ct) in calls(ca_):
            if callee_key(cf) != fn.key:
                continue
            n += 1
            if pi - 1 >= len(ca):
                return False
            a = ca[pi - 1]
            if next_state_payload(a):
                pfh = an.paths(caller, history=True)
                st = pfh.at_entry(cb)
                if not (bool(st) and all(any(f2[0] == 'nec' and next_state_payload(f2[1]) and end in f2[2] for f2 in S) for S in st)):
                    return False
            elif a[0] == 'param' and caller.inputs[a[1] - 1:a[1]] == ['usize'] and a[1] >= 3:
                if not state_param_regular(ctx, F, caller, a[1], depth + 1):
                    return False
            else:
                return False
    return n > 0


# ---------------------------------------------------------------- main

_UNIT = {}


def unit_step_counter(prog, an, lf):
    """every store to the field (adt, name) anywhere in the crate is a constant or the field itself plus / minus one: the value can
    only be reached by that many events, which is what makes `+ 1` on 64 bits an event counter and not data"""
    if lf in _UNIT:
        return _UNIT[lf]
    from .paths import field_stores
    adt, name = lf
    res = True
    n = 0
    for g in prog.crate_fns(FW):
        if not g.has_body or g.derived:
            continue
        for (pe, v, site) in field_stores(an.get(g), name, adt.split('::')[-1]):
            n += 1
            v2 = strip_casts(v)
            unit = num(v2) is not None or (isinstance(v2, tuple) and v2 and v2[0] == 'bin' and v2[1] in ('Add', 'Sub') and is_field(v2[2], name) and is_const(v2[3], 1)) or \
                ((is_call(v2, '::saturating_sub') or is_call(v2, '::saturating_add')) and len(v2[2]) == 2 and is_field(v2[2][0], name) and is_const(v2[2][1], 1)) or \
                (isinstance(v2, tuple) and v2 and v2[0] == 'agg')
            if not unit:
                res = False
    _UNIT[lf] = res and n > 0
    return _UNIT[lf]


def check_C01(ctx, rep):
    prog, an = ctx.prog, ctx.an
    F = fw_fns(prog)
    rep.rule('C01.R1', 'panic-site inventory: every Assert terminator and every call to a partial API in maybenot\'s own functions '
             'reachable from Framework::new/trigger_events/num_machines falls in a discharge class that is re-verified on this tree: '
             'IDX-MI (valid machine index into the same-length family), IDX-STATE (state 0 after validation, a regular sampled next state, '
             'or current_state under the Regular typestate), IDX-EVENT, ARITH-COUNTER, ARITH-GUARDED, UNWRAP-GUARDED, UNWRAP-VALIDATED, '
             'RANGE-CONST, RANGE-UNIFORM')
    rep.rule('C01.R2', 'recursion: the own-crate call graph of that set has exactly one non-trivial SCC {transition, update_counter}; '
             'the recursive call is fuelled by the per-machine once-per-call flags (C08.R3/R4 hold)')
    rep.rule('C01.R3', 'every natural loop in the set is a `for` desugaring: it advances an Iterator::next on a Range/slice/zip/enumerate '
             'iterator on every iteration and leaves only at exhaustion or through a return; loops nest at most one level per function')
    cl, own = own_closure(prog)
    for f in own:
        rep.analysed(f)
    rep.count_floor('C01.R1', 'own functions reachable from the entry points', len(own), 20)
    fam_ok = check_family(ctx, rep)
    vi = ValidIdx(ctx, rep)
    for n, v in vi.param_valid.items():
        rep.ob('C01.R1', F[n], 'index-parameter-valid-at-all-call-sites', bool(v), 'every call site passes a valid machine index')
    rep.ob('C01.R1', F['transition'], 'AllExcept-payload-valid', bool(vi.allexcept_valid), 'every AllExcept construction stores a valid index')
    # typestate
    ts = {}
    for name, fn in F.items():
        ts[name] = regular_typestate(ctx, fn, name in REGULAR_PRE)
    # preconditions at call sites
    for name, fn in F.items():
        fa = an.get(fn)
        IN, ev = ts[name]
        for (b, f, args, t) in calls(fa):
            cn = callee_str(f).split('::')[-1]
            if f.get('crate') == FW and cn in REGULAR_PRE and callee_key(f) == F[cn].key:
                ok = ev(b, len(fa.blocks[b]['s']))
                rep.ob('C01.R1', fn, 'precondition-Regular:' + cn, ok, 'current_state is known not to be END when %s is called' % cn)
    from .rules_valid import dist_ctor_table, uniform_guard, check_C12
    ctor_ok = dist_ctor_table(ctx)
    # IDX-STATE relies on validation bounding transition targets and rejecting empty machines (C12.R3/R4)
    sub = Report('C12', 'sub')
    try:
        check_C12(ctx, sub)
        bad = [o['construct'] for o in sub.obligations if not o['ok'] and o['construct'] in ('target-bound', 'zero-states-rejected', 'every-state-validated', 'state-error-propagated', 'every-machine-validated', 'machine-error-propagated', 'validate-before-Ok')]
    except AnchorMissing as e:
        bad = ['anchor ' + str(e)]
    rep.ob('C01.R1', prog.fn(FW, 'State', 'validate'), 'IDX-STATE-premise:validated-targets-in-range', not bad,
           'validation bounds every transition target and rejects empty machines: %s' % (bad or 'holds'))
    n_sites = {'assert': 0, 'index': 0, 'unwrap': 0, 'range': 0, 'other': 0}
    for fn in own:
        fa = an.get(fn)
        pf = an.paths(fn)
        name = fn.name
        tsn = ts.get(name) if fn.impl_adt and fn.impl_adt.endswith('Framework') and name in ts and F[name] is fn else None
        for b in sorted(fa.cfg.reach):
            bb = fa.blocks[b]
            t = bb['t']
            at = (b, len(bb['s']))
            if t['k'] == 'assert':
                n_sites['assert'] += 1
                mk = t['mk']
                cond = fa.operand(t['c'], at)
                if mk == 'BoundsCheck':
                    # Lt(idx, len)
                    c = cond
                    ok = False
                    cls = '?'
                    if c[0] == 'bin' and c[1] == 'Lt':
                        idx, ln = c[2], c[3]
                        if is_const(ln, int(prog.const_val('maybenot::constants::EVENT_NUM'))) and is_call(idx, 'Event::to_usize'):
                            cls = 'IDX-EVENT'
                            ok = len(prog.variants('maybenot::event::Event')) == int(prog.const_val('maybenot::constants::EVENT_NUM'))
                        elif vi.family_len(ln):
                            cls = 'IDX-MI'
                            ok = fam_ok and vi.valid(fn, fa, idx, at, assume=False)
                        desc = 'bounds check %s < %s' % (show(idx), show(ln))
                    else:
                        desc = 'bounds check %s' % show(c)
                    rep.ob('C01.R1', fn, 'assert:BoundsCheck:%s:%s' % (cls, shape(c)[:50]), ok, '%s [%s]' % (desc, cls), site='%s:%d' % (fn.file, bb['ln']))
                elif mk == 'Overflow':
                    # find the arithmetic: cond is `.1` of a checked op
                    ovf = None
                    for x in walk(cond):
                        if isinstance(x, tuple) and x and x[0] == 'ovf':
                            ovf = x[1]
                    ok = False
                    cls = '?'
                    desc = show(cond)
                    if ovf is not None:
                        op, l, r = ovf[1], ovf[2], ovf[3]
                        desc = '%s(%s, %s)' % (op, show(l), show(r))
                        cnt_fields = ('normal_sent_packets', 'padding_sent_packets', 'normal_sent', 'padding_sent')
                        if op == 'AddWithOverflow' and is_const(r, 1) and any(is_field(l, cf) for cf in cnt_fields):
                            cls, ok = 'ARITH-COUNTER', True
                        elif op == 'AddWithOverflow' and any(is_field(l, cf) for cf in cnt_fields) and any(is_field(r, cf) for cf in cnt_fields):
                            cls, ok = 'ARITH-COUNTER-SUM', True
                        elif op == 'AddWithOverflow' and is_const(r, 1) and isinstance(r, tuple) and r[0] == 'const' and r[1] in ('usize', 'u64') and \
                                last_field(l) is not None and last_field(l)[0].split('::')[-1] in ('Framework', 'MachineRuntime') and \
                                unit_step_counter(prog, an, last_field(l)):
                            # a 64-bit counter of the framework's own state stepped by one: the class of the four packet counters
                            cls, ok = 'ARITH-COUNTER', True
                        elif op == 'AddWithOverflow' and is_const(r, 1) and vi.valid(fn, fa, l, at, assume=False):
                            # index + 1 for an index known to be below a vector length
                            cls, ok = 'ARITH-INDEX', True
                        elif op == 'SubWithOverflow' and is_const(r, 1) and is_field(l, 'state_limit', 'MachineRuntime'):
                            cls = 'ARITH-GUARDED'
                            st = pf.at(b, len(bb['s']))
                            # the checked op statement precedes the assert in the same block; evaluate facts at block entry + in-block kills
                            okp, w = all_paths(pf.at_entry(b), lambda S: cmp_int_true(S, 'lt', lambda l2: is_const(l2, 0), lambda r2: is_field(r2, 'state_limit', 'MachineRuntime'))
                                               or cmp_int_true(S, 'ne', lambda l2: is_field(l2, 'state_limit', 'MachineRuntime'), lambda r2: is_const(r2, 0)))
                            ok = okp and bool(pf.at_entry(b))
                    rep.ob('C01.R1', fn, 'assert:Overflow:%s:%s' % (cls, desc[:60]), ok, 'checked arithmetic %s [%s]' % (desc, cls), site='%s:%d' % (fn.file, bb['ln']))
                else:
                    rep.ob('C01.R1', fn, 'assert:%s' % mk, False, 'undischarged assert %s' % t['msg'][:80], site='%s:%d' % (fn.file, bb['ln']))
            elif t['k'] == 'call':
                f = t['f']
                if 'indirect' in f:
                    rep.ob('C01.R1', fn, 'indirect-call', False, 'call through pointer')
                    continue
                cs = callee_str(f)
                decl = callee_decl(f)
                if is_param_call(f) and not decl.endswith('Rng::gen_range'):
                    continue
                args = tuple(fa.operand(a, at) for a in t['a'])
                if decl_matches(f, ('ops::index::Index::index', 'ops::index::IndexMut::index_mut', 'ops::Index::index', 'ops::IndexMut::index_mut')):
                    n_sites['index'] += 1
                    base = args[0][1] if args[0][0] == 'ref' else args[0]
                    idx = args[1]
                    lf = last_field(base)
                    cls, ok = '?', False
                    if lf and lf[1] in family(prog) and lf[0].endswith('Framework'):
                        cls = 'IDX-MI'
                        ok = fam_ok and vi.valid(fn, fa, idx, at, assume=False)
                    elif lf and lf[1] == 'states' and lf[0].endswith('Machine'):
                        cls = 'IDX-STATE'
                        # which machine: must itself be a valid machine (slice index checked separately)
                        if is_const(idx, 0) and name == 'new':
                            ok = state0_after_validate(ctx, fn, fa, b)
                        elif next_state_payload(idx):
                            end = prog.const_val('maybenot::constants::STATE_END')
                            sig = prog.const_val('maybenot::constants::STATE_SIGNAL')
                            pfh = an.paths(fn, history=True)
                            st = pfh.at_entry(b)
                            ok = bool(st) and all(any(f2[0] == 'nec' and next_state_payload(f2[1]) and end in f2[2] and sig in f2[2] for f2 in S) for S in st)
                        elif idx[0] == 'param' and idx[1] >= 3 and fn.inputs[idx[1] - 1:idx[1]] == ['usize']:
                            # a state index parameter: all call sites (transitively) pass a regular next state
                            ok = state_param_regular(ctx, F, fn, idx[1])
                        elif is_field(idx, 'current_state', 'MachineRuntime') and tsn is not None:
                            ok = tsn[1](b, len(bb['s']))
                        elif is_field(idx, 'current_state', 'MachineRuntime'):
                            ok = False
                    rep.ob('C01.R1', fn, 'index:%s:%s[%s]' % (cls, show(base)[-40:], show(idx)[-50:]), ok, '%s[%s] [%s]' % (show(base), show(idx), cls), site='%s:%d' % (fn.file, bb['ln']))
                elif cs.endswith('::unwrap') or cs.endswith('::expect'):
                    n_sites['unwrap'] += 1
                    recv = args[0]
                    cls, ok = '?', False
                    if is_call(recv, '::new') and 'rand_distr' in recv[1]:
                        cls = 'UNWRAP-VALIDATED'
                        ok = ctor_ok.get(strip_sites(recv)[1], False) is True or ctor_ok.get(('call', recv[1]), False)
                        ok = ctor_ok.get(recv[1], False)
                    else:
                        cls = 'UNWRAP-GUARDED'
                        rs = strip_sites(recv)
                        st = pf.at_entry(b)

                        def guarded(S):
                            for f2 in S:
                                if f2[0] == 'bcall' and f2[1].endswith('is_none') and f2[3] is False and strip_sites(unload(f2[2][0]) if f2[2][0][0] != 'phi' else f2[2][0]) is not None:
                                    a0 = f2[2][0]
                                    if strip_sites(a0) == rs or strip_sites(('load', a0[1])) == rs if a0[0] in ('refv',) else strip_sites(a0) == rs:
                                        return True
                                    # same option through a reference
                                    if show(a0).lstrip('&*') == show(rs).lstrip('&*'):
                                        return True
                                if f2[0] == 'bcall' and f2[1].endswith('is_some') and f2[3] is True and show(f2[2][0]).lstrip('&*') == show(rs).lstrip('&*'):
                                    return True
                                if f2[0] == 'variant' and f2[2] == 'Some' and show(f2[1]).lstrip('&*') == show(rs).lstrip('&*'):
                                    return True
                            return False
                        ok, w = all_paths(st, guarded)
                        ok = ok and bool(st)
                    rep.ob('C01.R1', fn, 'unwrap:%s:%s' % (cls, show(recv)[:60]), ok, 'unwrap of %s [%s]' % (shape(recv), cls), site='%s:%d' % (fn.file, bb['ln']))
                elif decl.endswith('Rng::gen_range'):
                    n_sites['range'] += 1
                    rg = args[1]
                    cls, ok = '?', False
                    if is_call(rg, 'RangeInclusive::<Idx>::new') and num(rg[2][0]) is not None and num(rg[2][1]) is not None:
                        cls = 'RANGE-CONST'
                        ok = num(rg[2][0]) <= num(rg[2][1])
                    elif rg[0] == 'agg' and rg[2] == 'Range':
                        d = dict(rg[3])
                        if num(d.get('start')) is not None and num(d.get('end')) is not None:
                            cls = 'RANGE-CONST'
                            ok = num(d['start']) < num(d['end'])
                        else:
                            cls = 'RANGE-UNIFORM'
                            ok = uniform_guard(ctx, fn, fa, b, d, need=('low-not-nan', 'high-not-nan', 'low-le-high', 'width-finite'))
                    rep.ob('C01.R1', fn, 'gen_range:%s' % cls, ok, 'gen_range(%s) [%s]' % (shape(rg), cls), site='%s:%d' % (fn.file, bb['ln']))
                elif any(cs.endswith(p) or p in cs for p in PARTIAL_CALLS) and f.get('crate') != FW:
                    if cs.endswith('::clamp'):
                        # f64::clamp(x, lo, hi) panics unless lo <= hi (and neither is NaN)
                        lo_, hi_ = args[1], args[2]
                        okc = False
                        if num(lo_) is not None and num(hi_) is not None:
                            okc = num(lo_) <= num(hi_)
                        elif num(lo_) is not None:
                            hs = strip_sites(hi_)
                            okc, w = all_paths(pf.at_entry(b), lambda S: has_cmp(S, 'lt', lambda l2: num(l2) is not None and num(l2) >= num(lo_), lambda r2: r2 == hs, True)
                                               or has_cmp(S, 'le', lambda l2: num(l2) is not None and num(l2) >= num(lo_), lambda r2: r2 == hs, True))
                            okc = okc and bool(pf.at_entry(b))
                        rep.ob('C01.R1', fn, 'partial-call:clamp:CLAMP-GUARDED', okc, 'clamp(%s, %s, %s): lo <= hi established on every path' % (show(args[0])[:30], show(lo_), show(hi_)))
                        continue
                    n_sites['other'] += 1
                    rep.ob('C01.R1', fn, 'partial-call:' + cs.split('<')[0][-50:], False, 'call to partial API %s is not in any discharge class' % cs, site='%s:%d' % (fn.file, bb['ln']))
    rep.extra['panic_site_inventory'] = n_sites
    rep.count_floor('C01.R1', 'index call sites', n_sites['index'], 17)
    rep.count_floor('C01.R1', 'assert terminators', n_sites['assert'], 6)
    rep.count_floor('C01.R1', 'unwrap call sites', n_sites['unwrap'], 6)
    # ---- R2 recursion
    keys = {f.key for f in own}
    graph = {f.key: set() for f in own}
    for f in own:
        for c in f.edges.get('calls', []) + f.edges.get('fnrefs', []):
            if 'drop' in c or c.get('indirect'):
                continue
            ck = callee_key(c)
            if ck in keys:
                graph[f.key].add(ck)
    sccs = tarjan(graph)
    nontriv = [sorted(prog.fns[k].name for k in s) for s in sccs if len(s) > 1 or (len(s) == 1 and list(s)[0] in graph[list(s)[0]])]
    rep.ob('C01.R2', '<callgraph>', 'single-known-recursion', sorted(nontriv) == [['transition', 'update_counter']], 'non-trivial SCCs: %s' % nontriv)
    fuel_check(ctx, rep, sccs, graph)
    # transition -> update_counter exactly one site each way
    uc_in_tr = sum(1 for (b, f, a, t) in calls(an.get(F['transition'])) if callee_key(f) == F['update_counter'].key)
    tr_in_uc = sum(1 for (b, f, a, t) in calls(an.get(F['update_counter'])) if callee_key(f) == F['transition'].key)
    rep.ob('C01.R2', '<callgraph>', 'cycle-edges', uc_in_tr == 1 and tr_in_uc == 1, 'transition->update_counter x%d, update_counter->transition x%d' % (uc_in_tr, tr_in_uc))
    # ---- R3 loops
    n_loops = 0
    for fn in own:
        fa = an.get(fn)
        loops = fa.cfg.loops()
        for h, body in loops.items():
            n_loops += 1
            nx = [b for b in body if fa.blocks[b]['t']['k'] == 'call' and 'indirect' not in fa.blocks[b]['t']['f'] and
                  (callee_decl(fa.blocks[b]['t']['f']).endswith('Iterator::next') or callee_str(fa.blocks[b]['t']['f']).endswith('Iterator>::next'))]
            ok = False
            why = 'no iterator advance in the loop'
            for nb in nx:
                # next() executes on every iteration: it dominates every back-edge source
                srcs = [x for (x, l) in fa.cfg.pred[h] if x in body]
                if all(fa.cfg.dominates(nb, x) for x in srcs) or nb == h:
                    f = fa.blocks[nb]['t']['f']
                    self_ty = f.get('self_ty', '') + ' ' + callee_str(f)
                    finite = any(k in self_ty for k in ('Range<', 'slice::iter::Iter<', 'slice::Iter<', 'IterMut<', 'Zip<', 'Enumerate<'))
                    ok = finite
                    why = 'advances %s' % callee_str(f)
            rep.ob('C01.R3', fn, 'loop@%s' % ('L%d' % fa.blocks[h]['ln']), ok, why, site='%s:%d' % (fn.file, fa.blocks[h]['ln']))
            # nesting
            inner = [h2 for h2, b2 in loops.items() if h2 != h and h2 in body]
            outer = [h2 for h2, b2 in loops.items() if h2 != h and h in b2]
            rep.ob('C01.R3', fn, 'loop-nesting@L%d' % fa.blocks[h]['ln'], not (inner and outer), 'nesting depth', site='%s:%d' % (fn.file, fa.blocks[h]['ln']))
    rep.count_floor('C01.R3', 'natural loops in the set', n_loops, 8)
    rep.assumptions += ["methods of the caller's R: RngCore, T: Instant, T::Duration (incl. +=) and M: AsRef<[Machine]> do not panic; as_ref() is stable",
                        'fewer than 2^63 events are ever reported to one framework (u64 event counters incremented by one)',
                        'panics or hangs inside rand / rand_distr samplers are not decided here (C13 covers the interface)',
                        'validated machines have at least one state and in-range transition targets (C12.R3/R4)',
                        'every CFG path is treated as feasible']
    return 'panic-site inventory with discharge classes over the own-crate closure of the framework entry points; SCC and loop-shape analysis'


def fuel_check(ctx, rep, sccs, graph):
    """the recursive CounterZero transition is requested only on paths that test a framework flag false and set that same
    flag true; such flags are cleared only outside everything reachable from the recursive cycle"""
    prog, an = ctx.prog, ctx.an
    F = fw_fns(prog)
    fn = F['update_counter']
    fa = an.get(fn)
    pf = an.paths(fn)
    rec = [(b, f, a, t) for (b, f, a, t) in calls(fa) if callee_key(f) == F['transition'].key]
    if len(rec) != 1:
        rep.ob('C01.R2', fn, 'recursion-fuel', False, 'recursive call sites: %d' % len(rec))
        return
    rb = rec[0][0]
    # guard local of the recursion
    pfh = an.paths(fn, history=True)
    guards = set()
    for S in pfh.at_entry(rb):
        for f in S:
            if f[0] == 'btrue' and f[2] is True and f[1][0] == 'load' and f[1][1][0] == 'local':
                guards.add(f[1][1][1])
            if f[0] == 'btrue' and f[2] is True and f[1][0] == 'phi':
                guards.add(('phi', f[1]))
    # locals switched on that dominate the call
    gl = None
    for d in sorted(fa.cfg.dom()[rb], reverse=True):
        t2 = fa.blocks[d]['t']
        if t2['k'] == 'switch' and d != rb:
            pl = t2['d'].get('c') or t2['d'].get('m')
            if pl is not None and not pl['pr']:
                l = pl['l']
                sd = fa.single_def(l)
                if sd is not None and sd[1] < len(fa.blocks[sd[0]]['s']):
                    rv = fa.blocks[sd[0]]['s'][sd[1]]['rv']
                    if rv['k'] == 'use' and not (rv['x'].get('c') or rv['x'].get('m') or {'pr': [1]})['pr']:
                        l = (rv['x'].get('c') or rv['x'].get('m'))['l']
                gl = l
                break
    if gl is None:
        rep.ob('C01.R2', fn, 'recursion-fuel', False, 'no guard local found for the recursive call')
        return
    trues = [(b, k) for (b, k, part) in fa.defs().get(gl, []) if is_const(fa.def_value(gl, b, k), 1)]
    others = [(b, k) for (b, k, part) in fa.defs().get(gl, []) if not is_const(fa.def_value(gl, b, k), 1) and not is_const(fa.def_value(gl, b, k), 0)]
    ok = bool(trues) and not others
    flag_paths = set()
    detail = []
    for (b, k) in trues:
        for S in pf.at(b, k):
            tested = [strip_sites(f[1]) for f in S if f[0] == 'btrue' and f[2] is False and f[1][0] == 'load' and contains(f[1], lambda x: isinstance(x, tuple) and x and x[0] == 'fld' and x[2].endswith('Framework'))]
            if not tested:
                ok = False
                detail.append('request without a flag test')
                continue
            # one of the tested flags is set true between here and the recursion
            setok = False
            for tf in tested:
                p = tf[1]
                for (pe, v, site, mp) in stores(fa):
                    if strip_sites(pe) == p and is_const(v, 1) and (site[0] == b or fa.cfg.can_reach(b, site[0])):
                        lo, hi = count_between_blocks(fa, b, rb, {site[0]})
                        if lo >= 1:
                            setok = True
                            flag_paths.add(last_field(p))
            if not setok:
                ok = False
                detail.append('flag tested but not set on the way to the recursion')
    # the flags are cleared only outside the functions reachable from the cycle
    cyc = set()
    for scc in sccs:
        if F['transition'].key in scc:
            cyc = set(scc)
    reach = set(cyc)
    work = list(cyc)
    while work:
        k = work.pop()
        for c in graph.get(k, ()):
            if c not in reach:
                reach.add(c)
                work.append(c)
    for k in reach:
        f2 = prog.fns[k]
        fa2 = an.get(f2)
        for (pe, v, site, mp) in stores(fa2):
            lf = last_field(pe)
            if lf in flag_paths and not is_const(v, 1):
                ok = False
                detail.append('flag %s cleared inside the recursive region (%s)' % (lf[1], f2.short()))
        for (b2, f3, a3, t3) in calls(fa2):
            if callee_str(f3).endswith('::fill') and a3 and any(contains(a3[0], lambda x: isinstance(x, tuple) and x and x[0] == 'fld' and (x[2], x[3]) == (lf2[0], lf2[1].split('.')[0])) for lf2 in flag_paths if lf2):
                ok = False
                detail.append('flags refilled inside the recursive region (%s)' % f2.short())
    rep.ob('C01.R2', fn, 'recursion-fuel', ok, 'CounterZero recursion consumes a once-per-call flag on every path: %s' % (detail or sorted(x[1] for x in flag_paths if x)))


def count_between_blocks(fa, a, b, marks):
    from .rules_limits import count_between
    if a in marks:
        return (1, 1)
    return count_between(fa, a, b, marks)


def state0_after_validate(ctx, fn, fa, b):
    """in Framework::new: states[0] is indexed only after every machine was validated"""
    val = [bb for (bb, f, a, t) in calls(fa) if callee_str(f).endswith('Machine::validate')]
    if len(val) != 1:
        return False
    loops = fa.cfg.loops()
    vh = [h for h, body in loops.items() if val[0] in body]
    if len(vh) != 1:
        return False
    # the index is outside the validation loop and only reachable after that loop's header
    return b not in loops[vh[0]] and fa.cfg.dominates(vh[0], b)


def tarjan(graph):
    index = {}
    low = {}
    st = []
    on = set()
    out = []
    counter = [0]

    def visit(v):
        index[v] = low[v] = counter[0]
        counter[0] += 1
        st.append(v)
        on.add(v)
        for w in graph[v]:
            if w not in index:
                visit(w)
                low[v] = min(low[v], low[w])
            elif w in on:
                low[v] = min(low[v], index[w])
        if low[v] == index[v]:
            comp = set()
            while True:
                w = st.pop()
                on.discard(w)
                comp.add(w)
                if w == v:
                    break
            out.append(comp)
    for v in graph:
        if v not in index:
            visit(v)
    return out
