"""Core of the static analyser: fact loading, CFG, value origins, path facts.

Everything here works on the JSON facts produced by /verif/driver (rustc MIR at
mir-opt-level=0 with resolved callees).  Nothing is executed.

Expressions (origins) are nested tuples:
  ('param', i)                       argument local i (by value)
  ('const', ty, val)                 evaluated scalar constant (val is a str)
  ('cdef', key, ty, val)             named constant (def key) with value if known
  ('ktext', ty, text)                other constant
  ('promoted', fnkey, idx)           promoted constant
  ('fn', key)                        function item
  ('local', fnkey, l)                a multi-def / address-taken local used as memory root
  ('deref', e)                       *e
  ('ref', p)                         &p (p is a place expression)
  ('fld', p, adt, name)              p.name
  ('var', p, variant)                p as Variant
  ('idx', p, e)                      p[e]
  ('load', p, site)                  value read from memory place p at site
  ('call', key, args, site|None)     result of call (site None = pure, value-numbered)
  ('bin', op, l, r) ('un', op, x) ('cast', kind, ty, x) ('discr', p)
  ('agg', adt, variant, ((name, e), ...)) ('tuple', (e, ...))
  ('phi', (e, ...)) ('rec', l) ('unknown', text)
"""
import glob
import json
import os
import re
import sys

sys.setrecursionlimit(20000)

WORKSPACE = ('maybenot', 'maybenot_ffi', 'maybenot_simulator')


class AnchorMissing(Exception):
    pass


# --------------------------------------------------------------------- loading

class Fn:
    def __init__(self, crate, j):
        self.crate = crate
        self.j = j
        self.key = j['key']
        self.path = j['path']
        self.name = j.get('name', '')
        self.dk = j.get('dk')
        self.span = j.get('span', '')
        self.impl_adt = j.get('impl_adt')
        self.impl_trait = j.get('impl_trait')
        self.impl_self = j.get('impl_self')
        self.derived = j.get('derived', False)
        self.vis = j.get('vis', '')
        self.abi = j.get('abi', '')
        self.unsafe = j.get('unsafe', False)
        self.no_mangle = j.get('no_mangle', False)
        self.inputs = j.get('inputs', [])
        self.output = j.get('output', '')
        self.parent = j.get('parent')
        self.edges = j.get('edges', {})
        body = j.get('body')
        self.has_body = body is not None
        if body:
            self.argc = body['argc']
            self.locals = body['locals']
            self.blocks = body['blocks']
            self.dbg = body['dbg']
            self.promoted = j.get('promoted', [])
        self._cache = {}

    @property
    def file(self):
        return self.span.rsplit(':', 1)[0]

    def short(self):
        a = (self.impl_adt or '').split('::')[-1]
        if self.impl_trait:
            return '<%s as %s>::%s' % (a or self.impl_self, self.impl_trait.split('::')[-1], self.name)
        if a:
            return '%s::%s' % (a, self.name)
        return self.path

    def local_ty(self, l):
        return self.locals[l]['ty']

    def var_names(self):
        """debug name -> local (only whole-local bindings)"""
        d = {}
        for v in self.dbg:
            if not v['p']['pr']:
                d.setdefault(v['name'], []).append(v['p']['l'])
        return d

    def local_name(self, l):
        for v in self.dbg:
            if v['p']['l'] == l and not v['p']['pr']:
                return v['name']
        return None


class Program:
    def __init__(self, facts_dir, inline=True, level=1, force=()):
        self.dir = facts_dir
        self.level = level
        self.crates = {}
        self.fns = {}
        self.adts = {}
        self.consts = {}
        self.impls = []
        self.traits = {}
        self.statics = {}
        for f in sorted(glob.glob(os.path.join(facts_dir, '*.json'))):
            text = open(f).read()
            m = re.match(r'\{"crate":"([A-Za-z0-9_]+)"', text)
            if not m:
                raise AnchorMissing('bad fact file ' + f)
            cname = m.group(1)
            text = re.sub(r'(?<![A-Za-z0-9_:])crate::', cname + '::', text)
            j = json.loads(text)
            if cname in self.crates:
                # build scripts / duplicates: keep the one with more functions
                if len(j['fns']) <= len(self.crates[cname]['fns']):
                    continue
            self.crates[cname] = j
        for cname, j in self.crates.items():
            for fj in j['fns']:
                fn = Fn(cname, fj)
                self.fns[fn.key] = fn
            for a in j['adts']:
                self.adts[a['path']] = a
            for c in j['consts']:
                self.consts[c['key']] = c
            for i in j['impls']:
                i['crate'] = cname
                self.impls.append(i)
            for t in j['traits']:
                self.traits[t['path']] = t
            for s in j.get('statics', []):
                self.statics[s['key']] = s
        for c in WORKSPACE:
            if c not in self.crates or not self.crates[c].get('full'):
                raise AnchorMissing('facts for workspace crate %s missing' % c)
        self.renamed = {}
        self._canonicalise_roles()
        self.absorbed = {}
        self.inlined_helpers = []
        if inline:
            from .mirinline import inline_program
            inline_program(self, level, force)

    # ---- refactor tolerance: private functions the rules name are found by ROLE when their name changed
    ROLES = [
        # (crate, impl ADT suffix or None, canonical name, predicate on Fn)
        ('maybenot', 'Framework', 'transition', lambda f: _calls(f, '::sample_state')),
        ('maybenot', 'Framework', 'update_counter', lambda f: _calls(f, '::sample_value')),
        ('maybenot', 'Framework', 'schedule_action', lambda f: _calls(f, '::sample_timeout')),
        ('maybenot', 'Framework', 'decrement_limit', lambda f: _calls(f, '::has_limit')),
        ('maybenot', 'Framework', 'process_event', lambda f: len(f.inputs) == 2 and 'TriggerEvent' in f.inputs[1]),
        ('maybenot', 'Framework', 'below_limit_blocking', lambda f: _calls(f, 'div_duration_f64') and f.output == 'bool'),
        ('maybenot', 'Framework', 'below_limit_padding', lambda f: f.output == 'bool' and len(f.inputs) == 3 and '"n":"allowed_padding_packets"' in _text(f)),
        ('maybenot', 'Framework', 'below_action_limits', lambda f: f.output == 'bool' and len(f.inputs) == 3 and '"n":"allowed_padding_packets"' not in _text(f) and not _calls(f, 'div_duration_f64')),
        ('maybenot_ffi', None, 'convert_action', lambda f: len(f.inputs) == 1 and 'TriggerAction' in f.inputs[0] and 'MaybenotAction' in f.output),
        ('maybenot_ffi', None, 'convert_event', lambda f: len(f.inputs) == 1 and 'MaybenotEvent' in f.inputs[0] and 'TriggerEvent' in f.output),
        ('maybenot_simulator', None, 'sim_network_stack', lambda f: '"variant":"TunnelRecv"' in _text(f) and f.output == 'bool'),
        ('maybenot_simulator', None, 'do_scheduled_action', lambda f: '"variant":"PaddingSent"' in _text(f) and 'Option' in f.output),
        ('maybenot_simulator', None, 'do_internal_timer', lambda f: '"variant":"TimerEnd"' in _text(f) and 'Option' in f.output),
        ('maybenot_simulator', None, 'trigger_update', lambda f: _calls(f, '::trigger_events') and '"variant":"TimerBegin"' in _text(f)),
        ('maybenot_simulator', None, 'pick_next', lambda f: '"variant":"BlockingEnd"' in _text(f) and 'Option' in f.output),
    ]

    def _canonicalise_roles(self):
        for (crate, adt, canon, pred) in self.ROLES:
            if self.fn_opt(crate, adt, canon) is not None:
                continue
            cands = []
            for f in self.fns.values():
                if f.crate != crate or f.dk == 'Closure' or not f.has_body or f.impl_trait or f.vis == 'Public':
                    continue
                a = (f.impl_adt or '').split('::')[-1] or None
                if a != adt and not (adt is None and crate == 'maybenot_ffi'):
                    continue
                try:
                    if pred(f):
                        cands.append(f)
                except Exception:
                    pass
            if len(cands) != 1:
                continue  # the rules will fail closed on the missing anchor
            self._rename(cands[0], canon, as_free=(adt is None))
        # private functions of the pinned tree without a hand-written role: a missing name is matched with the
        # single unknown private function of the same crate / impl that has the identical signature
        from . import mirinline
        sigs = mirinline.known_sigs()
        kn = mirinline.known()
        present = {mirinline.ident(f) for f in self.fns.values() if f.crate in WORKSPACE}
        for idt, (private, inputs, output) in sorted(sigs.items()):
            if not private or idt in present or idt[2]:
                continue
            cands = [f for f in self.fns.values() if f.crate == idt[0] and f.has_body and f.dk in ('Fn', 'AssocFn') and not f.impl_trait
                     and f.vis != 'Public' and mirinline.ident(f) not in kn and mirinline.ident(f)[1] == idt[1]
                     and f.inputs == inputs and f.output == output and f.key not in self.renamed]
            if len(cands) == 1:
                self._rename(cands[0], idt[3])
                present.add(idt)
        # a private FREE function that became a method (inherent, or of a private trait the table does not know) keeps its
        # signature with the receiver as first parameter; several missing functions may share one signature (peek_blocking /
        # peek_non_blocking), then the callee set recorded for the pinned function decides, if it decides uniquely
        kc = mirinline.known_calls()

        def fp(f):
            return {'::'.join((c.get('str') or c.get('key') or '').split('::')[-2:]) for c in f.edges.get('calls', []) if 'drop' not in c}
        for idt, (private, inputs, output) in sorted(sigs.items()):
            if not private or idt in present or idt[1] or idt[2]:
                continue
            cands = [f for f in self.fns.values() if f.crate == idt[0] and f.has_body and f.dk in ('Fn', 'AssocFn') and f.vis != 'Public'
                     and mirinline.ident(f) not in kn and f.inputs == inputs and f.output == output and f.key not in self.renamed
                     and (not f.impl_trait or f.impl_trait.split('::')[0] in WORKSPACE)]
            if len(cands) > 1 and kc.get(idt):
                want = kc[idt]
                scored = sorted(((len(want & fp(f)) / max(1, len(want | fp(f))), f.key, f) for f in cands), key=lambda x: (-x[0], x[1]))
                cands = [scored[0][2]] if scored[0][0] > scored[1][0] and scored[0][0] >= 0.5 else []
            if len(cands) == 1:
                f = cands[0]
                f.impl_trait = None
                self._rename(f, idt[3], as_free=True)
                present.add(idt)

    def _rename(self, f, canon, as_free=False):
        old = f.name
        if as_free:
            # a free function of the pinned tree that became an inherent method (`convert_event(e)` -> `e.into_trigger_event()`)
            f.impl_adt = None
            f.impl_self = None
        self.renamed[f.key] = (old, canon)
        f.name = canon
        if f.path.endswith('::' + old):
            f.path = f.path[:-len(old)] + canon
        for g in self.fns.values():
            if not g.has_body:
                continue
            for bb in g.blocks:
                t = bb['t']
                if t['k'] == 'call' and t['f'].get('key') == f.key:
                    for k2 in ('str', 'declstr'):
                        v = t['f'].get(k2)
                        if v and v.endswith('::' + old):
                            t['f'][k2] = v[:-len(old)] + canon
        self.aliases = getattr(self, 'aliases', {})
        self.aliases[f.key] = canon

    # ---- lookup helpers (fail closed)
    def fn(self, crate, adt, name, trait=None):
        """Find a function by crate, ADT short name of the impl (or None for free fn) and name."""
        res = []
        for f in self.fns.values():
            if f.crate != crate or f.name != name or f.dk == 'Closure':
                continue
            a = (f.impl_adt or '').split('::')[-1] or None
            if a != adt:
                continue
            if trait is None and f.impl_trait:
                continue
            if trait is not None and (f.impl_trait or '').split('::')[-1] != trait:
                continue
            res.append(f)
        if len(res) != 1:
            raise AnchorMissing('function %s::%s%s::%s: %d matches' % (
                crate, adt or '', (' as ' + trait) if trait else '', name, len(res)))
        return res[0]

    def fn_opt(self, crate, adt, name, trait=None):
        try:
            return self.fn(crate, adt, name, trait)
        except AnchorMissing:
            return None

    def adt(self, path):
        if path not in self.adts:
            raise AnchorMissing('ADT %s not found' % path)
        return self.adts[path]

    def variants(self, path):
        return [v['name'] for v in self.adt(path)['variants']]

    def variant(self, path, name):
        for v in self.adt(path)['variants']:
            if v['name'] == name:
                return v
        raise AnchorMissing('variant %s::%s not found' % (path, name))

    def const_val(self, key):
        c = self.consts.get(key)
        if c is None or 'val' not in c:
            raise AnchorMissing('constant %s not found/evaluated' % key)
        return c['val']

    def closures_of(self, fn):
        parents = {fn.key} | set(getattr(fn, 'inlined', ()))
        return [f for f in self.fns.values() if f.parent in parents and f.dk == 'Closure']

    def crate_fns(self, crate):
        return [f for f in self.fns.values() if f.crate == crate]


def _calls(f, suffix):
    for c in f.edges.get('calls', []):
        if (c.get('key') or '').endswith(suffix) or (c.get('decl') or '').endswith(suffix) or (c.get('str') or '').endswith(suffix):
            return True
    return False


def _text(f):
    if '_txt' not in f._cache:
        f._cache['_txt'] = json.dumps(f.j.get('body', {}), separators=(',', ':'))
    return f._cache['_txt']


# --------------------------------------------------------------------- callee helpers

def callee_key(f):
    """Best identity of a callee record: resolved key if resolved, else declared key."""
    if f is None:
        return None
    if 'key' in f and f.get('resolved'):
        return f['key']
    return f.get('decl') or f.get('key')


def callee_str(f):
    if 'indirect' in f:
        return '<indirect>'
    return f.get('str') if f.get('resolved') and 'str' in f else f.get('declstr', '?')


def callee_decl(f):
    return f.get('declstr', '')


def is_param_call(f):
    return (not f.get('resolved')) and f.get('self_param', False)


# --------------------------------------------------------------------- CFG

class CFG:
    """Control flow graph of a function body, cleanup blocks excluded.

    Edges are (src, dst, label) where label is
      ('sw', value_str) / ('sw_else', (values...)) for switchInt,
      ('ok',) for call/assert/drop/goto continuation.
    Known-variant pruning (pre-pass P0) removes edges of a switch on the
    discriminant of a value that was just built as a known variant, including
    through `Try::branch` of a literal `Err(..)`/`Ok(..)`.
    """

    def __init__(self, fn, body=None, adts=None):
        self.fn = fn
        self.adts = adts or {}
        self.blocks = body['blocks'] if body else fn.blocks
        n = len(self.blocks)
        self.n = n
        self.succ = [[] for _ in range(n)]
        self.pred = [[] for _ in range(n)]
        self.pruned = []
        for i, bb in enumerate(self.blocks):
            if bb['cleanup']:
                continue
            t = bb['t']
            k = t['k']
            if k == 'goto':
                self._add(i, t['t'], ('ok',))
            elif k == 'switch':
                vals = tuple(v for v, _ in t['ts'])
                known = self._known_discr(i)
                for v, tgt in t['ts']:
                    if known is not None and v != known:
                        self.pruned.append((i, tgt, v))
                        continue
                    self._add(i, tgt, ('sw', v))
                if known is not None and known in vals:
                    self.pruned.append((i, t['o'], 'else'))
                elif self._exhaustive(i, vals):
                    self.pruned.append((i, t['o'], 'else-exhaustive'))
                else:
                    self._add(i, t['o'], ('sw_else', vals))
            elif k in ('call',):
                if t['t'] is not None:
                    self._add(i, t['t'], ('ok',))
            elif k in ('drop', 'assert'):
                self._add(i, t['t'], ('ok',))
            elif k == 'other':
                for s in t.get('succ', []):
                    s = int(s)
                    if not self.blocks[s]['cleanup']:
                        self._add(i, s, ('ok',))
        self.entry = 0
        self.reach = self._reachable()
        self.returns = [i for i in self.reach if self.blocks[i]['t']['k'] == 'return']
        self._dom = None
        self._pdom = None

    def _add(self, a, b, lab):
        self.succ[a].append((b, lab))
        self.pred[b].append((a, lab))

    def _reachable(self):
        seen = {0}
        st = [0]
        while st:
            x = st.pop()
            for (y, _) in self.succ[x]:
                if y not in seen:
                    seen.add(y)
                    st.append(y)
        return seen

    STD_NVARIANTS = {'option::Option': 2, 'result::Result': 2, 'ops::ControlFlow': 2, 'control_flow::ControlFlow': 2, 'cmp::Ordering': 3}

    def _exhaustive(self, i, vals):
        """switch on `discriminant(x)` whose explicit targets cover every variant of x's enum type"""
        bb = self.blocks[i]
        d = bb['t']['d']
        pl = d.get('m') or d.get('c')
        if pl is None or pl['pr']:
            return False
        for s in reversed(bb['s']):
            if 'p' in s and s['p']['l'] == pl['l'] and not s['p']['pr']:
                rv = s['rv']
                if rv['k'] != 'discr':
                    return False
                ty = rv.get('ty', '')
                head = ty.split('<')[0]
                n = None
                for k, v in self.STD_NVARIANTS.items():
                    if head.endswith(k):
                        n = v
                if n is None and head in self.adts:
                    n = len(self.adts[head]['variants'])
                    return len(set(vals)) == n and set(vals) == {v['discr'] for v in self.adts[head]['variants']}
                return n is not None and len(set(vals)) == n
        return False

    # -- P0: known variant of the switched value
    def _known_discr(self, i):
        bb = self.blocks[i]
        t = bb['t']
        d = t['d']
        pl = d.get('m') or d.get('c')
        if pl is None or pl['pr']:
            return None
        # find `_d = discriminant(_x)` in this block
        x = None
        for s in reversed(bb['s']):
            if 'p' in s and s['p']['l'] == pl['l'] and not s['p']['pr']:
                rv = s['rv']
                if rv['k'] == 'discr' and not rv['p']['pr']:
                    x = rv['p']['l']
                elif rv['k'] == 'use' and 'k' in rv['x'] and 'scalar' in rv['x']['k'] and 'def' not in rv['x']['k']:
                    # `if cond && false`: the switched local was assigned a literal in this very block
                    return rv['x']['k']['scalar']['bits']
                break
        if x is None:
            return None
        # unique definition of _x in the whole body
        defs = []
        for j, b2 in enumerate(self.blocks):
            if b2['cleanup']:
                continue
            for s in b2['s']:
                if 'p' in s and s['p']['l'] == x:
                    defs.append(('s', j, s))
            t2 = b2['t']
            if t2['k'] == 'call' and t2['d']['l'] == x:
                defs.append(('c', j, t2))
        if len(defs) != 1:
            return None
        kind, j, d0 = defs[0]
        if kind == 's':
            if d0['p']['pr']:
                return None
            rv = d0['rv']
            for _hop in range(3):
                if rv['k'] == 'agg' and rv.get('ak') == 'adt':
                    return self._discr_of(rv['adt'], rv['variant'], rv['vi'])
                if rv['k'] == 'use' and 'k' in rv['x'] and 'scalar' in rv['x']['k'] and rv['x']['k'].get('ty', '').split('<')[0] in self.adts:
                    # a field-less enum constant (`CounterId::A` handed to an inlined helper)
                    a = self.adts[rv['x']['k']['ty'].split('<')[0]]
                    if a.get('kind') == 'enum' and all(not v['fields'] for v in a['variants']):
                        return rv['x']['k']['scalar']['bits']
                    return None
                if rv['k'] == 'use' and ('m' in rv['x'] or 'c' in rv['x']):
                    src = rv['x'].get('m') or rv['x'].get('c')
                    if src['pr']:
                        return None
                    sdefs = []
                    for b2 in self.blocks:
                        if b2['cleanup']:
                            continue
                        for s2 in b2['s']:
                            if 'p' in s2 and s2['p']['l'] == src['l']:
                                sdefs.append(s2)
                        if b2['t']['k'] == 'call' and b2['t']['d']['l'] == src['l']:
                            sdefs.append(None)
                    if len(sdefs) != 1 or sdefs[0] is None or sdefs[0]['p']['pr'] or src['l'] <= getattr(self.fn, 'argc', 0):
                        return None
                    rv = sdefs[0]['rv']
                    continue
                return None
            return None
        # call: Try::branch(arg) with arg a just-built aggregate
        f = d0['f']
        if not callee_decl(f).endswith('Try::branch'):
            return None
        a = d0['a'][0]
        apl = a.get('m') or a.get('c')
        if apl is None or apl['pr']:
            return None
        adefs = []
        for b2 in self.blocks:
            if b2['cleanup']:
                continue
            for s in b2['s']:
                if 'p' in s and s['p']['l'] == apl['l']:
                    adefs.append(s)
            if b2['t']['k'] == 'call' and b2['t']['d']['l'] == apl['l']:
                adefs.append(None)
        if len(adefs) != 1 or adefs[0] is None or adefs[0]['p']['pr']:
            return None
        rv = adefs[0]['rv']
        if rv['k'] == 'agg' and rv.get('ak') == 'adt' and rv['adt'].endswith('result::Result'):
            # ControlFlow: Continue = 0, Break = 1
            return '0' if rv['variant'] == 'Ok' else '1'
        return None

    def _discr_of(self, adt, variant, vi):
        # std enums Option/Result/ControlFlow have discr == index
        return str(vi)

    # -- dominators (iterative)
    def dom(self):
        if self._dom is None:
            self._dom = self._compute_dom(self.succ, self.pred, [0])
        return self._dom

    def _compute_dom(self, succ, pred, roots):
        nodes = sorted(self.reach)
        full = set(nodes)
        dom = {x: set(full) for x in nodes}
        for r in roots:
            dom[r] = {r}
        changed = True
        while changed:
            changed = False
            for x in nodes:
                if x in roots:
                    continue
                ps = [p for (p, _) in pred[x] if p in dom]
                if not ps:
                    new = {x}
                else:
                    new = set.intersection(*[dom[p] for p in ps]) | {x}
                if new != dom[x]:
                    dom[x] = new
                    changed = True
        return dom

    def dominates(self, a, b):
        return a in self.dom().get(b, ())

    def reachable_from(self, a, avoid=()):
        """blocks reachable from a (a included) without entering `avoid` blocks"""
        seen = set()
        st = [a]
        while st:
            x = st.pop()
            if x in seen or x in avoid:
                continue
            seen.add(x)
            for (y, _) in self.succ[x]:
                st.append(y)
        return seen

    def can_reach(self, a, b, avoid=()):
        return b in self.reachable_from(a, avoid)

    def back_edges(self):
        res = []
        for x in self.reach:
            for (y, lab) in self.succ[x]:
                if self.dominates(y, x):
                    res.append((x, y))
        return res

    def loops(self):
        """natural loops: header -> set of body blocks"""
        loops = {}
        for (x, h) in self.back_edges():
            body = {h, x}
            st = [x]
            while st:
                n = st.pop()
                if n == h:
                    continue
                for (p, _) in self.pred[n]:
                    if p not in body and p in self.reach:
                        body.add(p)
                        st.append(p)
            loops.setdefault(h, set()).update(body)
        return loops


# --------------------------------------------------------------------- definitions / origins

PURE_TRANSPARENT_REF = (
    # callee decl suffix -> returns a reference to (part of) its first argument's referent
    'convert::AsRef::as_ref', 'ops::deref::Deref::deref', 'ops::deref::DerefMut::deref_mut',
    'convert::AsMut::as_mut', 'borrow::Borrow::borrow', 'borrow::BorrowMut::borrow_mut',
)
PURE_TRANSPARENT_STR = ('vec::Vec::<T, A>::as_slice', 'vec::Vec::<T, A>::as_mut_slice')

INDEX_DECLS = ('ops::index::Index::index', 'ops::index::IndexMut::index_mut',
               'ops::Index::index', 'ops::IndexMut::index_mut')

# Calls that do not modify what their `&mut` arguments point to (they only
# hand out references); stores made through the returned references are
# tracked separately.
NONMUTATING_DESPITE_MUT = INDEX_DECLS + PURE_TRANSPARENT_REF + (
    'slice::<impl [T]>::iter_mut', 'iter::traits::collect::IntoIterator::into_iter',
    'option::Option::<T>::as_mut', 'iter::traits::iterator::Iterator::enumerate',
    'iter::traits::iterator::Iterator::zip',
)

# side-effect free, deterministic functions of their arguments: value numbered
PURE_FUNCS_SUFFIX = (
    'MachineId::into_raw', 'MachineId::from_raw', 'Event::to_usize', 'convert::Into::into',
    'convert::From::from', 'option::Option::<T>::unwrap_or', 'option::Option::<T>::is_none',
    'option::Option::<T>::is_some', 'result::Result::<T, E>::is_err', 'result::Result::<T, E>::is_ok',
    'clone::Clone::clone', 'vec::Vec::<T, A>::len', 'slice::<impl [T]>::len', 'slice::<impl [T]>::is_empty',
    'vec::Vec::<T, A>::is_empty',
    'num::<impl f64>::min', 'num::<impl f64>::max', 'num::<impl f64>::round', 'num::<impl f64>::is_nan',
    'num::<impl f64>::is_infinite', 'num::<impl f64>::is_finite', 'num::<impl f64>::clamp',
    'f64::<impl f64>::min', 'f64::<impl f64>::max', 'f64::<impl f64>::round',
    'num::<impl u64>::saturating_add', 'num::<impl u64>::saturating_sub',
    'cmp::PartialOrd::lt', 'cmp::PartialOrd::le', 'cmp::PartialOrd::gt', 'cmp::PartialOrd::ge',
    'cmp::PartialEq::eq', 'cmp::PartialEq::ne', 'cmp::Ord::cmp', 'cmp::PartialOrd::partial_cmp',
    'ops::range::RangeInclusive::<Idx>::contains', 'ops::range::Range::<Idx>::contains',
    'ops::range::RangeInclusive::<Idx>::new',
    'time::Duration::from_micros', 'time::Duration::zero', 'time::Duration::is_zero',
    'time::Instant::saturating_duration_since', 'time::Duration::div_duration_f64',
    'ops::arith::Add::add', 'ops::arith::Sub::sub',
    'str::<impl str>::len', 'str::<impl str>::is_ascii', 'str::<impl str>::as_bytes',
)


def decl_matches(f, suffixes):
    d = callee_decl(f)
    s = f.get('str', '')
    for suf in suffixes:
        if d.endswith(suf) or s.endswith(suf):
            return True
    return False


class PromotedFn:
    """a promoted constant body presented with the interface FnAnalysis needs"""

    def __init__(self, fn, idx, body):
        self.key = '%s::promoted[%d]' % (fn.key, idx)
        self.path = self.key
        self.name = 'promoted'
        self.crate = fn.crate
        self.argc = body['argc']
        self.locals = body['locals']
        self.blocks = body['blocks']
        self.dbg = body.get('dbg', [])
        self.promoted = []
        self.inputs = []
        self.span = fn.span

    def local_ty(self, l):
        return self.locals[l]['ty']

    def short(self):
        return self.key


class FnAnalysis:
    """Per-function analysis: CFG, def sites, reaching definitions, origins."""

    def __init__(self, prog, fn):
        self.prog = prog
        self.fn = fn
        self.cfg = CFG(fn, adts=getattr(prog, 'adts', None))
        self.blocks = fn.blocks
        self._defs = None
        self._rd = None
        self._origin_cache = {}
        self._addr_taken = None

    # ---- definition sites: (bb, idx) with idx == len(stmts) for the terminator
    def defs(self):
        if self._defs is None:
            d = {}
            for i in sorted(self.cfg.reach):
                bb = self.blocks[i]
                for k, s in enumerate(bb['s']):
                    if 'p' not in s:
                        continue
                    p = s['p']
                    if p['pr'] and p['pr'][0] in ('*', '*raw'):
                        continue  # store through a pointer: memory, not a def of the local
                    d.setdefault(p['l'], []).append((i, k, bool(p['pr'])))
                t = bb['t']
                if t['k'] == 'call':
                    p = t['d']
                    if not (p['pr'] and p['pr'][0] in ('*', '*raw')):
                        d.setdefault(p['l'], []).append((i, len(bb['s']), bool(p['pr'])))
            self._defs = d
        return self._defs

    def addr_taken_mut(self):
        """locals whose address is taken mutably (excluding two-phase reborrows of refs)"""
        if self._addr_taken is None:
            s = set()
            for i in self.cfg.reach:
                for st in self.blocks[i]['s']:
                    if 'p' not in st:
                        continue
                    rv = st['rv']
                    if rv['k'] in ('ref', 'rawptr') and rv.get('mut') and not any(
                            e in ('*', '*raw') for e in rv['p']['pr']):
                        s.add(rv['p']['l'])
            self._addr_taken = s
        return self._addr_taken

    def single_def(self, l):
        ds = self.defs().get(l, [])
        if l <= self.fn.argc and l != 0:
            return None  # parameter
        if len(ds) == 1 and not ds[0][2] and l not in self.addr_taken_mut():
            return ds[0]
        return None

    # ---- reaching definitions for multi-def locals (block granularity, then in-block scan)
    def reaching(self, l, bb, idx):
        """set of def sites (bb,k) of local l that may reach the point just before (bb, idx).
        'entry' in the set means the value at function entry (param or uninit)."""
        key = ('rd', l)
        if key not in self._origin_cache:
            ds = [(b, k) for (b, k, _part) in self.defs().get(l, [])]
            by_block = {}
            for (b, k) in ds:
                by_block.setdefault(b, []).append(k)
            # OUT[b] = last def in b if any else IN[b]; IN[b] = union OUT[p]
            IN = {b: set() for b in self.cfg.reach}
            OUT = {b: set() for b in self.cfg.reach}
            IN[0] = {'entry'}
            changed = True
            order = sorted(self.cfg.reach)
            while changed:
                changed = False
                for b in order:
                    if b != 0:
                        new_in = set()
                        for (p, _) in self.cfg.pred[b]:
                            if p in OUT:
                                new_in |= OUT[p]
                    else:
                        new_in = {'entry'}
                        for (p, _) in self.cfg.pred[b]:
                            if p in OUT:
                                new_in |= OUT[p]
                    # partial defs (field assigns) do not kill
                    full = [k for k in by_block.get(b, []) if not self._is_partial(l, b, k)]
                    part = [k for k in by_block.get(b, []) if self._is_partial(l, b, k)]
                    if full:
                        last = max(full)
                        new_out = {(b, last)} | {(b, k) for k in part if k > last}
                    else:
                        new_out = set(new_in) | {(b, k) for k in part}
                    if new_in != IN[b] or new_out != OUT[b]:
                        IN[b] = new_in
                        OUT[b] = new_out
                        changed = True
            self._origin_cache[key] = (IN, by_block)
        IN, by_block = self._origin_cache[key]
        ks = [k for k in by_block.get(bb, []) if k < idx]
        full = [k for k in ks if not self._is_partial(l, bb, k)]
        if full:
            last = max(full)
            return {(bb, last)} | {(bb, k) for k in ks if k > last and self._is_partial(l, bb, k)}
        return set(IN.get(bb, set())) | {(bb, k) for k in ks}

    def _is_partial(self, l, b, k):
        for (bb, kk, part) in self.defs().get(l, []):
            if bb == b and kk == k:
                return part
        return False

    # ---- places and operands to expressions
    def place_expr(self, p, at):
        """Place expression (an lvalue path) for MIR place p evaluated at point `at`."""
        l = p['l']
        pr = p['pr']
        if not pr:
            return ('local', l)
        # base: the local's value if we go through a deref, else the local as memory
        i = 0
        if pr[0] in ('*', '*raw'):
            base = ('deref', self.local_value(l, at))
            base = simp_deref(base)
            i = 1
        else:
            base = ('local', l)
        for e in pr[i:]:
            if e in ('*', '*raw'):
                base = simp_deref(('deref', ('load', base, None)))
            elif 'f' in e:
                base = ('fld', base, e.get('adt', ''), e['n'])
            elif 'dc' in e:
                base = ('var', base, e['dc'])
            elif 'ix' in e:
                base = ('idx', base, self.local_value(e['ix'], at))
            elif 'ci' in e:
                base = ('idx', base, ('const', 'usize', str(e['ci'])))
            else:
                base = ('proj', base, json.dumps(e, sort_keys=True))
        return base

    def operand(self, o, at):
        if 'c' in o or 'm' in o:
            p = o.get('c') or o.get('m')
            if not p['pr']:
                return self.local_value(p['l'], at)
            pe = self.place_expr(p, at)
            return self.read_place(pe, at)
        k = o.get('k')
        if k is None:
            return ('unknown', 'operand')
        return self.const_expr(k)

    def const_expr(self, k):
        if 'fn' in k:
            return ('fn', callee_key(k['fn']))
        if 'promoted' in k:
            v = self.promoted_value(k['promoted'])
            if v is not None:
                return v
            return ('promoted', self.fn.key, k['promoted'])
        if 'scalar' in k:
            if 'def' in k:
                return ('cdef', k['def'], k['ty'], k['scalar']['val'])
            return ('const', k['ty'], k['scalar']['val'])
        if 'def' in k:
            return ('cdef', k['def'], k['ty'], None)
        if 'static' in k:
            return ('static', k['static'])
        return ('ktext', k['ty'], k.get('text', ''))

    def promoted_value(self, idx):
        """value of a promoted constant: ('refv', v) when it is a reference to a simple value"""
        key = ('prom', idx)
        if key in self._origin_cache:
            return self._origin_cache[key]
        res = None
        try:
            body = self.fn.promoted[idx]
            pfn = PromotedFn(self.fn, idx, body)
            pa = FnAnalysis(self.prog, pfn)
            rets = pa.defs().get(0, [])
            if len(rets) == 1:
                v = pa.def_value(0, rets[0][0], rets[0][1])
                if v[0] == 'ref' and v[1][0] == 'local':
                    inner = pa.local_value(v[1][1], (rets[0][0], rets[0][1]))
                    if not any(x and x[0] in ('load', 'local', 'param', 'rec', 'phi') for x in walk(inner)):
                        res = ('refv', inner)
                elif not any(x and x[0] in ('load', 'local', 'param', 'rec', 'phi') for x in walk(v)):
                    res = v
        except Exception:
            res = None
        self._origin_cache[key] = res
        return res

    def read_place(self, pe, at):
        """value obtained by reading place expression pe at point at"""
        # reading a field of a local aggregate whose def is known: project
        root, chain = split_path(pe)
        if root[0] == 'local' and not any(c[0] == 'deref' for c in chain):
            v = self.local_value(root[1], at)
            ok = True
            for c in chain:
                v2 = project(v, c)
                if v2 is None:
                    ok = False
                    break
                v = v2
            if ok:
                return v
            # rebuild on top of the value of the local (through phi alternatives)
            if root[1] not in self.addr_taken_mut():
                v = self.local_value(root[1], at)
                alts = v[1] if v[0] == 'phi' else (v,)
                outs = []
                for a in alts:
                    e = a
                    dead = False
                    for c in chain:
                        p2 = project(e, c)
                        if p2 is not None:
                            e = p2
                        elif e[0] == 'agg' and c[0] == 'var' and e[2] != c[1]:
                            dead = True  # this alternative is another variant: cannot be the one read here
                            break
                        else:
                            e = apply_proj(e, c)
                    if not dead:
                        outs.append(e)
                outs = tuple(dict.fromkeys(outs))
                if len(outs) == 1:
                    return outs[0] if outs[0][0] in ('agg', 'const', 'cdef', 'param', 'call', 'bin', 'cast', 'un', 'tuple') else ('pick', outs[0])
                if len(outs) > 1:
                    return ('phi', outs)
        return ('load', pe, at)

    def local_value(self, l, at):
        """Expression for the value held in local l just before point `at` = (bb, idx)."""
        fn = self.fn
        if 1 <= l <= fn.argc and not self.defs().get(l) and l not in self.addr_taken_mut():
            return ('param', l)
        sd = self.single_def(l)
        if sd is not None:
            return self.def_value(l, sd[0], sd[1])
        if l in self.addr_taken_mut():
            # value may change through the pointer: treat as memory cell
            return ('load', ('local', l), at)
        rs = self.reaching(l, at[0], at[1])
        key = ('lv', l, frozenset(rs))
        if key in self._origin_cache:
            v = self._origin_cache[key]
            if v is None:
                return ('rec', l)
            return v
        self._origin_cache[key] = None
        vals = []
        for r in sorted(rs, key=lambda x: (-1, -1) if x == 'entry' else x):
            if r == 'entry':
                vals.append(('param', l) if 1 <= l <= fn.argc else ('uninit', l))
            else:
                if self._is_partial(l, r[0], r[1]):
                    vals.append(('partial', l, r))
                else:
                    vals.append(self.def_value(l, r[0], r[1]))
        vals = tuple(dict.fromkeys(vals))
        v = vals[0] if len(vals) == 1 else ('phi', vals)
        self._origin_cache[key] = v
        return v

    def def_value(self, l, b, k):
        key = ('dv', l, b, k)
        if key in self._origin_cache:
            v = self._origin_cache[key]
            return ('rec', l) if v is None else v
        self._origin_cache[key] = None
        bb = self.blocks[b]
        if k < len(bb['s']):
            v = self.rvalue(bb['s'][k]['rv'], (b, k))
        else:
            v = self.call_value(bb['t'], (b, k))
        self._origin_cache[key] = v
        return v

    def rvalue(self, rv, at):
        k = rv['k']
        if k == 'use':
            return self.operand(rv['x'], at)
        if k in ('ref', 'rawptr'):
            pe = self.place_expr(rv['p'], at)
            if pe[0] == 'deref':
                return pe[1]  # reborrow of a whole referent: same pointer
            return ('ref', pe)
        if k == 'bin':
            return ('bin', rv['op'], self.operand(rv['l'], at), self.operand(rv['r'], at), rv.get('lty', ''))
        if k == 'un':
            return ('un', rv['op'], self.operand(rv['x'], at))
        if k == 'cast':
            return ('cast', rv['ck'], rv['ty'], self.operand(rv['x'], at), rv.get('from', ''))
        if k == 'discr':
            pe = self.place_expr(rv['p'], at)
            if pe[0] == 'local':
                v = self.local_value(pe[1], at)
                if v[0] == 'optref':
                    v = self.read_place(v[1], at)
                return ('discr', v, rv.get('ty', ''))
            return ('discr', self.read_place(pe, at), rv.get('ty', ''))
        if k == 'agg':
            ops = tuple(self.operand(o, at) for o in rv['ops'])
            if rv['ak'] == 'adt':
                return ('agg', rv['adt'], rv['variant'], tuple(zip(rv['fields'], ops)))
            if rv['ak'] == 'closure':
                return ('closure', rv['def'], ops)
            return ('tuple', rv['ak'], ops)
        if k == 'repeat':
            return ('repeat', self.operand(rv['x'], at), rv.get('n'))
        if k == 'tls':
            return ('tls', rv['def'])
        return ('unknown', rv.get('text', k))

    def call_value(self, t, at):
        f = t['f']
        args = tuple(self.operand(a, at) for a in t['a'])
        if 'indirect' in f:
            return ('call', '<indirect>', args, at)
        key = callee_key(f)
        decl = callee_decl(f)
        # transparent reference conversions
        if decl_matches(f, PURE_TRANSPARENT_REF) or decl_matches(f, PURE_TRANSPARENT_STR):
            if args and args[0][0] == 'ref':
                st = f.get('self_ty', '')
                # as_ref on Option is not transparent
                if not st.lstrip('&').replace('mut ', '').startswith('core::option::Option'):
                    return ('ref', ('view', args[0][1], decl.split('::')[-1]))
        if args and args[0][0] == 'ref' and len(args) == 1 and (name_is(f, 'Option::<T>::as_ref') or name_is(f, 'Option::<T>::as_mut')):
            # Option<&T> view of an Option<T> place: same variant, payload = reference to the payload
            return ('optref', args[0][1])
        if decl_matches(f, INDEX_DECLS):
            if len(args) == 2 and args[0][0] == 'ref':
                return ('ref', ('idx', args[0][1], args[1]))
        pure = decl_matches(f, PURE_FUNCS_SUFFIX)
        name = callee_str(f)
        # shared references to plain temporaries: pass the referent's value
        am = self.addr_taken_mut()
        args = tuple(('refv', self.local_value(a[1][1], at))
                     if (a[0] == 'ref' and a[1][0] == 'local' and a[1][1] not in am) else a for a in args)
        return ('call', name, args, None if pure else at, decl, key)


def name_is(f, suffix):
    return callee_str(f).endswith(suffix) or callee_decl(f).endswith(suffix)


def simp_deref(e):
    """('deref', ('ref', p)) -> p"""
    if e[0] == 'deref' and e[1][0] == 'ref':
        return e[1][1]
    return e


def split_path(pe):
    """split a place expression into (root, [projection tuples])"""
    chain = []
    while pe[0] in ('fld', 'var', 'idx', 'view', 'proj', 'deref'):
        if pe[0] == 'fld':
            chain.append(('fld', pe[2], pe[3]))
        elif pe[0] == 'var':
            chain.append(('var', pe[2]))
        elif pe[0] == 'idx':
            chain.append(('idx', pe[2]))
        elif pe[0] == 'view':
            chain.append(('view', pe[2]))
        elif pe[0] == 'proj':
            chain.append(('proj', pe[2]))
        else:
            chain.append(('deref',))
        pe = pe[1]
    chain.reverse()
    return pe, chain


def apply_proj(e, c):
    if c[0] == 'fld':
        return ('fld', e, c[1], c[2])
    if c[0] == 'var':
        return ('var', e, c[1])
    if c[0] == 'idx':
        return ('idx', e, c[1])
    if c[0] == 'view':
        return ('view', e, c[1])
    if c[0] == 'deref':
        return ('deref', e)
    return ('proj', e, c[1])


def project(v, c):
    """project a known aggregate value; None if not statically known"""
    if c[0] == 'fld':
        if v[0] == 'optsome' and c[2] == '0':
            return ('ref', ('fld', ('var', v[1], 'Some'), 'core::option::Option', '0'))
        if v[0] == 'optsome_idx' and c[2] == '0':
            return ('ref', ('idx', v[1], v[2]))          # payload of slice.get(i) / get_mut(i): &slice[i]
        if v[0] == 'cont' and c[2] == '0':
            # (Try::branch(x) as Continue).0 is the Some / Ok payload of x
            for var in ('Some', 'Ok'):
                inner = project(v[1], ('var', var))
                if inner is not None:
                    return project(inner, c)
            return None
        if v[0] == 'agg':
            for (n, e) in v[3]:
                if n == c[2]:
                    return e
            return None
        if v[0] == 'tuple':
            try:
                return v[2][int(c[2])]
            except Exception:
                return None
        if v[0] == 'closure':
            # captured variable i of a closure value built in this function
            try:
                return v[2][int(c[2])]
            except Exception:
                return None
        if v[0] == 'bin' and v[1].endswith('WithOverflow'):
            if c[2] == '0':
                return ('bin', v[1][:-len('WithOverflow')], v[2], v[3], v[4])
            return ('ovf', v)
        return None
    if c[0] == 'var':
        if v[0] == 'agg' and v[2] == c[1]:
            return v
        if v[0] == 'optref' and c[1] == 'Some':
            return ('optsome', v[1])
        if v[0] == 'call' and c[1] == 'Some' and (v[1].endswith('<impl [T]>::get') or v[1].endswith('<impl [T]>::get_mut')) \
                and len(v[2]) == 2 and v[2][0][0] == 'ref':
            return ('optsome_idx', v[2][0][1], v[2][1])
        if v[0] == 'call' and c[1] == 'Continue' and v[1].endswith('::branch') and len(v[2]) == 1:
            return ('cont', v[2][0])
        return None
    return None


def _named_ancestor(base):
    """nearest enclosing named field below a tuple-field projection"""
    while isinstance(base, tuple) and base and base[0] in ('idx', 'var', 'view', 'deref', 'load', 'pick', 'proj'):
        base = base[1]
    if isinstance(base, tuple) and base and base[0] == 'fld':
        return fld_key(base)
    return None


def fld_key(x):
    """kill/identity key of a ('fld', base, adt, name) node; tuple fields are qualified by
    their nearest named ancestor field so that `.0` of different things do not collide"""
    if x[2] == '' or x[2].startswith('('):
        anc = _named_ancestor(x[1])
        if anc is not None:
            return (anc[0], anc[1] + '.' + x[3])
        return ('', x[3])
    return (x[2], x[3])


def path_fields(pe):
    """list of (adt, field) keys on a place expression, outermost last"""
    out = []
    e = pe
    while isinstance(e, tuple) and e and e[0] in ('fld', 'var', 'idx', 'view', 'proj', 'deref', 'load', 'pick'):
        if e[0] == 'fld':
            out.append(fld_key(e))
        e = e[1]
    out.reverse()
    return out


def strip_sites(e):
    """remove load/call sites so that structurally equal expressions compare equal"""
    if not isinstance(e, tuple):
        return e
    if e and e[0] == 'load':
        return ('load', strip_sites(e[1]))
    if e and e[0] == 'call':
        return ('call', e[1], tuple(strip_sites(a) for a in e[2]))
    return tuple(strip_sites(x) for x in e)


def walk(e):
    """yield all sub-expressions"""
    if isinstance(e, tuple):
        yield e
        for x in e:
            if isinstance(x, tuple):
                for y in walk(x):
                    yield y


def loads_in(e):
    return [x for x in walk(e) if x and x[0] == 'load']


def fields_read(e):
    """all (adt, field) keys occurring in any place path inside expression e"""
    s = set()
    for x in walk(e):
        if x and x[0] == 'fld':
            s.add(fld_key(x))
    return s


def roots_read(e):
    """parameter indices through which expression e reads memory"""
    s = set()
    for x in walk(e):
        if x and x[0] == 'deref' and isinstance(x[1], tuple) and x[1] and x[1][0] == 'param':
            s.add(x[1][1])
    return s


def show(e, depth=0):
    """compact human readable rendering of an expression"""
    if not isinstance(e, tuple) or not e:
        return str(e)
    k = e[0]
    if depth > 12:
        return '...'
    d = depth + 1
    if k == 'param':
        return 'arg%d' % e[1]
    if k == 'const':
        return e[2]
    if k == 'cdef':
        return e[1].split('::')[-1]
    if k == 'local':
        return '_%d' % e[1]
    if k == 'deref':
        return '*' + show(e[1], d)
    if k == 'ref':
        return '&' + show(e[1], d)
    if k == 'refv':
        return show(e[1], d)
    if k == 'fld':
        return '%s.%s' % (show(e[1], d), e[3])
    if k == 'var':
        return '(%s as %s)' % (show(e[1], d), e[2])
    if k == 'idx':
        return '%s[%s]' % (show(e[1], d), show(e[2], d))
    if k == 'view':
        return show(e[1], d)
    if k == 'load':
        return show(e[1], d)
    if k == 'pick':
        return show(e[1], d)
    if k == 'call':
        return '%s(%s)' % (e[1].split('::')[-1] if '::' in e[1] else e[1], ', '.join(show(a, d) for a in e[2]))
    if k == 'bin':
        return '%s(%s, %s)' % (e[1], show(e[2], d), show(e[3], d))
    if k == 'un':
        return '%s(%s)' % (e[1], show(e[2], d))
    if k == 'cast':
        return '(%s as %s)' % (show(e[3], d), e[2])
    if k == 'discr':
        return 'discr(%s)' % show(e[1], d)
    if k == 'agg':
        return '%s::%s{%s}' % (e[1].split('::')[-1], e[2], ', '.join('%s: %s' % (n, show(x, d)) for n, x in e[3]))
    if k == 'phi':
        return 'phi(%s)' % ', '.join(show(x, d) for x in e[1])
    if k == 'tuple':
        return '(%s)' % ', '.join(show(x, d) for x in e[2])
    return str(e)[:80]
