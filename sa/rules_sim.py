"""Simulator rules: C15, C16, C17, C18, C19 (event plumbing and handler tables only)."""
from .core import AnchorMissing, strip_sites, walk, show, callee_str, callee_decl, decl_matches, callee_key, is_param_call
from .paths import stores, calls, field_stores, adt_head
from .pat import (in_field, num, is_const, unload, last_field, is_field, strip_casts, is_call, has_cmp, cmp_int_true,
                  all_paths, show_facts, field_chain, root_of, contains, base_of, find_calls)
from .tables import aggregates, unwrap, src_field, src_base
from .rules_limits import ret_defs, shape, switch_conditions, min_max_on_paths, count_between
from .effects import Closure

SIM = 'maybenot_simulator'


def sim_fn(prog, name, adt=None):
    return prog.fn(SIM, adt, name)


def hand_written(prog, crate=SIM):
    return [f for f in prog.crate_fns(crate) if f.has_body and not f.derived and f.dk != 'Closure' or (f.crate == crate and f.has_body and f.dk == 'Closure')]


def sim_events(fa):
    """SimEvent aggregates in a function: [(site, event_variant, event_fields, fields, line)]"""
    out = []
    for (site, var, flds, ln) in aggregates(fa, 'maybenot_simulator::SimEvent'):
        ev = flds.get('event')
        evn, evf = None, {}
        if ev is not None and ev[0] == 'agg' and ev[1].endswith('TriggerEvent'):
            evn, evf = ev[2], dict(ev[3])
        out.append((site, evn, evf, flds, ln))
    return out


def arms_on(prog, fa, adt_path, pred):
    """switch on the discriminant of a value satisfying pred whose type is adt_path: variant -> head block"""
    names = {v['discr']: v['name'] for v in prog.adt(adt_path)['variants']}
    for b in sorted(fa.cfg.reach):
        t = fa.blocks[b]['t']
        if t['k'] != 'switch':
            continue
        e = fa.operand(t['d'], (b, len(fa.blocks[b]['s'])))
        if e[0] == 'discr' and adt_head(e[2]) == adt_path and pred(e[1]):
            arms = {}
            for (v, tgt) in t['ts']:
                if v in names:
                    arms[names[v]] = tgt
            rest = [n for n in names.values() if n not in arms]
            return arms, rest, t['o'], b
    raise AnchorMissing('%s: switch on %s' % (fa.fn.short(), adt_path))


def all_arm_heads(prog, fa, adt_path, pred, variant):
    """head blocks of `variant`'s arm in EVERY switch on a discriminant of adt_path (the code after a side
    selection may exist once per side: see mirinline.split_param_diamonds)"""
    names = {v['discr']: v['name'] for v in prog.adt(adt_path)['variants']}
    out = []
    for b in sorted(fa.cfg.reach):
        t = fa.blocks[b]['t']
        if t['k'] != 'switch':
            continue
        e = fa.operand(t['d'], (b, len(fa.blocks[b]['s'])))
        if e[0] == 'discr' and adt_head(e[2]) == adt_path and pred(e[1]):
            for (v, tgt) in t['ts']:
                if names.get(v) == variant:
                    out.append(tgt)
    return out


def push_calls(fa):
    """calls that enqueue an event: [(bb, kind, args)] kind in push_sim / push"""
    out = []
    for (b, f, a, t) in calls(fa):
        cs = callee_str(f)
        if cs.endswith('SimQueue::push_sim'):
            out.append((b, 'push_sim', a))
        elif cs.endswith('SimQueue::push'):
            out.append((b, 'push', a))
    return out


# =================================================================== C15

def check_C15(ctx, rep):
    prog, an = ctx.prog, ctx.an
    rep.rule('C15.R1', 'producer table: TunnelRecv is constructed only in the TunnelSent arm of sim_network_stack, exactly once on every path, '
             'for the opposite side, with the sent packet\'s padding flag, at a time that includes the sampled network delay; TunnelSent (normal) '
             'only in the NormalSent arm, once; TunnelSent (padding) only in the PaddingSent arm, at most once, and a popped blocked entry is '
             're-pushed on every path; NormalRecv/PaddingRecv only in the TunnelRecv arm, once, kind matching; NormalSent only from the trace parser')
    rep.rule('C15.R2', 'queue completeness: EventQueue::len and no_normal_packets consult every BinaryHeap<SimEvent> field of EventQueue; '
             'EventQueue::push stores the item in exactly one of them on every path; SimQueue consults both sides')
    rep.rule('C15.R3', 'the returned trace is the result of sorting by the time field (stable sort_by on a.time.cmp(b.time)) after the main loop')
    ns = sim_fn(prog, 'sim_network_stack')
    fa = an.get(ns)
    rep.analysed(ns)
    arms, rest, other, swb = arms_on(prog, fa, 'maybenot::event::TriggerEvent', lambda e: is_field(e, 'event', 'SimEvent') and root_of(e) == ('param', 1))
    for need in ('NormalSent', 'PaddingSent', 'TunnelSent', 'TunnelRecv'):
        rep.ob('C15.R1', ns, 'arm-present:' + need, need in arms, '')
    if not all(n in arms for n in ('NormalSent', 'PaddingSent', 'TunnelSent', 'TunnelRecv')):
        return ''
    evs = sim_events(fa)
    pushes = push_calls(fa)

    def next_field(e, name):
        return is_field(e, name, 'SimEvent') and root_of(e) == ('param', 1)
    # which arm is a block in
    def arm_of(b):
        for n, h in arms.items():
            if fa.cfg.dominates(h, b):
                return n
        return None
    pfh = an.paths(ns, history=True)
    # aggregates
    by_kind = {}
    for (site, evn, evf, flds, ln) in evs:
        by_kind.setdefault(evn, []).append((site, flds))
        arm = arm_of(site[0])
        if evn == 'TunnelRecv':
            rep.ob('C15.R1', ns, 'TunnelRecv-built-in-TunnelSent-arm', arm == 'TunnelSent', 'built in arm %s' % arm)
            c = flds.get('client')
            okc = c[0] == 'un' and c[1] == 'Not' and next_field(c[2], 'client')
            rep.ob('C15.R1', ns, 'TunnelRecv-for-opposite-side', okc, 'client = %s' % shape(c))
            # network causality: the arrival time is built from the time the packet was sent by ADDING the sampled network delay
            # (and the recipient's reporting delay); nothing but the sender's own integration delay is ever subtracted
            tm = flds.get('time')
            is_nd = lambda e: contains(e, lambda y: is_call(y, 'NetworkBottleneck::sample'))
            adds_nd = contains(tm, lambda y: isinstance(y, tuple) and y and y[0] == 'call' and y[1].endswith('::add') and len(y[2]) == 2 and is_nd(y[2][1]) and
                               contains(y[2][0], lambda z: next_field(z, 'time')))
            subs = [y for y in walk(tm) if isinstance(y, tuple) and y and ((y[0] == 'call' and y[1].endswith('::sub')) or (y[0] == 'bin' and y[1] == 'Sub'))]
            subs_ok = all(y[0] == 'call' and len(y[2]) == 2 and next_field(y[2][1], 'integration_delay') and not is_nd(y[2][1]) for y in subs)
            rep.ob('C15.R1', ns, 'TunnelRecv-time-adds-the-network-delay', adds_nd and subs_ok, 'time = %s' % shape(tm)[:160])
            cp = flds.get('contains_padding')
            st = pfh.at(site[0], site[1])
            okp = num(cp) is not None
            if okp:
                want = bool(num(cp))
                okp, w = all_paths(st, lambda S: any(f[0] == 'btrue' and next_field(f[1], 'contains_padding') and f[2] is want for f in S))
            else:
                okp = next_field(cp, 'contains_padding')
            rep.ob('C15.R1', ns, 'TunnelRecv-keeps-padding-kind:%s' % show(cp), okp, 'contains_padding = %s under the matching branch' % show(cp))
            tm = flds.get('time')
            okt = contains(tm, lambda x: is_call(x, 'NetworkBottleneck::sample')) and contains(tm, lambda x: next_field(x, 'time'))
            rep.ob('C15.R1', ns, 'TunnelRecv-time-includes-network-delay:%s' % show(cp), okt, 'time = %s' % shape(tm))
        elif evn == 'TunnelSent':
            cp = flds.get('contains_padding')
            want_arm = 'PaddingSent' if is_const(cp, 1) else ('NormalSent' if is_const(cp, 0) else None)
            rep.ob('C15.R1', ns, 'TunnelSent-kind-matches-arm:%s' % show(cp), arm == want_arm, 'TunnelSent{contains_padding: %s} built in arm %s' % (show(cp), arm))
            rep.ob('C15.R1', ns, 'TunnelSent-same-side:%s' % show(cp), next_field(flds.get('client'), 'client'), 'client = %s' % shape(flds.get('client')))
            rep.ob('C15.R1', ns, 'TunnelSent-same-time:%s' % show(cp), next_field(flds.get('time'), 'time'), 'time = %s' % shape(flds.get('time')))
            if want_arm == 'PaddingSent':
                rep.ob('C15.R1', ns, 'padding-TunnelSent-carries-flags', next_field(flds.get('bypass'), 'bypass') and next_field(flds.get('replace'), 'replace'), '')
            if want_arm == 'NormalSent':
                # a normal packet never bypasses blocking and replaces nothing (only padding carries those flags)
                rep.ob('C15.R1', ns, 'normal-TunnelSent-carries-no-flags', is_const(flds.get('bypass'), 0) and is_const(flds.get('replace'), 0),
                       'bypass = %s, replace = %s' % (shape(flds.get('bypass')), shape(flds.get('replace'))))
        elif evn is None:
            rep.ob('C15.R1', ns, 'event-of-unknown-kind', False, 'SimEvent built with event %s' % shape(flds.get('event')))
        else:
            rep.ob('C15.R1', ns, 'unexpected-event:' + evn, False, 'SimEvent{%s} built in sim_network_stack' % evn)
    rep.ob('C15.R1', ns, 'TunnelRecv-constructions', len(by_kind.get('TunnelRecv', [])) >= 1, '%d' % len(by_kind.get('TunnelRecv', [])))
    rep.ob('C15.R1', ns, 'TunnelSent-constructions', len(by_kind.get('TunnelSent', [])) == 2, '%d' % len(by_kind.get('TunnelSent', [])))
    # pushes per arm: exactly once
    push_blocks = {b for (b, k, a) in pushes}
    for arm, want in (('NormalSent', (1, 1)), ('TunnelSent', (1, 1)), ('TunnelRecv', (1, 1))):
        region = fa.cfg.reachable_from(arms[arm])
        lo, hi = min_max_on_paths(fa, arms[arm], push_blocks, region)
        rep.ob('C15.R1', ns, 'arm:%s:pushes-exactly-once' % arm, (lo, hi) == want, 'queue pushes on paths through the arm: min %s max %s' % (lo, hi))
    region = fa.cfg.reachable_from(arms['PaddingSent'])
    lo, hi = min_max_on_paths(fa, arms['PaddingSent'], push_blocks, region)
    rep.ob('C15.R1', ns, 'arm:PaddingSent:pushes-at-most-once', hi in (0, 1) and lo in (0, 1), 'min %s max %s' % (lo, hi))
    for arm in arms:
        if arm in ('NormalSent', 'PaddingSent', 'TunnelSent', 'TunnelRecv'):
            continue
        region = fa.cfg.reachable_from(arms[arm])
        lo, hi = min_max_on_paths(fa, arms[arm], push_blocks, region)
        rep.ob('C15.R1', ns, 'arm:%s:no-push' % arm, (lo, hi) == (0, 0), '')
    if rest:
        region = fa.cfg.reachable_from(other)
        lo, hi = min_max_on_paths(fa, other, push_blocks, region)
        rep.ob('C15.R1', ns, 'other-arms:no-push', (lo, hi) == (0, 0), 'variants %s' % rest)
    # what each push pushes
    for (b, kind, a) in pushes:
        arm = arm_of(b)
        if kind == 'push':
            ev = a[1]
            if ev[0] == 'phi' and all(x[0] == 'agg' and x[2] in ('NormalRecv', 'PaddingRecv') for x in ev[1]) and arm == 'TunnelRecv':
                # `let event = if next.contains_padding { PaddingRecv } else { NormalRecv }; sq.push(event, ..)`:
                # judged per path with the variant the path assigned
                op = fa.blocks[b]['t']['a'][1]
                pl_ = op.get('m') or op.get('c')
                okp = pl_ is not None and not pl_['pr']
                seen_kinds = set()
                for S in (pfh.at_call(b) if okp else []):
                    tc = pfh.tracked_const(S, pl_['l'])
                    kind_ = tc.split('::')[-1] if isinstance(tc, str) and tc.startswith('agg:') else None
                    if kind_ not in ('NormalRecv', 'PaddingRecv'):
                        okp = False
                        break
                    seen_kinds.add(kind_)
                    want = kind_ == 'PaddingRecv'
                    okm = any(f[0] == 'btrue' and next_field(f[1], 'contains_padding') and f[2] is want for f in S)
                    rep.ob('C15.R1', ns, '%s-kind-matches-packet' % kind_, okm, '')
                    okf = next_field(a[2], 'client') and next_field(a[4], 'time') and (is_const(a[3], 1 if want else 0) or next_field(a[3], 'contains_padding'))
                    rep.ob('C15.R1', ns, '%s-same-side-and-time' % kind_, okf, 'push(%s)' % ', '.join(show(x) for x in a[1:]))
                rep.ob('C15.R1', ns, 'push:per-path-kind', okp and seen_kinds == {'NormalRecv', 'PaddingRecv'}, 'sq.push(%s) in arm %s' % (shape(ev), arm))
                continue
            okk = ev[0] == 'agg' and ev[2] in ('NormalRecv', 'PaddingRecv') and arm == 'TunnelRecv'
            rep.ob('C15.R1', ns, 'push:%s' % (ev[2] if ev[0] == 'agg' else '?'), okk, 'sq.push(%s) in arm %s' % (shape(ev), arm))
            if okk:
                want = ev[2] == 'PaddingRecv'
                st = pfh.at_entry(b)
                ok, w = all_paths(st, lambda S: any(f[0] == 'btrue' and next_field(f[1], 'contains_padding') and f[2] is want for f in S))
                rep.ob('C15.R1', ns, '%s-kind-matches-packet' % ev[2], ok, '')
                rep.ob('C15.R1', ns, '%s-same-side-and-time' % ev[2], next_field(a[2], 'client') and next_field(a[4], 'time') and is_const(a[3], 1 if want else 0), 'push(%s)' % ', '.join(show(x) for x in a[1:]))
        else:
            it = a[1]
            if it[0] == 'agg':
                continue  # a freshly built event (checked above)
            # otherwise it must be the popped entry
            okp = contains(it, lambda x: is_call(x, 'pop_blocking')) or (it[0] in ('load', 'pick') and contains(it, lambda x: isinstance(x, tuple) and x and x[0] == 'local'))
            if it[0] == 'load' and it[1][0] == 'local':
                # value of a mutable local: all its definitions
                l = it[1][1]
                dv = [fa.def_value(l, bb, kk) for (bb, kk, part) in fa.defs().get(l, []) if not part]
                okp = bool(dv) and all(contains(d, lambda x: is_call(x, 'pop_blocking')) for d in dv)
            rep.ob('C15.R1', ns, 'repush-is-popped-entry', okp and arm == 'PaddingSent', 'push_sim(%s) in arm %s' % (shape(it), arm))
    # popped entries are re-pushed on every path
    rec = lambda f: callee_str(f).endswith('SimQueue::pop_blocking') or callee_str(f).endswith('SimQueue::push_sim')
    pfc = an.paths(ns, history=True, record_calls=rec, tag='poppush')
    pops = [b for (b, f, a, t) in calls(fa) if callee_str(f).endswith('SimQueue::pop_blocking')]
    for r in fa.cfg.returns:
        for S in pfc.at_entry(r):
            popped = [f for f in S if f[0] == 'called' and f[1].endswith('pop_blocking')]
            if popped:
                pushed = [f for f in S if f[0] == 'called' and f[1].endswith('push_sim') and fa.cfg.can_reach(popped[0][3], f[3])]
                rep.ob('C15.R1', ns, 'popped-entry-always-requeued', bool(pushed), '' if pushed else 'path pops a queued packet and returns without re-queueing it: ' + show_facts(S))
    rep.ob('C15.R1', ns, 'pop-sites', len(pops) <= 1, '%d' % len(pops))
    # producers elsewhere in the crate
    for fn in prog.crate_fns(SIM):
        if not fn.has_body or fn.derived or fn is ns:
            continue
        fa2 = an.get(fn)
        for (site, evn, evf, flds, ln) in sim_events(fa2):
            if evn in ('TunnelRecv', 'TunnelSent', 'NormalRecv', 'PaddingRecv', 'NormalSent'):
                rep.ob('C15.R1', fn, 'packet-event-built-elsewhere:' + evn, False, 'SimEvent{%s} constructed in %s' % (evn, fn.short()))
        for (b, kind, a) in push_calls(fa2):
            if kind == 'push':
                ev = a[1]
                nm = ev[2] if ev[0] == 'agg' else '?'
                ok = nm == 'NormalSent' and fn.name == 'parse_trace_advanced'
                rep.ob('C15.R1', fn, 'push:%s' % nm, ok, 'sq.push(%s) in %s' % (nm, fn.short()))
    # ---- R2
    eq = prog.adt('maybenot_simulator::queue_event::EventQueue')
    heaps = [f['name'] for f in eq['variants'][0]['fields'] if 'BinaryHeap' in f['ty']]
    rep.count_floor('C15.R2', 'event heaps of EventQueue', len(heaps), 4)
    for name in ('len', 'no_normal_packets'):
        fn = prog.fn(SIM, 'EventQueue', name)
        fa2 = an.get(fn)
        rep.analysed(fn)
        read = set()
        for b in fa2.cfg.reach:
            bb = fa2.blocks[b]
            for k, s in enumerate(bb['s']):
                if 'p' in s and s['rv']['k'] != 'setdiscr':
                    for x in walk(fa2.rvalue(s['rv'], (b, k))):
                        if isinstance(x, tuple) and x and x[0] == 'fld' and x[2].endswith('EventQueue'):
                            read.add(x[3])
        for h in heaps:
            rep.ob('C15.R2', fn, 'consults:' + h, h in read, '%s reads %s' % (name, sorted(read)))
        if name == 'len':
            # a sum: the heap sizes are only added (checked or plain), never subtracted or scaled
            ops = set()
            for b in fa2.cfg.reach:
                for k, s in enumerate(fa2.blocks[b]['s']):
                    if 'p' in s and s['rv']['k'] == 'bin':
                        ops.add(s['rv']['op'])
            rep.ob('C15.R2', fn, 'len-is-the-sum-of-the-heap-sizes', bool(ops) and ops <= {'Add', 'AddWithOverflow'}, 'arithmetic in len: %s' % sorted(ops))
            for sq_name in ('len',):
                sfn = prog.fn(SIM, 'SimQueue', sq_name)
                ops2 = {s['rv']['op'] for b in an.get(sfn).cfg.reach for s in an.get(sfn).blocks[b]['s'] if 'p' in s and s['rv']['k'] == 'bin'}
                rep.ob('C15.R2', sfn, 'len-is-the-sum-of-both-sides', bool(ops2) and ops2 <= {'Add', 'AddWithOverflow'}, 'arithmetic in SimQueue::len: %s' % sorted(ops2))
    pushf = prog.fn(SIM, 'EventQueue', 'push')
    pa = an.get(pushf)
    hp = [b for (b, f, a, t) in calls(pa) if callee_str(f).endswith('BinaryHeap::<T, A>::push') or callee_str(f).endswith('BinaryHeap::<T>::push')]
    lo, hi = min_max_on_paths(pa, 0, set(hp), pa.cfg.reachable_from(0))
    rep.ob('C15.R2', pushf, 'stores-in-exactly-one-heap', (lo, hi) == (1, 1), 'heap pushes per path: min %s max %s' % (lo, hi))
    for name in ('len', 'no_normal_packets'):
        fn = prog.fn(SIM, 'SimQueue', name)
        fa2 = an.get(fn)
        sides = set()
        for (b, f, a, t) in calls(fa2):
            if callee_str(f).endswith('EventQueue::' + name):
                for x in walk(a[0]):
                    if isinstance(x, tuple) and x and x[0] == 'fld' and x[2].endswith('SimQueue'):
                        sides.add(x[3])
        rep.ob('C15.R2', fn, 'both-sides', sides == {'client', 'server'}, 'consults %s' % sorted(sides))
        if name == 'no_normal_packets':
            # both sides must be done: the answer is true only on paths where both sides answered true
            pfq = an.paths(fn, history=True)
            for (b, k, v) in ret_defs(fa2):
                alts = list(v[1]) if isinstance(v, tuple) and v and v[0] == 'phi' else [v]
                if any(num(x) == 1 for x in alts) or any(is_call(unload(x), 'no_normal_packets') for x in alts):
                    sts = pfq.at(b, k) if k is not None else pfq.at_entry(b)
                    for S in sts:
                        said = {}
                        for f in S:
                            if f[0] in ('bcall', 'btrue'):
                                e = f[2][0] if f[0] == 'bcall' else f[1]
                                for z in walk(e):
                                    if isinstance(z, tuple) and z and z[0] == 'fld' and z[2].endswith('SimQueue') and z[3] in ('client', 'server'):
                                        said[z[3]] = f[3] if f[0] == 'bcall' else f[2]
                        if num(v) == 1:
                            rep.ob('C15.R2', fn, 'true-only-when-both-sides-are-done', said.get('client') is True and said.get('server') is True, 'sides answered: %s' % said)
            cj = [fa2.rvalue(s0['rv'], (b0, k0)) for b0 in fa2.cfg.reach for k0, s0 in enumerate(fa2.blocks[b0]['s']) if 'p' in s0 and s0['rv']['k'] == 'bin']
            rep.ob('C15.R2', fn, 'no-disjunction-of-the-sides', not any(isinstance(e, tuple) and e[0] == 'bin' and e[1] == 'BitOr' for e in cj), '')
    check_no_normal_packets_table(ctx, rep, 'C15.R2')
    rep.rule('C15.R5', 'trace parser: in parse_trace_advanced a NormalSent is queued for the client only under a successful comparison of the '
             'direction field with the literal "s" or "sn", for the server only under "r" or "rn" (so "sp"/"rp" padding lines and anything '
             'else never create a packet); every queued event is a NormalSent')
    check_trace_parser_table(ctx, rep, 'C15.R5')
    rep.rule('C15.R6', 'side plumbing: sim_network_stack receives (state of the event\'s side, state of the other side) as selected by next.client; '
             'peek_queue and pick_next receive (client, server) in that order')
    check_side_plumbing(ctx, rep, 'C15.R6', only=('sim_network_stack', 'peek_queue', 'pick_next'))
    check_simqueue_peek_merge(ctx, rep, 'C15.R4')
    check_misc_simulator_tables(ctx, rep, 'C15')
    ps = prog.fn(SIM, 'SimQueue', 'push_sim')
    psa = an.get(ps)
    pfps = an.paths(ps, history=True)
    for (b, f, a, t) in calls(psa):
        if callee_str(f).endswith('EventQueue::push'):
            side = [x[3] for x in walk(a[0]) if isinstance(x, tuple) and x and x[0] == 'fld' and x[2].endswith('SimQueue')]
            st = pfps.at_entry(b)
            want = side and side[0] == 'client'
            ok, w = all_paths(st, lambda S: any((f2[0] == 'btrue' and f2[2] is want and is_field(f2[1], 'client', 'SimEvent')) or
                                                (f2[0] in ('eqc',) and is_field(f2[1], 'client', 'SimEvent') and (f2[2] != '0') is want) or
                                                (f2[0] == 'nec' and is_field(f2[1], 'client', 'SimEvent') and ('0' in f2[2]) is want) for f2 in S))
            rep.ob('C15.R2', ps, 'routes-to-own-side:%s' % (side[0] if side else '?'), ok, '')
    # ---- R3
    sa = sim_fn(prog, 'sim_advanced')
    saa = an.get(sa)
    rep.analysed(sa)
    sorts = [(b, f, a, t) for (b, f, a, t) in calls(saa) if callee_str(f).endswith('::sort_by') or callee_str(f).endswith('::sort_by_key') or callee_str(f).endswith('::sort_unstable_by')]
    loops = saa.cfg.loops()
    ok = len(sorts) == 1 and all(saa.cfg.dominates(sorts[0][0], r) for r in saa.cfg.returns) and not any(sorts[0][0] in body for body in loops.values())
    rep.ob('C15.R3', sa, 'trace-sorted-before-return', ok, 'sort calls: %s' % [callee_str(s[1]).split('::')[-1] for s in sorts])
    if ok:
        clo = sorts[0][2][1]
        okc = clo[0] == 'closure' and clo[1] in prog.fns
        if okc:
            ca = an.get(prog.fns[clo[1]])
            rv = [v for (b, k, v) in ret_defs(ca)]
            okc = len(rv) == 1 and is_call(rv[0], '::cmp') and all(is_field(x[1] if x[0] in ('ref', 'refv') else x, 'time', 'SimEvent') for x in rv[0][2])
            if okc:
                a0 = rv[0][2][0]
                a1 = rv[0][2][1]
                okc = contains(a0, lambda x: x == ('param', 2)) and contains(a1, lambda x: x == ('param', 3))
        rep.ob('C15.R3', sa, 'sorted-ascending-by-time', okc, 'comparator a.time.cmp(&b.time)')
        # the sorted vector is what is returned
        rets = ret_defs(saa)
        srt_locals = {x[1] for x in walk(sorts[0][2][0]) if isinstance(x, tuple) and len(x) == 2 and x[0] == 'local'}
        ret_locals = {x[1] for r in rets for x in walk(r[2]) if isinstance(x, tuple) and len(x) == 2 and x[0] == 'local'}
        rep.ob('C15.R3', sa, 'returns-the-sorted-vector', len(rets) == 1 and bool(srt_locals & ret_locals), 'returns %s' % (shape(rets[0][2]) if rets else '?'))
    rep.rule('C15.R4', 'queue tag agreement: every Queue tag handed out with a peeked event names the heap the event came from, EventQueue::pop '
             'pops the heap its tag names (exhaustive over Queue), and the SimQueue wrappers route to the side selected by is_client')
    check_queue_tags(ctx, rep, 'C15.R4')
    check_pop_blocking(ctx, rep, 'C15.R4')
    rep.assumptions += ['ordering/time properties of the queue machinery and the "exactly that many when the run ends" count are NOT decided',
                        'every CFG path is treated as feasible']
    return 'producer table of packet events in the simulator, queue completeness, final sort'


# =================================================================== shared helpers for C16-C18

def side_state_field(e, field):
    """(param index, ok) when e is <state param>.field of a SimState parameter"""
    e = unload(e)
    if isinstance(e, tuple) and e and e[0] == 'fld' and e[3] == field and e[2].endswith('SimState'):
        r = root_of(e)
        if r[0] == 'param':
            return r[1]
    return None


def trigger_event_aggs(fa, variant):
    """TriggerEvent::<variant> aggregates: [(site, fields)]"""
    return [(site, flds) for (site, var, flds, ln) in aggregates(fa, 'event::TriggerEvent') if var == variant]


def producers(prog, an, variant):
    """hand-written functions of the simulator constructing TriggerEvent::<variant>"""
    out = []
    for fn in prog.crate_fns(SIM):
        if not fn.has_body or fn.derived:
            continue
        if trigger_event_aggs(an.get(fn), variant):
            out.append(fn)
    return out


def action_field(e, variant, field):
    sf = src_field(e)
    if sf is not None:
        return sf[0].endswith('TriggerAction') and sf[1] == variant and sf[2] == field
    # an or-pattern arm (`SendPadding { timeout, machine, .. } | BlockOutgoing { timeout, machine, .. }`): the binding is the
    # same-named field of whichever variant matched, `variant` among them
    from .tables import unwrap
    x = unload(unwrap(e))
    if isinstance(x, tuple) and x and x[0] == 'deref' and isinstance(x[1], tuple) and x[1] and x[1][0] in ('phi', 'pick'):
        y = x[1] if x[1][0] == 'phi' else x[1][1]
        if isinstance(y, tuple) and y and y[0] == 'phi' and all(isinstance(a, tuple) and a and a[0] in ('ref', 'refv') for a in y[1]):
            x = ('phi', tuple(a[1] for a in y[1]))
    if isinstance(x, tuple) and x and x[0] == 'phi':
        fs = [src_field(a) for a in x[1]]
        return all(f is not None and f[0].endswith('TriggerAction') and f[2] == field for f in fs) and any(f[1] == variant for f in fs) and \
            len({f[1] for f in fs}) == len(fs)
    return False


# =================================================================== C16

def check_C16(ctx, rep):
    prog, an = ctx.prog, ctx.an
    rep.rule('C16.R1', 'BlockOutgoing arm of do_scheduled_action, per side: blocking_until and blocking_bypassable are stored together under one '
             'guard that contains the action\'s replace flag or the later-expiry test; the stored expiry is a.time + duration and the flag is the '
             'action\'s bypass; the client branch writes only the client state and vice versa; a BlockingBegin{machine} carrying the action\'s '
             'machine is returned on every path through the arm')
    rep.rule('C16.R2', 'the expiry branch of pick_next clears blocking_until of the expiring side and builds exactly one BlockingEnd at '
             'current_time + b (+ reporting delay); BlockingBegin is built only in do_scheduled_action and BlockingEnd only in pick_next; '
             'pick_next consults the blocking expiry and the scheduled actions on every path; peek_blocked_exp computes the expiry from the '
             'slot of the side it reports and reports the side whose expiry is the earliest')
    rep.rule('C16.R3', 'when BlockingBegin is produced blocking_until of that side is definitely Some (typestate of the Option slot): on every '
             'path either the slot was just stored Some or it was tested to be Some')
    rep.rule('C16.R4', 'side consistency of the bypass decision in peek_queue: a state\'s blocking_bypassable is consulted only on paths where the '
             'peeked event belongs to that same side, and peek_queue_earliest_side receives until/bypassable of one state with the matching side flag')
    ds = sim_fn(prog, 'do_scheduled_action')
    fa = an.get(ds)
    rep.analysed(ds)
    arms, rest, other, swb = arms_on(prog, fa, 'maybenot::action::TriggerAction', lambda e: True)
    if 'BlockOutgoing' not in arms:
        rep.fail_closed('C16.R1', 'do_scheduled_action: BlockOutgoing arm')
        return ''
    heads = all_arm_heads(prog, fa, 'maybenot::action::TriggerAction', lambda e: True, 'BlockOutgoing') or [arms['BlockOutgoing']]
    region = set()
    for head in heads:
        region |= fa.cfg.reachable_from(head)
    rs = lambda pe, val: is_field(pe, 'blocking_until', 'SimState') or is_field(pe, 'blocking_bypassable', 'SimState')
    pf = an.paths(ds, history=True, record_stores=rs, tag='blk')
    # returns in the arm
    n_ret = 0
    for (b, k, v) in ret_defs(fa):
        if b not in region or not any(fa.cfg.dominates(head, b) for head in heads):
            continue
        n_ret += 1
        ok = v[0] == 'agg' and v[2] == 'Some'
        ev = None
        if ok:
            se = dict(v[3])['0']
            ok = se[0] == 'agg' and se[1].endswith('SimEvent')
            if ok:
                fl = dict(se[3])
                ev = fl.get('event')
                ok = ev[0] == 'agg' and ev[2] == 'BlockingBegin' and action_field(dict(ev[3]).get('machine'), 'BlockOutgoing', 'machine')
        rep.ob('C16.R1', ds, 'BlockingBegin-returned-on-every-path', ok, 'arm returns %s' % shape(v)[:70])
        if not ok:
            continue
        # per path: paired stores, side consistency, typestate
        for S in pf.at(b, k):
            side_true = [f for f in S if f[0] == 'btrue' and unload(f[1]) == ('local', None)]
            st_until = [f for f in S if f[0] == 'stored' and f[1][1] == 'blocking_until']
            st_byp = [f for f in S if f[0] == 'stored' and f[1][1] == 'blocking_bypassable']
            sides_u = {root_of(f[2])[1] for f in st_until if root_of(f[2])[0] == 'param'}
            sides_b = {root_of(f[2])[1] for f in st_byp if root_of(f[2])[0] == 'param'}
            rep.ob('C16.R1', ds, 'expiry-and-bypass-flag-stored-together', sides_u == sides_b, 'until stored for %s, bypassable stored for %s' % (sorted(sides_u), sorted(sides_b)))
            rep.ob('C16.R1', ds, 'one-side-per-path', len(sides_u) <= 1, '')
            # which side is this path: is_client flag
            isc = [f[2] for f in S if f[0] == 'btrue' and f[1][0] == 'load' and f[1][1][0] == 'local']
            # typestate: stored, or tested Some
            for sd in (1, 2):
                pass
            side = None
            for f in S:
                if f[0] == 'btrue' and contains(f[1], lambda x: isinstance(x, tuple) and x and x[0] == 'local') and not contains(f[1], lambda x: isinstance(x, tuple) and x and x[0] == 'fld'):
                    side = 1 if f[2] else 2
            # the event's bypass field tells the side read
            evb = fl.get('bypass')
            sides_read = {side_state_field(x, 'blocking_bypassable') for x in (evb[1] if evb[0] == 'phi' else (evb,))} - {None}
            if sides_u:
                rep.ob('C16.R1', ds, 'stores-own-side-only', sides_u <= sides_read or not sides_read, 'stores side %s on a path reporting side %s' % (sorted(sides_u), sorted(sides_read)))
            stored_some = any(f[3][0] == 'agg' and f[3][2] == 'Some' for f in st_until)
            tested_some = any(f[0] == 'variant' and f[2] == 'Some' and side_state_field(f[1], 'blocking_until') is not None for f in S)
            who = 'client' if (sides_u == {1} or (not sides_u and any(side_state_field(f[1], 'blocking_until') == 1 or contains(f, lambda x: side_state_field(x, 'blocking_until') == 1) for f in S))) else 'server'
            if not sides_u:
                # no store: which side's slot is compared on this path
                cmpd = set()
                for f in S:
                    for x in walk(f):
                        sp_ = side_state_field(x, 'blocking_until') if isinstance(x, tuple) else None
                        if sp_:
                            cmpd.add(sp_)
                who = 'client' if cmpd == {1} else ('server' if cmpd == {2} else 'either')
            rep.ob('C16.R3', ds, 'slot-definitely-Some-when-BlockingBegin:%s' % who, stored_some or tested_some,
                   'BlockingBegin produced while blocking_until may be None (no store on this path and the slot was only read through unwrap_or)' if not (stored_some or tested_some) else '')
            # guard of the stores
            if st_until:
                rp = any(f[0] == 'btrue' and f[2] is True and action_field(f[1], 'BlockOutgoing', 'replace') for f in S)
                # strictly later: an equal expiry does not "update" the blocking (and must not overwrite its bypass flag)
                later = any(f[0] == 'cmp' and f[5] is True and f[1] == 'lt' and contains(f[2], lambda x: side_state_field(x, 'blocking_until') is not None) and
                            contains(f[3], lambda x: action_field(x, 'BlockOutgoing', 'duration')) for f in S)
                rep.ob('C16.R1', ds, 'store-guard-is-replace-or-later-expiry', rp or later, '' if (rp or later) else show_facts(S))
                # the expiry compared with is the one of the side whose blocking is (re)written
                cmp_sides = set()
                for f in S:
                    if f[0] == 'cmp' and f[1] in ('lt', 'le') and contains(f[3], lambda x: action_field(x, 'BlockOutgoing', 'duration')):
                        for x in walk(f[2]):
                            sp2 = side_state_field(x, 'blocking_until') if isinstance(x, tuple) else None
                            if sp2:
                                cmp_sides.add(sp2)
                if cmp_sides:
                    rep.ob('C16.R1', ds, 'later-expiry-test-reads-the-side-it-updates', cmp_sides == sides_u, 'compares with blocking_until of param %s, stores param %s' % (sorted(cmp_sides), sorted(sides_u)))
                for f in st_until:
                    v2 = f[3]
                    okv = v2[0] == 'agg' and v2[2] == 'Some'
                    if okv:
                        x = dict(v2[3])['0']
                        okv = is_call(x, '::add') or (x[0] == 'bin' and x[1] == 'Add')
                        okv = okv and contains(x, lambda y: is_field(y, 'time', 'ScheduledAction')) and contains(x, lambda y: action_field(y, 'BlockOutgoing', 'duration'))
                    rep.ob('C16.R1', ds, 'expiry-is-time-plus-duration', okv, 'stores %s' % shape(v2))
                for f in st_byp:
                    rep.ob('C16.R1', ds, 'flag-is-action-bypass', action_field(f[3], 'BlockOutgoing', 'bypass'), 'stores %s' % shape(f[3]))
    rep.count_floor('C16.R1', 'returns in the BlockOutgoing arm', n_ret, 1)
    # writers of the two fields across the crate
    for fn in prog.crate_fns(SIM):
        if not fn.has_body or fn.derived:
            continue
        fa2 = an.get(fn)
        for fld_ in ('blocking_until', 'blocking_bypassable'):
            for (pe, v, site) in field_stores(fa2, fld_, 'SimState'):
                ok = fn.name in ('do_scheduled_action', 'pick_next') if fld_ == 'blocking_until' else fn.name == 'do_scheduled_action'
                rep.ob('C16.R1', fn, 'writer:' + fld_, ok, '%s written in %s' % (fld_, fn.short()))
    # ---- R2
    pn = sim_fn(prog, 'pick_next')
    pa = an.get(pn)
    rep.analysed(pn)
    pb = producers(prog, an, 'BlockingBegin')
    pe_ = producers(prog, an, 'BlockingEnd')
    rep.ob('C16.R2', '<inventory>', 'BlockingBegin-producers', [f.name for f in pb] == ['do_scheduled_action'], '%s' % [f.short() for f in pb])
    rep.ob('C16.R2', '<inventory>', 'BlockingEnd-producers', [f.name for f in pe_] == ['pick_next'], '%s' % [f.short() for f in pe_])
    ends = [(site, evn, evf, flds) for (site, evn, evf, flds, ln) in sim_events(pa) if evn == 'BlockingEnd']
    rep.count_exact('C16.R2', 'BlockingEnd events built in pick_next', len(ends), 1)
    pick_next_consults(ctx, rep, 'C16.R2', 'peek_blocked_exp', 'a blocking expiry that is not looked at never reports BlockingEnd')
    check_peek_blocked_exp(ctx, rep, 'C16.R2')
    check_side_plumbing(ctx, rep, 'C16.R2', only=('peek_blocked_exp', 'peek_scheduled_action', 'do_scheduled_action', 'pick_next', 'peek_queue'))
    check_pick_next_handlers(ctx, rep, 'C16.R2', 'do_scheduled_action', 'peek_scheduled_action')
    check_pick_priorities(ctx, rep, 'C16.R2', only=('blocking expiry', 'aggregate delay'))
    # a scheduled BlockOutgoing begins blocking only if the peek over the action slots finds it (shared with C17.R4)
    peek_nonstrict(ctx, rep, 'C16.R2', 'peek_scheduled_action', 'action')
    pick_next_consults(ctx, rep, 'C16.R2', 'peek_scheduled_action', 'a scheduled BlockOutgoing that is not looked at never begins blocking')
    rsn = lambda pe, val: is_field(pe, 'blocking_until', 'SimState')
    ppf = an.paths(pn, history=True, record_stores=rsn, tag='until')
    for (site, evn, evf, flds) in ends:
        tm = flds.get('time')
        okt = contains(tm, lambda x: x == ('param', 5)) and contains(tm, lambda x: is_call(x, 'peek_blocked_exp'))
        rep.ob('C16.R2', pn, 'BlockingEnd-at-expiry', okt, 'time = %s' % shape(tm))
        cl = flds.get('client')
        okc = contains(cl, lambda x: is_call(x, 'peek_blocked_exp'))
        rep.ob('C16.R2', pn, 'BlockingEnd-for-expiring-side', okc, 'client = %s' % shape(cl))
        for S in ppf.at(site[0], site[1]):
            cleared = [f for f in S if f[0] == 'stored' and f[3][0] == 'agg' and f[3][2] == 'None']
            sides = {root_of(f[2])[1] for f in cleared}
            side_flag = [f[2] for f in S if f[0] == 'btrue' and contains(f[1], lambda x: is_call(x, 'peek_blocked_exp'))]
            want = {1 + 1} if side_flag and side_flag[0] else {3}
            rep.ob('C16.R2', pn, 'expiry-clears-the-expiring-side', len(sides) == 1 and sides == want, 'cleared %s on a path with is_client=%s' % (sorted(sides), side_flag[:1]))
    # ---- R4 peek side consistency
    pq = sim_fn(prog, 'peek_queue')
    qa = an.get(pq)
    rep.analysed(pq)
    qpf = an.paths(pq, history=True)
    n_reads = 0
    for (b, e) in switch_conditions(qa):
        sp_ = side_state_field(e, 'blocking_bypassable')
        if sp_ is None:
            continue
        n_reads += 1
        want = (sp_ == 2)  # param 2 = client, param 3 = server
        for S in qpf.at_entry(b):
            ok = any(f[0] == 'btrue' and f[2] is want and is_field(f[1], 'client', 'SimEvent') for f in S)
            rep.ob('C16.R4', pq, 'bypass-flag-of-own-side:%s' % ('client' if want else 'server'), ok, 'blocking_bypassable of param %d read on a path where peek.client is %s' % (sp_, 'not established' if not ok else want))
    rep.count_floor('C16.R4', 'reads of blocking_bypassable in peek_queue conditions', n_reads, 2)
    for (b, f, a, t) in calls(qa):
        if callee_str(f).endswith('peek_queue_earliest_side'):
            su, sb = side_state_field(a[1], 'blocking_until'), side_state_field(a[2], 'blocking_bypassable')
            flag = num(a[5])
            ok = su is not None and su == sb and flag is not None and ((su == 2) == bool(flag))
            rep.ob('C16.R4', pq, 'earliest-side-args:%s' % ('client' if flag else 'server'), ok, 'until of param %s, bypassable of param %s, is_client %s' % (su, sb, flag))
    # the head of the queue is handed out as the next event only when it is free to leave: it is not a TunnelSent, or its own side is
    # not blocking, or it bypasses a bypassable blocking of its own side (this is what holds a packet back while blocking is active)
    n_head = 0
    for (b, k, v) in ret_defs(qa):
        if not (isinstance(v, tuple) and v and v[0] == 'tuple' and len(v[2]) == 3 and is_field(v[2][2], 'client', 'SimEvent')):
            continue
        n_head += 1
        sts = qpf.at(b, k) if k is not None else qpf.at_entry(b)

        def consistent(S):
            seen = {}
            for f in S:
                if f[0] == 'btrue':
                    key, pol = ('t', f[1]), f[2]
                elif f[0] == 'bcall':
                    key, pol = ('c', f[1], f[2]), f[3]
                else:
                    continue
                if seen.setdefault(key, pol) != pol:
                    return False
            return True

        def free(S):
            g = lambda pred, pol: any(f[0] == 'btrue' and f[2] is pol and pred(f[1]) for f in S)
            blocking = lambda side, pol: any(f[0] == 'bcall' and ((f[1].endswith('is_some') and f[3] is pol) or (f[1].endswith('is_none') and f[3] is (not pol))) and
                                             side_state_field(f[2][0], 'blocking_until') == side for f in S)
            if any(f[0] == 'bcall' and f[1].endswith('is_event') and f[3] is False and contains(f[2], lambda y: isinstance(y, tuple) and y and y[0] == 'agg' and y[2] == 'TunnelSent') for f in S):
                return True
            is_cl = lambda e: is_field(e, 'client', 'SimEvent')
            if blocking(2, False) and blocking(3, False):
                return True
            for (side, pol) in ((2, True), (3, False)):
                if g(is_cl, pol):
                    if blocking(side, False):
                        return True
                    if blocking(side, True) and g(lambda e, side=side: side_state_field(e, 'blocking_bypassable') == side, True) and g(lambda e: is_field(e, 'bypass', 'SimEvent'), True):
                        return True
            return False
        feas = [S for S in sts if consistent(S)]
        bad = [S for S in feas if not free(S)]
        rep.ob('C16.R4', pq, 'head-handed-out-only-when-free-to-leave', bool(feas) and not bad, 'paths %d' % len(feas) + ('' if not bad else '; witness ' + show_facts(bad[0])))
    rep.count_floor('C16.R4', 'returns of the queue head in peek_queue', n_head, 3)
    check_earliest_side(ctx, rep, 'C16.R4')
    check_is_event_table(ctx, rep, 'C16.R4')
    rep.rule('C16.R5', 'bypass classification: queue::peek_blocking treats the bypassable heap as blocked exactly when the active blocking is not '
             'bypassable, queue::peek_non_blocking treats it as free exactly when it is; peek_queue_earliest_side passes the side\'s own flag')
    check_bypass_classification(ctx, rep, 'C16.R5')
    check_pop_blocking(ctx, rep, 'C16.R5')
    rep.rule('C16.R6', 'replacement of a padding by the queued normal packet (PaddingSent arm of sim_network_stack): the queued packet is taken '
             'out of the blocked queue and marked bypassable only on paths where the padding itself carries the bypass flag (next.bypass), '
             'whatever the active blocking allows; the flags of the active blocking only select the queue that is peeked/popped')
    check_replace_promotion(ctx, rep, 'C16.R6')
    # a normal packet enters the tunnel queue without the bypass flag: only padding (and what bypass+replace padding promotes) may pass
    # a bypassable blocking
    nsf = sim_fn(prog, 'sim_network_stack')
    n_ts = 0
    for (site, evn, evf, flds, ln) in sim_events(an.get(nsf)):
        if evn == 'TunnelSent' and is_const(flds.get('contains_padding'), 0):
            n_ts += 1
            rep.ob('C16.R6', nsf, 'normal-TunnelSent-does-not-bypass', is_const(flds.get('bypass'), 0), 'bypass = %s' % shape(flds.get('bypass')))
    rep.count_floor('C16.R6', 'normal TunnelSent events built in sim_network_stack', n_ts, 1)
    rep.assumptions += ['which queued packet leaves while blocked (peek selection among queues) is NOT decided',
                        'every CFG path is treated as feasible']
    return 'handler tables for blocking in the simulator, Option-slot typestate, producer inventory, side consistency of the bypass decision'


# =================================================================== C17

def private_callees(ctx, fn):
    """workspace functions called directly by fn that are not public API (refactor tolerance: extracted helpers)"""
    out = []
    fa = ctx.an.get(fn)
    for (b, f, a, t) in calls(fa):
        g = ctx.prog.fns.get(callee_key(f)) if f.get('resolved') else None
        if g is not None and g.has_body and g.crate == fn.crate and g.vis != 'Public' and g is not fn and g not in out and not g.impl_trait:
            out.append(g)
    return out


def clearing_sites(fa):
    """places where an Option slot reached through a loop iterator is emptied:
    [(kind, place expr, (bb, idx|None))]"""
    out = []
    is_it = lambda pe: contains(pe, lambda x: is_call(x, 'Iterator>::next') or is_call(x, 'Iterator::next'))
    for (pe, v, site, mp) in stores(fa):
        if v[0] == 'agg' and v[2] == 'None' and v[1].endswith('Option') and is_it(pe) and any(e in ('*', '*raw') for e in mp['pr']):
            out.append(('= None', pe, site))
    # `let id = slice.iter().position(pred)?; slice[id] = None` (normal form N2 turned position() into a counting loop whose counter
    # is, by construction, the index of the element the iterator yielded last): the store clears the element the predicate accepted
    for pl_ in getattr(fa.fn, 'position_loops', []):
        if 'elem' not in pl_:
            continue
        for (pe, v, site, mp) in stores(fa):
            if not (v[0] == 'agg' and v[2] == 'None' and v[1].endswith('Option')):
                continue
            x = unload(pe)
            if not (isinstance(x, tuple) and x and x[0] == 'idx'):
                continue
            ix = x[2]
            if not contains(ix, lambda y: y in (('rec', pl_['ctr']), ('local', pl_['ctr']), ('load', ('local', pl_['ctr'])))):
                continue
            # the indexed slice is the one the loop iterates over
            nb = pl_['next_block']
            tnx = fa.blocks[nb]['t']
            itv = fa.call_value(tnx, (nb, len(fa.blocks[nb]['s']))) if tnx['k'] == 'call' else None
            src_ok = False
            itl = pl_['iter']
            if itv is not None and itv[2] and itv[2][0][0] == 'ref' and itv[2][0][1][0] == 'local':
                itl = itv[2][0][1][1]      # the iterator local the (forwarded) receiver borrows
            for (bb, kk, part) in fa.defs().get(itl, []):
                dv = fa.def_value(itl, bb, kk)
                for y in walk(dv):
                    if isinstance(y, tuple) and y and is_call(y, '<impl [T]>::iter') and strip_sites(unload(y[2][0][1]) if y[2][0][0] in ('ref', 'refv') else y[2][0]) == strip_sites(unload(x[1])):
                        src_ok = True
                    elif isinstance(y, tuple) and y and is_call(y, '<impl [T]>::iter') and show(strip_sites(y[2][0])).lstrip('&*') == show(strip_sites(x[1])).lstrip('&*'):
                        src_ok = True
            if not src_ok or itv is None:
                continue
            elem = ('pick', ('fld', ('var', itv, 'Some'), 'core::option::Option', '0'))
            out.append(('position', ('deref', elem), site))
    for (b, f, a, t) in calls(fa):
        cs = callee_str(f)
        if (cs.endswith('Option::<T>::take') or cs.endswith('mem::take')) and a and is_it(a[0]):
            out.append(('take()', a[0], (b, None)))
        if cs.endswith('mem::replace') and len(a) == 2 and is_it(a[0]) and a[1][0] == 'agg' and a[1][2] == 'None':
            out.append(('replace(None)', a[0], (b, None)))
    return out


def due_fact(ctx, S, lpred, rpred):
    """the path established slot time == target, directly or through an is_some_and closure"""
    if has_cmp(S, 'eq', lpred, rpred, True):
        return True
    for f in S:
        if f[0] == 'bcall' and f[3] is True and f[1].endswith('is_some_and'):
            for a in f[2]:
                if isinstance(a, tuple) and a and a[0] == 'closure' and a[1] in ctx.prog.fns:
                    ca = ctx.an.get(ctx.prog.fns[a[1]])
                    rv = [v for (b, k, v) in ret_defs(ca)]
                    if len(rv) == 1 and (is_call(rv[0], 'PartialEq>::eq') or is_call(rv[0], 'PartialEq::eq') or (rv[0][0] == 'bin' and rv[0][1] == 'Eq')):
                        return True
    return False


def slot_index_ok(pe, vec_field, variant):
    """pe == state.<vec_field>[into_raw(action.machine)] with the machine of the matched TriggerAction variant"""
    e = unload(pe)
    x = e
    while isinstance(x, tuple) and x and x[0] in ('fld', 'var', 'view'):
        x = x[1]
    if not (isinstance(x, tuple) and x and x[0] == 'idx' and is_field(x[1], vec_field, 'SimState')):
        return False
    ix = x[2]
    return is_call(ix, 'into_raw') and action_field(ix[2][0], variant, 'machine')


def helper_arms_slot(ctx, g, si, ai, ti):
    """helper g stores Some(ScheduledAction{action: <param ai (cloned)>, time: <param ti>}) through its slot parameter si on every path"""
    ga = ctx.an.get(g)
    sts = []
    for (pe, v, site, mp) in stores(ga):
        if root_of(pe) == ('param', si) or (pe[0] == 'deref' and pe[1] == ('param', si)):
            sts.append((pe, v, site))
    if not sts:
        return False
    for (pe, v, site) in sts:
        ok = v[0] == 'agg' and v[2] == 'Some'
        if ok:
            x = dict(v[3])['0']
            ok = x[0] == 'agg' and x[1].endswith('ScheduledAction')
            if ok:
                d = dict(x[3])
                ok = contains(d.get('action'), lambda y: y == ('param', ai)) and (d.get('time') == ('param', ti) or contains(d.get('time'), lambda y: y == ('param', ti)))
        if not ok:
            return False
    lo, hi = min_max_on_paths(ga, 0, {s_[0] for (_, _, s_) in sts}, ga.cfg.reachable_from(0))
    return lo >= 1


def peek_nonstrict(ctx, rep, rid, fname, what):
    """peek over the per-machine slots: slots due exactly now are eligible (t >= current_time, not t > current_time), every
    present slot of both sides is examined, and the result is their minimum.  Loop form and iterator-chain form are accepted."""
    prog, an = ctx.prog, ctx.an
    fn = sim_fn(prog, fname)
    fa = an.get(fn)
    rep.analysed(fn)
    scopes = [fn] + prog.closures_of(fn)
    for c in list(scopes):
        scopes += [x for x in prog.closures_of(c) if x not in scopes]
    n = 0
    is_dur = lambda x: contains(x, lambda y: is_call(y, 'duration_since'))

    def judge(op, l, r, now_pred, where):
        nonlocal n
        if (now_pred(l) or now_pred(r)) and not (is_dur(l) or is_dur(r)):
            n += 1
            ok = (op == 'ge' and now_pred(r)) or (op == 'le' and now_pred(l))
            rep.ob(rid, fn, 'due-now-is-eligible', ok, '%s compares the slot time with current_time using %s (%s)' % (fname, op, where))
    for sc in scopes:
        sa_ = an.get(sc)
        exprs = [e for (b, e) in switch_conditions(sa_)]
        if sc is not fn:
            exprs += [v for (b, k, v) in ret_defs(sa_)]
        for e in exprs:
            e2 = strip_sites(e)
            ops = None
            if e2[0] == 'call' and any(e2[1].endswith(x) for x in ('PartialOrd::ge', 'PartialOrd::gt', 'PartialOrd::le', 'PartialOrd::lt')):
                ops = (e2[1].split('::')[-1], e2[2][0], e2[2][1])
            elif e2[0] == 'bin' and e2[1] in ('Ge', 'Gt', 'Le', 'Lt'):
                ops = (e2[1].lower(), e2[2], e2[3])
            if ops is None:
                continue
            if sc is fn:
                now_pred = lambda x: contains(x, lambda y: y == ('param', 3))
            else:
                # inside a closure: current_time is a captured variable (environment = parameter 1), the slot is the item (parameter 2)
                now_pred = lambda x: contains(x, lambda y: y in (('param', 1), ('local', 1))) and not contains(x, lambda y: y in (('param', 2), ('local', 2)))
            judge(ops[0], ops[1], ops[2], now_pred, 'loop' if sc is fn else 'closure')
    loops = fa.cfg.loops()
    if loops:
        # the result is the time to a slot of either side (or "nothing"): a loop that never records what it found is no search
        rv = [v for (b, k, v) in ret_defs(fa)]
        sides_seen = set()
        for v in rv:
            for y in walk(v):
                if is_call(y, 'duration_since'):
                    sides_seen.add(param_behind(fa, y[2][0]))
        rep.ob(rid, fn, 'result-records-a-slot-of-either-side', sides_seen >= {1, 2}, 'the result is computed from slots of parameters %s' % sorted(x for x in sides_seen if x))
        # the running minimum is replaced only by a slot that is due now or later AND earlier than the minimum so far
        rl = set()
        for v in rv:
            for y in walk(v):
                if isinstance(y, tuple) and len(y) == 2 and y[0] == 'local':
                    rl.add(y[1])
        from .paths import stores as _stores
        for h2, body2 in loops.items():
            pfi2 = an.paths(fn, history=True, entry=h2)
            for (pe, v, site, mp) in _stores(fa):
                if site[0] in body2 and pe[0] == 'local' and not mp['pr'] and fa.fn.local_ty(pe[1]) == 'core::time::Duration' and is_call(unload(v), 'duration_since') and \
                        len(fa.defs().get(pe[1], [])) >= 2:
                    sts = pfi2.at(site[0], site[1])
                    now = lambda e: strip_sites(e) == ('param', 3)
                    okm, w = all_paths(sts, lambda S: (cmp_int_true(S, 'le', now, lambda r: not now(r)) or cmp_int_true(S, 'lt', now, lambda r: not now(r))) and
                                       any(f[0] == 'cmp' and f[1] == 'lt' and f[5] is True and is_call(unload(f[2]), 'duration_since') for f in S))
                    rep.ob(rid, fn, 'minimum-replaced-only-by-an-eligible-earlier-slot', okm and bool(sts), '' if okm else 'witness: ' + show_facts(w))
        rep.count_exact(rid, 'eligibility comparisons in ' + fname, n, 2)
        for h, body in loops.items():
            bad = []
            for x in body:
                for (y, lab) in fa.cfg.succ[x]:
                    if y in body or fa.blocks[y]['t']['k'] == 'unreachable':
                        continue
                    e = fa.operand(fa.blocks[x]['t']['d'], (x, len(fa.blocks[x]['s']))) if fa.blocks[x]['t']['k'] == 'switch' else None
                    if not (e is not None and e[0] == 'discr' and is_call(unload(e[1]), 'next')):
                        bad.append(x)
            rep.ob(rid, fn, 'every-slot-examined@L%d' % fa.blocks[h]['ln'], not bad, 'loop leaves before its iterator is exhausted' if bad else 'loop runs to exhaustion', site='%s:%d' % (fn.file, fa.blocks[h]['ln']))
        rep.count_exact(rid, 'slot loops in ' + fname, len(loops), 2)
    else:
        # iterator-chain form: the minimum must be taken over the PRESENT slots (flatten/filter_map before min), for both sides
        rep.count_floor(rid, 'eligibility comparisons in ' + fname, n, 1)
        mins = []
        for sc in scopes:
            for (b, f, a, t) in calls(an.get(sc)):
                cs = callee_decl(f) or callee_str(f)
                if cs.endswith('Iterator::min') or cs.endswith('Iterator::min_by') or cs.endswith('Iterator::min_by_key') or cs.endswith('Iterator::fold') or cs.endswith('Iterator::reduce'):
                    mins.append((sc, a))
                    if cs.endswith('Iterator::min'):
                        # `min()` orders by the item type's Ord: only an item that *is* a time is ordered by time (a slot type with
                        # its own Ord impl, or Option<time> with None below every Some, is not)
                        sa2 = an.get(sc)
                        ty = sa2.fn.locals[sa2.blocks[b]['t']['d']['l']]['ty'] if not sa2.blocks[b]['t']['d']['pr'] else ''
                        item = ty[len('core::option::Option<'):-1] if ty.startswith('core::option::Option<') and ty.endswith('>') else ty
                        item = item.lstrip('&').replace("'_ ", '').strip()
                        okt = item in ('core::time::Duration', 'std::time::Instant')
                        rep.ob(rid, fn, 'minimum-ordered-by-time', okt, 'Iterator::min over items of type %s' % (item or '?'))
        rep.ob(rid, fn, 'minimum-taken', bool(mins), 'min/fold calls: %d' % len(mins))
        for (sc, a) in mins:
            recv = a[0]
            present_only = contains(recv, lambda y: is_call(y, 'Iterator::flatten') or is_call(y, 'Iterator::filter_map') or is_call(y, 'Iterator::flat_map'))
            over_slots = contains(recv, lambda y: is_call(y, '<impl [T]>::iter'))
            if over_slots:
                rep.ob(rid, fn, 'minimum-over-present-slots-only', present_only, 'min over %s' % shape(recv)[:70])
    short = [callee_str(f) for scope in scopes for (b, f, a, t) in calls(an.get(scope))
             if any(callee_str(f).endswith(x) for x in ('::find', '::find_map', '::position', '::take_while', '::skip_while', '::any', '::all', '::nth', '::last', '::first'))]
    rep.ob(rid, fn, 'no-short-circuiting-search', not short, '%s' % short)


def is_search_result(e):
    """a local that is None until the search hits: every alternative is an Option aggregate"""
    e = unload(e)
    return isinstance(e, tuple) and e and e[0] == 'phi' and len(e[1]) >= 2 and all(isinstance(a, tuple) and a and a[0] == 'agg' and a[1].endswith('Option') for a in e[1])


def second_search_rule(ctx, rep, rid, ds, helpers):
    """at most one slot is consumed per call: the second search (server side) runs only when the first found nothing"""
    prog, an = ctx.prog, ctx.an
    da = an.get(ds)
    pfd = an.paths(ds, history=True)
    searches = []
    for g in helpers:
        for (b, f, a, t) in calls(da):
            if callee_key(f) == g.key:
                searches.append(b)
    if helpers:
        rep.ob(rid, ds, 'two-searches', len(searches) == 2, 'searches through a helper: %d' % len(searches))
        searches.sort(key=lambda b: 0 if all(da.cfg.can_reach(b, o) for o in searches) else 1)
        if len(searches) == 2:
            second = searches[1]
            okg, w = all_paths(pfd.at_entry(second), lambda S: any((f2[0] == 'variant' and f2[2] == 'None') or (f2[0] == 'bcall' and f2[1].endswith('is_none') and f2[3] is True) or
                                                                    (f2[0] == 'bcall' and f2[1].endswith('is_some') and f2[3] is False) for f2 in S))
            rep.ob(rid, ds, 'second-search-only-if-first-found-nothing', okg and bool(pfd.at_entry(second)), 'the server slots are searched (and possibly consumed) only when nothing was due on the client side')
    else:
        # inline form: the server loop is entered only when the client loop found nothing
        clear_loops = []
        next_of = {}
        for (kind, pe, site) in clearing_sites(da):
            nxc = [x for x in walk(pe) if isinstance(x, tuple) and x and x[0] == 'call' and len(x) > 3 and x[3] is not None and (x[1].endswith('Iterator>::next') or x[1].endswith('Iterator::next'))]
            if nxc:
                clear_loops.append(nxc[0][3][0])
                next_of[nxc[0][3][0]] = strip_sites(nxc[0])
        if len(clear_loops) == 2:
            a_, b_ = clear_loops
            first, second = (a_, b_) if da.cfg.can_reach(a_, b_) else (b_, a_)
            nx1 = next_of.get(first)
            # "found nothing": an explicit is_none / None test of the search result, or (when the search result was threaded into
            # the control flow) the first search ran to exhaustion on every path that reaches the second
            okg, w = all_paths(pfd.at_entry(second), lambda S: any((f2[0] == 'bcall' and f2[1].endswith('is_none') and f2[3] is True) or
                                                                    (f2[0] == 'variant' and f2[2] == 'None' and not contains(f2[1], lambda y: is_call(y, 'Iterator>::next'))) or
                                                                    (f2[0] == 'variant' and f2[2] == 'None' and is_call(unload(f2[1]), 'Option::<T>::take')) or
                                                                    (f2[0] == 'variant' and f2[2] == 'None' and is_search_result(f2[1])) or
                                                                    (f2[0] == 'variant' and f2[2] == 'None' and nx1 is not None and f2[1] == nx1) for f2 in S))
            rep.ob(rid, ds, 'second-search-only-if-first-found-nothing', okg and bool(pfd.at_entry(second)), '')
        else:
            rep.ob(rid, ds, 'second-search-only-if-first-found-nothing', False, 'expected two search loops with a clearing site, found %d' % len(clear_loops))



def check_peek_blocked_exp(ctx, rep, rid):
    """peek_blocked_exp(client slot, server slot, now) -> (time to the earliest expiry, whose it is): on every result the duration is
    computed from the slot of the side that is reported, and when both sides block the client is reported only if its expiry is the
    earlier one (ties go to the server, as on the pinned tree, or to the client: both are the earliest)"""
    prog, an = ctx.prog, ctx.an
    fn = sim_fn(prog, 'peek_blocked_exp')
    fa = an.get(fn)
    rep.analysed(fn)
    pf = an.paths(fn)
    n = 0

    def from_param(e, i):
        return contains(e, lambda y: y == ('param', i))
    for (b, k, v) in ret_defs(fa):
        if not (isinstance(v, tuple) and v and v[0] == 'tuple' and len(v[2]) == 2):
            rep.ob(rid, fn, 'peek_blocked_exp:result-is-a-pair-built-per-case', False, 'returns %s' % shape(v))
            continue
        d, side = v[2]
        c = num(side)
        if c is None:
            rep.ob(rid, fn, 'peek_blocked_exp:side-decided-per-case', False, 'side = %s' % shape(side))
            continue
        n += 1
        mine, other = (1, 2) if c else (2, 1)
        none_case = isinstance(d, tuple) and d and d[0] == 'cdef' and d[1].endswith('::MAX')
        okd = none_case or (from_param(d, mine) and not from_param(d, other) and from_param(d, 3))
        rep.ob(rid, fn, 'peek_blocked_exp:duration-from-the-reported-side:%s' % ('client' if c else 'server'), okd, 'returns (%s, %s)' % (shape(d), bool(c)))
        sts = pf.at(b, k) if k is not None else pf.at_entry(b)

        def ok_case(S):
            if none_case:
                return all(any(f[0] == 'variant' and f[2] == 'None' and unload(f[1]) == ('param', i) for f in S) for i in (1, 2))
            if any(f[0] == 'variant' and f[2] == 'None' and unload(f[1]) == ('param', other) for f in S):
                return True
            # both block: the reported side's expiry is not later than the other's
            for f in S:
                if f[0] == 'cmp' and f[1] in ('lt', 'le') and from_param(f[2], 1) and from_param(f[3], 2):
                    if (c and f[5] is True) or (not c and f[5] is False):
                        return True
                if f[0] == 'cmp' and f[1] in ('lt', 'le') and from_param(f[2], 2) and from_param(f[3], 1):
                    if (not c and f[5] is True) or (c and f[5] is False):
                        return True
            return False
        ok, w = all_paths(sts, ok_case)
        rep.ob(rid, fn, 'peek_blocked_exp:earliest-side-reported:%s' % ('client' if c else 'server'), ok and bool(sts), '' if ok else 'witness: ' + show_facts(w))
    rep.count_floor(rid, 'result cases of peek_blocked_exp', n, 3)


def pick_next_consults(ctx, rep, rid, source, what):
    """pick_next decides from the earliest of five sources; `source` (a peek function) is consulted on every path before anything is
    returned.  A fast path that skips the scan on the strength of a cached count is reported: the count is one more copy of the slot
    state that every writer has to keep exact, which these rules do not verify."""
    prog, an = ctx.prog, ctx.an
    pn = sim_fn(prog, 'pick_next')
    pa = an.get(pn)
    sites = [b for (b, f, a, t) in calls(pa) if callee_str(f).endswith(source)]
    rep.ob(rid, pn, 'pick_next-calls:' + source, len(sites) == 1, '%d call sites' % len(sites))
    if len(sites) != 1:
        return
    rets = [b for (b, k, v) in ret_defs(pa)]
    ok = bool(rets) and all(pa.cfg.dominates(sites[0], b) for b in rets)
    rep.ob(rid, pn, 'pick_next-always-consults:' + source, ok, '%s is evaluated on every path of pick_next before a result is produced (%s)' % (source, what))


def action_loop_rule(ctx, rep, rid, tu, fa, h, body):
    """every action the framework returned is handled: the loop over the actions is left only when the iterator is exhausted
    (a return / break in one arm drops the actions of the machines that follow)"""
    pf = ctx.an.paths(tu, history=True, entry=h)
    n = 0
    for x in sorted(body):
        for (y, lab) in fa.cfg.succ[x]:
            if y in body:
                continue
            for S in pf.on_edge(x, y, lab):
                n += 1
                ok = any(f[0] == 'variant' and f[2] == 'None' and (is_call(unload(f[1]), 'Iterator>::next') or is_call(unload(f[1]), 'Iterator::next')) for f in S)
                rep.ob(rid, tu, 'action-loop-left-only-when-exhausted', ok, '' if ok else 'the loop over the returned actions is left early: ' + show_facts(S))
    rep.count_floor(rid, 'exits of the action loop in trigger_update', n, 1)


def check_C17(ctx, rep):
    prog, an = ctx.prog, ctx.an
    rep.rule('C17.R1', 'trigger_update: for SendPadding and BlockOutgoing the slot scheduled_action[machine.into_raw()] is overwritten on every path '
             'through the arm with Some(ScheduledAction{action: clone of that action, time: current_time + timeout + trigger_delay}); the loop '
             'over the returned actions is left only when the iterator is exhausted (no arm drops the actions of later machines)')
    rep.rule('C17.R2', 'Cancel table, exhaustive over Timer: Action clears only the action slot, Internal only the internal slot, All both — '
             'always the slot of the cancelling machine')
    rep.rule('C17.R3', 'do_scheduled_action: the slot found is cleared on the same path and the search stops there (fires once); the event carries '
             'the action\'s time; SendPadding -> PaddingSent{machine} with bypass/replace from the action; BlockOutgoing -> BlockingBegin{machine}; '
             'PaddingSent/BlockingBegin are built nowhere else')
    rep.rule('C17.R4', 'peek_scheduled_action treats an action due exactly at current_time as eligible (non-strict comparison), both sides; '
             'pick_next consults it on every path')
    tu = sim_fn(prog, 'trigger_update')
    fa = an.get(tu)
    rep.analysed(tu)
    arms, rest, other, swb = arms_on(prog, fa, 'maybenot::action::TriggerAction', lambda e: True)
    loops = fa.cfg.loops()
    hs = [h for h, body in loops.items() if swb in body]
    if len(hs) != 1:
        rep.fail_closed('C17.R1', 'trigger_update: action loop')
        return ''
    h = hs[0]
    body = loops[h]
    sa_stores = field_stores(fa, 'scheduled_action', 'SimState')
    it_stores = field_stores(fa, 'scheduled_internal_timer', 'SimState')
    # `slot.replace(v)` / `slot.insert(v)` store Some(v) (the old value may feed a bookkeeping test)
    for (b, f, a, t) in calls(fa):
        if (callee_str(f).endswith('Option::<T>::replace') or callee_str(f).endswith('Option::<T>::insert')) and len(a) == 2 and a[0][0] == 'ref' and in_field(a[0][1], 'scheduled_action', 'SimState'):
            sa_stores = sa_stores + [(a[0][1], ('agg', 'core::option::Option', 'Some', (('0', a[1]),)), (b, len(fa.blocks[b]['s'])))]
    action_loop_rule(ctx, rep, 'C17.R1', tu, fa, h, body)
    check_zero_default_delays(ctx, rep, 'C17.R1')
    for var in ('SendPadding', 'BlockOutgoing'):
        if var not in arms:
            rep.ob('C17.R1', tu, 'arm-present:' + var, False, '')
            continue
        mine = [(pe, v, s) for (pe, v, s) in sa_stores if fa.cfg.dominates(arms[var], s[0])]
        if not mine:
            # an arm shared with another variant through an or-pattern: the store follows the join of the binding blocks
            mine = [(pe, v, s) for (pe, v, s) in sa_stores if s[0] in body and fa.cfg.can_reach(arms[var], s[0]) and
                    count_between(fa, arms[var], h, {s[0]}) == (1, 1) and slot_index_ok(pe, 'scheduled_action', var)]
        if not mine:
            # the slot may be written by a private helper called from the arm: helper(&mut slot[machine], action, time)
            okh = False
            why = 'no store and no helper call in the arm'
            for (b, f, a, t) in calls(fa):
                g = prog.fns.get(callee_key(f)) if f.get('resolved') else None
                if g is None or g.crate != SIM or g.vis == 'Public' or not fa.cfg.dominates(arms[var], b):
                    continue
                si = [i for i, x in enumerate(a) if x[0] in ('ref',) and slot_index_ok(x[1], 'scheduled_action', var)]
                if not si:
                    continue
                lo2, hi2 = count_between(fa, arms[var], h, {b})
                ai = [i for i, x in enumerate(a) if contains(x, lambda y: is_call(y, 'Iterator>::next') or is_call(y, 'Iterator::next')) and i not in si and not contains(x, lambda y: action_field(y, var, 'timeout'))]
                ti = [i for i, x in enumerate(a) if contains(x, lambda y: y == ('param', 3)) and contains(x, lambda y: action_field(y, var, 'timeout')) and contains(x, lambda y: is_call(y, 'trigger_delay'))]
                okc = (lo2, hi2) == (1, 1) and len(ai) == 1 and len(ti) == 1
                okg = okc and helper_arms_slot(ctx, g, si[0] + 1, ai[0] + 1, ti[0] + 1)
                okh = okh or okg
                why = 'helper %s(%s): called once on every arm path: %s; stores Some(ScheduledAction{action, time}) on every path: %s' % (g.name, ', '.join(show(x)[:25] for x in a), okc, okg)
            rep.ob('C17.R1', tu, '%s:slot-overwritten-through-helper' % var, okh, why)
            continue
        rep.ob('C17.R1', tu, '%s:one-slot-store' % var, len(mine) == 1, 'stores to scheduled_action in the arm: %d' % len(mine))
        for (pe, v, s) in mine:
            rep.ob('C17.R1', tu, '%s:slot-of-own-machine' % var, slot_index_ok(pe, 'scheduled_action', var), 'store to %s' % show(pe))
            ok = v[0] == 'agg' and v[2] == 'Some'
            if ok:
                sa_ = dict(v[3])['0']
                ok = sa_[0] == 'agg' and sa_[1].endswith('ScheduledAction')
                if ok:
                    d = dict(sa_[3])
                    act, tm = d.get('action'), d.get('time')
                    oka = is_call(act, 'Clone>::clone') or is_call(act, 'Clone::clone')
                    oka = oka and contains(act, lambda x: is_call(x, 'Iterator>::next') or is_call(x, 'Iterator::next'))
                    rep.ob('C17.R1', tu, '%s:stores-this-action' % var, oka, 'action = %s' % shape(act))
                    okt = contains(tm, lambda x: x == ('param', 3)) and contains(tm, lambda x: action_field(x, var, 'timeout')) and contains(tm, lambda x: is_call(x, 'trigger_delay'))
                    # shape: (current_time + timeout) + trigger_delay, additions only
                    adds = [x for x in walk(tm) if isinstance(x, tuple) and x and ((x[0] == 'call' and x[1].endswith('::add')) or (x[0] == 'bin' and x[1] == 'Add'))]
                    subs = [x for x in walk(tm) if isinstance(x, tuple) and x and ((x[0] == 'call' and (x[1].endswith('::sub') or x[1].endswith('::mul'))) or (x[0] == 'bin' and x[1] in ('Sub', 'Mul')))]
                    rep.ob('C17.R1', tu, '%s:time-is-now-plus-timeout-plus-trigger-delay' % var, okt and len(adds) == 2 and not subs, 'time = %s' % shape(tm))
            rep.ob('C17.R1', tu, '%s:stores-Some(ScheduledAction)' % var, ok, 'value %s' % shape(v)[:60])
            # on every path through the arm back to the loop header
            lo, hi = min_max_on_paths(fa, arms[var], {s[0]}, body, stop_at_header=False)
            lo2, hi2 = count_between(fa, arms[var], h, {s[0]})
            rep.ob('C17.R1', tu, '%s:overwritten-on-every-path' % var, (lo2, hi2) == (1, 1), 'stores on arm paths: min %s max %s' % (lo2, hi2))
    # ---- R2 Cancel
    if 'Cancel' in arms:
        pfh = an.paths(tu, history=True, record_stores=lambda pe, val: in_field(pe, 'scheduled_action', 'SimState') or in_field(pe, 'scheduled_internal_timer', 'SimState'),
                       record_calls=lambda f: callee_str(f).endswith('Option::<T>::take'), tag='slots+take', entry=h)
        timers = prog.variants('maybenot::action::Timer')
        seen = set()
        for (x, lab) in fa.cfg.pred[h]:
            if x not in body:
                continue
            for S in pfh.on_edge(x, h):
                if not any(f[0] == 'variant' and f[2] == 'Cancel' for f in S):
                    continue
                # one iteration looks at one (borrowed, unchanging) action: two tests of its timer with incompatible outcomes
                # (`matches!(timer, Action | All)` then `matches!(timer, Internal | All)`) do not lie on one real path
                byx = {}
                infeasible = False
                for f in S:
                    if f[0] == 'variant' and f[2] in prog.variants('maybenot::action::Timer'):
                        byx.setdefault(f[1], set()).add(f[2])
                for f in S:
                    if f[0] == 'notvariant' and f[1] in byx and byx[f[1]] & set(f[2]):
                        infeasible = True
                if any(len(v_) > 1 for v_ in byx.values()) or infeasible:
                    continue
                tv = [f[2] for f in S if f[0] == 'variant' and f[2] in timers and contains(f[1], lambda y: action_field(y, 'Cancel', 'timer') or (isinstance(y, tuple) and y and y[0] == 'fld' and y[3] == 'timer'))]
                tn = [f[2] for f in S if f[0] == 'notvariant']
                names = tv[:1] if tv else [t for t in timers if not any(t in n for n in tn)]
                st = [f for f in S if f[0] == 'stored']
                cleared = set()
                okv = True
                for f in st:
                    nm = f[1][1]
                    cleared.add(nm)
                    okv = okv and f[3][0] == 'agg' and f[3][2] == 'None' and slot_index_ok(f[2], nm, 'Cancel')
                # `slot.take()` is the other way to clear a slot (its result may feed a bookkeeping test)
                for f in S:
                    if f[0] == 'called' and f[1].endswith('Option::<T>::take') and f[2] and f[2][0][0] == 'ref':
                        for nm in ('scheduled_action', 'scheduled_internal_timer'):
                            if in_field(f[2][0][1], nm, 'SimState'):
                                cleared.add(nm)
                                okv = okv and slot_index_ok(f[2][0][1], nm, 'Cancel')
                for n in names:
                    seen.add(n)
                    want = {'Action': {'scheduled_action'}, 'Internal': {'scheduled_internal_timer'}, 'All': {'scheduled_action', 'scheduled_internal_timer'}}.get(n)
                    rep.ob('C17.R2', tu, 'Cancel:%s' % n, want is not None and cleared == want and okv, 'Timer::%s clears %s' % (n, sorted(cleared)))
        for t in timers:
            rep.ob('C17.R2', tu, 'Cancel-variant-covered:' + t, t in seen, '')
    else:
        rep.ob('C17.R2', tu, 'arm-present:Cancel', False, '')
    # writers of the two slot vectors
    for fn in prog.crate_fns(SIM):
        if not fn.has_body or fn.derived:
            continue
        fa2 = an.get(fn)
        for (pe, v, site) in field_stores(fa2, 'scheduled_action', 'SimState'):
            rep.ob('C17.R1', fn, 'writer:scheduled_action', fn.name in ('trigger_update',), 'written in %s' % fn.short())
    # ---- R3
    ds = sim_fn(prog, 'do_scheduled_action')
    da = an.get(ds)
    rep.analysed(ds)
    dloops = da.cfg.loops()
    # clearing of the slot found by the search: `*opt = None` or `opt.take()` on the iterated element
    n_clear = 0

    def takes_slots(g, field='scheduled_action'):
        for (b, f, a, t) in calls(da):
            if callee_key(f) == g.key and any(x[0] == 'ref' and in_field(x[1], field, 'SimState') for x in a):
                return True
        return False
    helpers = [g for g in private_callees(ctx, ds) if clearing_sites(an.get(g)) or takes_slots(g)]
    opaque = [g for g in helpers if not clearing_sites(an.get(g))]
    for g in opaque:
        # combinator-style helper (find/and_then/take): the comparison with the target lives in a closure
        okc = False
        for clo in [c for c in prog.fns.values() if c.dk == 'Closure' and c.key.startswith(g.key + '::')]:
            ca_ = an.get(clo)
            for (b, k, v) in ret_defs(ca_):
                if contains(v, lambda y: (is_call(y, 'PartialEq>::eq') or is_call(y, 'PartialEq::eq')) and contains(y, lambda z: isinstance(z, tuple) and z and z[0] == 'fld' and z[3] == 'time')):
                    okc = True
        takes = any(contains(fa_v, lambda y: isinstance(y, tuple) and y and y[0] == 'fn' and y[1] and y[1].endswith('::take')) or is_call(fa_v, 'Option::<T>::take')
                    for (pe_, fa_v, st_, mp_) in stores(an.get(g))) or any(callee_str(f).endswith('Option::<T>::take') for (b, f, a, t) in calls(an.get(g))) or \
            any(isinstance(y, tuple) and y and y[0] == 'fn' and y[1] and y[1].endswith('::take') for (b, f, a, t) in calls(an.get(g)) for x in a for y in walk(x))
        n_clear += sum(1 for (b, f, a, t) in calls(da) if callee_key(f) == g.key)
        rep.ob('C17.R3', g, 'combinator-search-compares-time-with-target', okc and takes, 'helper %s finds the slot whose time equals the target and takes it' % g.name)
    for sf in [ds] + [g for g in helpers if g not in opaque]:
        sfa = an.get(sf)
        inst = [i + 1 for i, t_ in enumerate(sf.inputs) if t_.endswith('time::Instant')]
        mult = 1 if sf is ds else sum(1 for (b, f, a, t) in calls(da) if callee_key(f) == sf.key)
        for (kind, pe, site) in clearing_sites(sfa):
            n_clear += mult
            nxs = [x[3] for x in walk(pe) if isinstance(x, tuple) and x and x[0] == 'call' and len(x) > 3 and x[3] is not None and (x[1].endswith('Iterator>::next') or x[1].endswith('Iterator::next'))]
            ok = bool(nxs) and not any(sfa.cfg.can_reach(y, nb[0]) for nb in nxs for (y, l) in sfa.cfg.succ[site[0]])
            rep.ob('C17.R3', sf, 'search-stops-at-first-match', ok, 'after clearing the slot (%s) the iterator is not advanced again' % kind)
            pfi = an.paths(sf)
            st = pfi.at(site[0], site[1]) if site[1] is not None else pfi.at_entry(site[0])
            okm, w = all_paths(st, lambda S: due_fact(ctx, S, lambda l: is_field(l, 'time', 'ScheduledAction'), lambda r: r[0] == 'param' and r[1] in inst))
            rep.ob('C17.R3', sf, 'cleared-slot-is-the-due-one', okm and bool(st), 'slot cleared only when its time equals the target')
    second_search_rule(ctx, rep, 'C17.R3', ds, helpers)
    if not helpers:
        check_search_sides(ctx, rep, 'C17.R3', ds, 'action')
    rep.count_exact('C17.R3', 'slot clearing sites in do_scheduled_action', n_clear, 2)
    for (site, evn, evf, flds, ln) in sim_events(da):
        if evn == 'PaddingSent':
            ok = action_field(evf.get('machine'), 'SendPadding', 'machine') and action_field(flds.get('bypass'), 'SendPadding', 'bypass') and action_field(flds.get('replace'), 'SendPadding', 'replace')
            rep.ob('C17.R3', ds, 'PaddingSent-from-SendPadding', ok, 'machine %s bypass %s replace %s' % (show(evf.get('machine')), show(flds.get('bypass')), show(flds.get('replace'))))
            rep.ob('C17.R3', ds, 'PaddingSent-at-action-time', is_field(flds.get('time'), 'time', 'ScheduledAction'), 'time = %s' % shape(flds.get('time')))
            rep.ob('C17.R3', ds, 'PaddingSent-is-padding', is_const(flds.get('contains_padding'), 1), '')
        elif evn == 'BlockingBegin':
            ok = action_field(evf.get('machine'), 'BlockOutgoing', 'machine')
            rep.ob('C17.R3', ds, 'BlockingBegin-from-BlockOutgoing', ok, 'machine %s' % show(evf.get('machine')))
            tm = flds.get('time')
            rep.ob('C17.R3', ds, 'BlockingBegin-at-action-time', contains(tm, lambda x: is_field(x, 'time', 'ScheduledAction')), 'time = %s' % shape(tm))
        else:
            rep.ob('C17.R3', ds, 'unexpected-event:%s' % evn, False, '')
    arms2, rest2, other2, swb2 = arms_on(prog, da, 'maybenot::action::TriggerAction', lambda e: True)
    for var, want in (('SendPadding', 'PaddingSent'), ('BlockOutgoing', 'BlockingBegin')):
        if var not in arms2:
            rep.ob('C17.R3', ds, 'arm-present:' + var, False, '')
            continue
        region = da.cfg.reachable_from(arms2[var])
        for (b, k, v) in ret_defs(da):
            if b in region and da.cfg.dominates(arms2[var], b):
                ok = v[0] == 'agg' and v[2] == 'Some' and contains(v, lambda x: isinstance(x, tuple) and x and x[0] == 'agg' and x[2] == want)
                rep.ob('C17.R3', ds, '%s-arm-returns-%s' % (var, want), ok, 'returns %s' % shape(v)[:60])
    pp = producers(prog, an, 'PaddingSent')
    rep.ob('C17.R3', '<inventory>', 'PaddingSent-producers', [f.name for f in pp] == ['do_scheduled_action'], '%s' % [f.short() for f in pp])
    # ---- R4
    peek_nonstrict(ctx, rep, 'C17.R4', 'peek_scheduled_action', 'action')
    pick_next_consults(ctx, rep, 'C17.R4', 'peek_scheduled_action', 'a scheduled action that is not looked at never fires')
    check_side_plumbing(ctx, rep, 'C17.R4', only=('peek_scheduled_action', 'do_scheduled_action', 'pick_next'))
    check_pick_next_handlers(ctx, rep, 'C17.R3', 'do_scheduled_action', 'peek_scheduled_action')
    check_pick_priorities(ctx, rep, 'C17.R4')
    rep.assumptions += ['that the due action is picked before simulated time passes it is NOT decided beyond eligibility of due-now slots',
                        'every CFG path is treated as feasible']
    return 'handler tables for action timers in the simulator: slot overwrite, Cancel table, fire-once lookup, event translation'


# =================================================================== C18

def check_timer_helper(ctx, rep, tu, fa, pf, h, body, arms, helper_calls):
    """UpdateTimer handled through helper(&mut slot, expiry, replace) -> started: the helper must start the timer (store
    Some(expiry) and return true) on every path with replace / no timer / later expiry, return true only when it stored,
    and the arm must push TimerBegin exactly when the helper returned true"""
    prog, an = ctx.prog, ctx.an
    rep.ob('C18.R1', tu, 'one-helper-call', len(helper_calls) == 1, '%d' % len(helper_calls))
    (cb, g, a, si) = helper_calls[0]
    ei = [i for i, x in enumerate(a) if contains(x, lambda y: y == ('param', 3)) and contains(x, lambda y: action_field(y, 'UpdateTimer', 'duration'))]
    ri = [i for i, x in enumerate(a) if action_field(x, 'UpdateTimer', 'replace')]
    ok_args = len(ei) == 1 and len(ri) == 1
    rep.ob('C18.R1', tu, 'helper-gets-slot-expiry-replace', ok_args, '%s(%s)' % (g.name, ', '.join(show(x)[:30] for x in a)))
    if not ok_args:
        return
    ps, pe_, pr = si + 1, ei[0] + 1, ri[0] + 1
    ga = an.get(g)
    is_slot = lambda x: root_of(x) == ('param', ps) or unload(x) == ('deref', ('param', ps))
    gp = an.paths(g, history=True, record_stores=lambda pe2, val: is_slot(pe2), tag='slot')
    nret = 0
    for (b, k, v) in ret_defs(ga):
        for S in gp.at(b, k):
            nret += 1
            st = [f for f in S if f[0] == 'stored']
            replace = any(f[0] == 'btrue' and f[2] is True and f[1] == ('param', pr) for f in S)
            no_timer = any(f[0] == 'variant' and f[2] == 'None' and is_slot(f[1]) for f in S)
            running = any(f[0] == 'variant' and f[2] == 'Some' and is_slot(f[1]) for f in S)
            later = any(f[0] == 'cmp' and f[1] == 'lt' and f[5] is True and contains(f[2], lambda y: isinstance(y, tuple) and y and y[0] == 'var' and y[2] == 'Some' and is_slot(y[1])) and f[3] == ('param', pe_) for f in S)
            if replace or no_timer or later:
                why = 'replace' if replace else ('no timer running' if no_timer else 'later expiry')
                rep.ob('C18.R3', g, 'timer-started-when:%s' % why.replace(' ', '-'), bool(st) and is_const(v, 1), 'helper path with %s: stored %s, returns %s' % (why, bool(st), shape(v)))
            rep.ob('C18.R3', g, 'not-started-only-while-a-timer-runs', bool(st) or running, '')
            if is_const(v, 1) or num(v) is None:
                rep.ob('C18.R1', g, 'reports-started-only-when-stored', bool(st) and num(v) is not None, 'returns %s with stored=%s' % (shape(v), bool(st)))
            for f in st:
                okv = f[3][0] == 'agg' and f[3][2] == 'Some' and dict(f[3][3])['0'] == ('param', pe_)
                rep.ob('C18.R1', g, 'expiry-is-now-plus-duration', okv, 'stores %s' % shape(f[3]))
    rep.count_floor('C18.R1', 'return paths of the timer helper', nret, 2)
    # the arm pushes TimerBegin exactly when the helper reported a start
    for (x, lab) in fa.cfg.pred[h]:
        if x not in body:
            continue
        for S in pf.on_edge(x, h):
            if not any(f[0] == 'variant' and f[2] == 'UpdateTimer' for f in S):
                continue
            pushed = any(f[0] == 'called' and f[1].endswith('push_sim') and fa.cfg.dominates(arms['UpdateTimer'], f[3]) for f in S)
            started = any(f[0] == 'bcall' and f[3] is True and f[1].endswith('::' + g.name) for f in S)
            rep.ob('C18.R1', tu, 'store-and-TimerBegin-on-same-paths', pushed == started, 'helper reported start: %s, TimerBegin pushed: %s' % (started, pushed))


def check_C18(ctx, rep):
    prog, an = ctx.prog, ctx.an
    rep.rule('C18.R1', 'UpdateTimer arm of trigger_update: the slot store (current_time + duration, for the action\'s machine) and the push of '
             'TimerBegin{machine} at current_time for that side occur on exactly the same paths; the loop over the returned actions is left '
             'only when the iterator is exhausted')
    rep.rule('C18.R2', 'do_internal_timer clears the matching slot, stops searching, and builds TimerEnd{machine = from_raw(slot index)} at the '
             'target; the server slots are searched (and a slot consumed) only when nothing was due on the client side; TimerEnd/TimerBegin '
             'are built nowhere else')
    rep.rule('C18.R3', 'the timer is (re)started on every path through the arm on which replace is true, or no timer is running, or the running '
             'expiry is earlier than current_time + duration')
    rep.rule('C18.R4', 'peek_scheduled_internal_timer treats a timer due exactly at current_time as eligible (non-strict comparison), both sides')
    tu = sim_fn(prog, 'trigger_update')
    fa = an.get(tu)
    rep.analysed(tu)
    arms, rest, other, swb = arms_on(prog, fa, 'maybenot::action::TriggerAction', lambda e: True)
    if 'UpdateTimer' not in arms:
        rep.fail_closed('C18.R1', 'trigger_update: UpdateTimer arm')
        return ''
    loops = fa.cfg.loops()
    hs = [h for h, body in loops.items() if swb in body]
    h = hs[0]
    body = loops[h]
    action_loop_rule(ctx, rep, 'C18.R1', tu, fa, h, body)
    rs = lambda pe, val: in_field(pe, 'scheduled_internal_timer', 'SimState')
    rc = lambda f: callee_str(f).endswith('SimQueue::push_sim')
    pf = an.paths(tu, history=True, record_stores=rs, record_calls=rc, tag='timer', entry=h)
    n = 0
    # helper form: the start rule may live in a private helper(&mut slot, expiry, replace) -> bool
    helper_calls = []
    for (b, f, a, t) in calls(fa):
        g = prog.fns.get(callee_key(f)) if f.get('resolved') else None
        if g is not None and g.crate == SIM and g.vis != 'Public' and fa.cfg.dominates(arms['UpdateTimer'], b) and g.output == 'bool':
            si = [i for i, x in enumerate(a) if x[0] == 'ref' and slot_index_ok(x[1], 'scheduled_internal_timer', 'UpdateTimer')]
            if si:
                helper_calls.append((b, g, a, si[0]))
    direct = [sx for (pe_, v_, sx) in field_stores(fa, 'scheduled_internal_timer', 'SimState') if fa.cfg.dominates(arms['UpdateTimer'], sx[0])]
    if helper_calls and not direct:
        check_timer_helper(ctx, rep, tu, fa, pf, h, body, arms, helper_calls)
        n = 2
    for (x, lab) in fa.cfg.pred[h]:
        if x not in body or (helper_calls and not direct):
            continue
        for S in pf.on_edge(x, h):
            if not any(f[0] == 'variant' and f[2] == 'UpdateTimer' for f in S):
                continue
            n += 1
            st = [f for f in S if f[0] == 'stored']
            pushed = [f for f in S if f[0] == 'called' and f[1].endswith('push_sim') and fa.cfg.dominates(arms['UpdateTimer'], f[3])]
            rep.ob('C18.R1', tu, 'store-and-TimerBegin-on-same-paths', bool(st) == bool(pushed), 'slot stored: %s, TimerBegin pushed: %s' % (bool(st), bool(pushed)))
            # R3
            replace = any(f[0] == 'btrue' and f[2] is True and action_field(f[1], 'UpdateTimer', 'replace') for f in S)
            no_timer = any(f[0] == 'variant' and f[2] == 'None' and in_field(f[1], 'scheduled_internal_timer', 'SimState') for f in S)

            def is_new_expiry(e):
                return contains(e, lambda y: y == ('param', 3)) and contains(e, lambda y: action_field(y, 'UpdateTimer', 'duration'))

            def is_running(e):
                return contains(e, lambda y: isinstance(y, tuple) and y and y[0] == 'fld' and y[3] == 'scheduled_internal_timer') and not is_new_expiry(e)
            later = any(f[0] == 'cmp' and f[1] == 'lt' and f[5] is True and is_running(f[2]) and is_new_expiry(f[3]) for f in S) or \
                any(f[0] == 'cmp' and f[1] == 'le' and f[5] is False and is_new_expiry(f[2]) and is_running(f[3]) for f in S)
            # the comparison may be a value assigned to a flag local (`replace || current < new`): look inside boolean facts
            def cmp_in_value(op):
                for f in S:
                    if f[0] == 'btrue' and f[2] is True:
                        for y in walk(f[1]):
                            if isinstance(y, tuple) and y and y[0] == 'bin' and y[1] == op and is_running(y[2]) and is_new_expiry(y[3]):
                                return True
                            if isinstance(y, tuple) and y and y[0] == 'call' and y[1].endswith('PartialOrd::' + op.lower()) and len(y[2]) == 2 and is_running(y[2][0]) and is_new_expiry(y[2][1]):
                                return True
                return False
            later = later or cmp_in_value('Lt')
            # comparison table: the running expiry is compared strictly (an equal expiry is not "later")
            nonstrict = any(f[0] == 'cmp' and f[1] == 'le' and f[5] is True and is_running(f[2]) and is_new_expiry(f[3]) for f in S) or \
                any(f[0] == 'cmp' and f[1] == 'lt' and f[5] is False and is_new_expiry(f[2]) and is_running(f[3]) for f in S)
            nonstrict = nonstrict or cmp_in_value('Le')
            if st and not replace and not no_timer:
                rep.ob('C18.R3', tu, 'restart-needs-strictly-later-expiry', later and not nonstrict, 'a non-replacing update restarts a running timer only when running < new expiry' + ('' if (later and not nonstrict) else ': ' + show_facts(S)))
            if replace or no_timer or later:
                why = 'replace' if replace else ('no timer running' if no_timer else 'later expiry')
                rep.ob('C18.R3', tu, 'timer-started-when:%s' % why.replace(' ', '-'), bool(st), '' if st else 'path with %s does not store the timer: %s' % (why, show_facts(S)))
            # a path that does not start the timer must have established that one is running (slot tested Some);
            # reading the slot only through unwrap_or conflates "none" with "expires now"
            running = any(f[0] == 'variant' and f[2] == 'Some' and in_field(f[1], 'scheduled_internal_timer', 'SimState') for f in S)
            rep.ob('C18.R3', tu, 'not-started-only-while-a-timer-runs', bool(st) or running,
                   '' if (st or running) else 'path leaves the slot untouched without having tested that a timer is running: ' + show_facts(S))
            for f in st:
                okv = f[3][0] == 'agg' and f[3][2] == 'Some' and is_new_expiry(dict(f[3][3])['0'])
                if okv:
                    x0 = strip_sites(dict(f[3][3])['0'])
                    okv = ((x0[0] == 'call' and x0[1].endswith('::add')) or (x0[0] == 'bin' and x0[1] == 'Add')) and \
                        not contains(x0, lambda y: isinstance(y, tuple) and y and ((y[0] == 'call' and y[1].endswith('::sub')) or (y[0] == 'bin' and y[1] == 'Sub')))
                rep.ob('C18.R1', tu, 'expiry-is-now-plus-duration', okv, 'stores %s' % shape(f[3]))
                rep.ob('C18.R1', tu, 'slot-of-own-machine', slot_index_ok(f[2], 'scheduled_internal_timer', 'UpdateTimer'), 'store to %s' % show(f[2]))
    rep.count_floor('C18.R1', 'paths through the UpdateTimer arm', n, 2)
    for (site, evn, evf, flds, ln) in sim_events(fa):
        if evn == 'TimerBegin':
            okm = action_field(evf.get('machine'), 'UpdateTimer', 'machine')
            rep.ob('C18.R1', tu, 'TimerBegin-names-own-machine', okm, 'machine %s' % show(evf.get('machine')))
            tm = flds.get('time')
            okt = strip_sites(tm) in (('load', ('deref', ('param', 3))), ('param', 3)) or (contains(tm, lambda y: y == ('param', 3)) and not contains(tm, lambda y: isinstance(y, tuple) and y and (y[0] == 'bin' or (y[0] == 'call' and y[1].endswith('::add')))))
            rep.ob('C18.R1', tu, 'TimerBegin-at-current-time', okt, 'time = %s' % shape(tm))
            rep.ob('C18.R1', tu, 'TimerBegin-for-own-side', flds.get('client') == ('param', 5), 'client = %s' % show(flds.get('client')))
        elif evn is not None:
            rep.ob('C18.R1', tu, 'unexpected-event:' + evn, False, '')
    tb = producers(prog, an, 'TimerBegin')
    te = producers(prog, an, 'TimerEnd')
    rep.ob('C18.R2', '<inventory>', 'TimerBegin-producers', [f.name for f in tb] == ['trigger_update'], '%s' % [f.short() for f in tb])
    rep.ob('C18.R2', '<inventory>', 'TimerEnd-producers', [f.name for f in te] == ['do_internal_timer'], '%s' % [f.short() for f in te])
    for fn in prog.crate_fns(SIM):
        if not fn.has_body or fn.derived:
            continue
        fa2 = an.get(fn)
        for (pe, v, site) in field_stores(fa2, 'scheduled_internal_timer', 'SimState'):
            if fn.name == 'do_internal_timer' and v[0] == 'agg' and v[2] == 'None':
                continue  # clearing the expired slot (judged by R2)
            rep.ob('C18.R1', fn, 'writer:scheduled_internal_timer', fn.name == 'trigger_update', 'written in %s' % fn.short())
    # ---- R2
    di = sim_fn(prog, 'do_internal_timer')
    da = an.get(di)
    rep.analysed(di)
    n_clear = 0
    helpers = [g for g in private_callees(ctx, di) if clearing_sites(an.get(g))]
    for sf in [di] + helpers:
        sfa = an.get(sf)
        inst = [i + 1 for i, t_ in enumerate(sf.inputs) if t_.endswith('time::Instant')]
        mult = 1 if sf is di else sum(1 for (b, f, a, t) in calls(da) if callee_key(f) == sf.key)
        for (kind, pe, site) in clearing_sites(sfa):
            n_clear += mult
            nxs = [x[3] for x in walk(pe) if isinstance(x, tuple) and x and x[0] == 'call' and len(x) > 3 and x[3] is not None and (x[1].endswith('Iterator>::next') or x[1].endswith('Iterator::next'))]
            ok = bool(nxs) and not any(sfa.cfg.can_reach(y, nb[0]) for nb in nxs for (y, l) in sfa.cfg.succ[site[0]])
            rep.ob('C18.R2', sf, 'search-stops-at-first-match', ok, 'after clearing the slot (%s) the iterator is not advanced again' % kind)
            pfi = an.paths(sf)
            st = pfi.at(site[0], site[1]) if site[1] is not None else pfi.at_entry(site[0])
            def is_target(r):
                # the target instant, or Some(target) when the whole slot is compared (`*t == Some(target)`)
                while isinstance(r, tuple) and r and r[0] in ('refv', 'ref'):
                    r = r[1]
                if r[0] == 'param' and r[1] in inst:
                    return True
                return r[0] == 'agg' and r[2] == 'Some' and any(isinstance(v_, tuple) and v_[0] == 'param' and v_[1] in inst for (n_, v_) in r[3])
            okm, w = all_paths(st, lambda S: due_fact(ctx, S, lambda l: True, is_target))
            rep.ob('C18.R2', sf, 'cleared-slot-is-the-due-one', okm and bool(st), '')
    for g in helpers:
        # the helper is applied to the timer slots with the target instant
        for (b, f, a, t) in calls(da):
            if callee_key(f) == g.key:
                okh = any(contains(x, lambda y: isinstance(y, tuple) and y and y[0] == 'fld' and y[3] == 'scheduled_internal_timer') for x in a) and any(x == ('param', 3) for x in a)
                rep.ob('C18.R2', di, 'helper-searches-timer-slots-for-target', okh, '%s(%s)' % (g.name, ', '.join(show(x)[:40] for x in a)))
    second_search_rule(ctx, rep, 'C18.R2', di, helpers)
    if not helpers:
        check_search_sides(ctx, rep, 'C18.R2', di, 'machine')
    rep.count_exact('C18.R2', 'slot clearing sites in do_internal_timer', n_clear, 2)
    for (site, evn, evf, flds, ln) in sim_events(da):
        if evn == 'TimerEnd':
            m = evf.get('machine')
            # machine = unwrap(machine local) where the local was set from from_raw(enumerate index)
            okm = contains(m, lambda y: is_call(y, 'MachineId::from_raw')) or (m[0] == 'call' and m[1].endswith('unwrap'))
            if m[0] == 'call' and m[1].endswith('unwrap'):
                src = m[2][0]
                l = src[1][1] if src[0] == 'load' and src[1][0] == 'local' else None
                if l is not None:
                    dv = [da.def_value(l, bb, kk) for (bb, kk, part) in da.defs().get(l, [])]

                    def names_slot(d):
                        if d[0] == 'agg' and d[2] == 'None':
                            return 'none'
                        if d[0] == 'agg' and d[2] == 'Some' and is_call(dict(d[3])['0'], 'MachineId::from_raw') and contains(dict(d[3])['0'], lambda y: is_call(y, 'Iterator>::next') or is_call(y, 'Iterator::next')):
                            return 'some'
                        if d[0] == 'call' and len(d) > 5 and d[5] in prog.fns and prog.fns[d[5]] in helpers:
                            ha = an.get(prog.fns[d[5]])
                            rs = [names_slot(v) for (b, k, v) in ret_defs(ha)]
                            rs2 = []
                            for (b, k, v) in ret_defs(ha):
                                if v[0] == 'load' and v[1][0] == 'local':
                                    rs2 += [names_slot(ha.def_value(v[1][1], bb, kk)) for (bb, kk, part) in ha.defs().get(v[1][1], [])]
                                elif v[0] == 'phi':
                                    rs2 += [names_slot(x) for x in v[1]]
                                else:
                                    rs2.append(names_slot(v))
                            return 'some' if rs2 and all(r in ('some', 'none') for r in rs2) and 'some' in rs2 else 'bad'
                        return 'bad'
                    kinds = [names_slot(d) for d in dv]
                    okm = bool(kinds) and all(k in ('some', 'none') for k in kinds) and 'some' in kinds
            rep.ob('C18.R2', di, 'TimerEnd-names-slot-index', okm, 'machine = %s' % shape(m))
            rep.ob('C18.R2', di, 'TimerEnd-at-target', flds.get('time') == ('param', 3), 'time = %s' % show(flds.get('time')))
        elif evn is not None:
            rep.ob('C18.R2', di, 'unexpected-event:' + evn, False, '')
    peek_nonstrict(ctx, rep, 'C18.R4', 'peek_scheduled_internal_timer', 'timer')
    pick_next_consults(ctx, rep, 'C18.R4', 'peek_scheduled_internal_timer', 'a running timer that is not looked at never reports TimerEnd')
    check_side_plumbing(ctx, rep, 'C18.R4', only=('peek_scheduled_internal_timer', 'do_internal_timer', 'pick_next'))
    check_pick_next_handlers(ctx, rep, 'C18.R2', 'do_internal_timer', 'peek_scheduled_internal_timer')
    check_pick_priorities(ctx, rep, 'C18.R4', only=('internal timer', 'queue', 'blocking expiry', 'aggregate delay'))
    rep.assumptions += ['expiry selection order among several due items is NOT decided', 'every CFG path is treated as feasible']
    return 'handler tables for internal timers in the simulator: start rule, store/TimerBegin pairing, fire-once expiry, eligibility of due-now timers'


# =================================================================== C19

def post_dominators(cfg):
    """immediate-ish post dominator sets over the CFG (virtual exit joins all returns / dead ends)"""
    nodes = sorted(cfg.reach)
    exits = [n for n in nodes if not cfg.succ[n]]
    full = set(nodes)
    pdom = {n: set(full) for n in nodes}
    for e in exits:
        pdom[e] = {e}
    changed = True
    while changed:
        changed = False
        for n in nodes:
            if n in exits:
                continue
            ss = [y for (y, l) in cfg.succ[n]]
            new = set.intersection(*[pdom[y] for y in ss]) | {n} if ss else {n}
            if new != pdom[n]:
                pdom[n] = new
                changed = True
    return pdom


SIDE_TABLE = {
    # callee suffix: [(argument index, side, field of that side's state or None for the state itself)]
    'peek_scheduled_action': [(0, 'client', 'scheduled_action'), (1, 'server', 'scheduled_action')],
    'peek_scheduled_internal_timer': [(0, 'client', 'scheduled_internal_timer'), (1, 'server', 'scheduled_internal_timer')],
    'peek_blocked_exp': [(0, 'client', 'blocking_until'), (1, 'server', 'blocking_until')],
    'peek_queue': [(1, 'client', None), (2, 'server', None), (3, 'network', 'client_aggregate_base_delay'), (4, 'network', 'server_aggregate_base_delay')],
    'do_scheduled_action': [(0, 'client', None), (1, 'server', None)],
    'do_internal_timer': [(0, 'client', None), (1, 'server', None)],
    'pick_next': [(1, 'client', None), (2, 'server', None)],
}


def check_side_plumbing(ctx, rep, rid, only=None):
    """the two sides are never crossed on the way down: every call of the simulator that takes a (client, server) pair receives the
    client's state / slot in the client position and the server's in the server position (frozen table of the call sites of
    sim_advanced and pick_next; sim_network_stack gets (own side, other side) by the branch on the event's side)"""
    prog, an = ctx.prog, ctx.an
    sa = sim_fn(prog, 'sim_advanced')
    pn = sim_fn(prog, 'pick_next')
    sn = prog.fn(SIM, 'SimState', 'new')
    saa = an.get(sa)
    roots = {}
    for (b, f, a, t) in calls(saa):
        if callee_key(f) == sn.key:
            side = 'client' if a[0] == ('param', 1) else ('server' if a[0] == ('param', 2) else None)
            dl = saa.blocks[b]['t']['d']
            if side and not dl['pr']:
                roots.setdefault(sa.key, {})[side] = ('local', dl['l'])
    for (b, f, a, t) in calls(saa):
        if callee_str(f).endswith('NetworkBottleneck::new'):
            dl = saa.blocks[b]['t']['d']
            if not dl['pr']:
                roots.setdefault(sa.key, {})['network'] = ('local', dl['l'])
    roots[pn.key] = {'client': ('param', 2), 'server': ('param', 3), 'network': ('param', 4)}

    def root(e):
        e = strip_sites(e)
        while isinstance(e, tuple) and e and e[0] in ('ref', 'refv', 'load', 'deref', 'fld', 'idx', 'pick', 'view', 'var'):
            e = e[1]
        return e
    n = 0
    for fn in (sa, pn):
        fa = an.get(fn)
        rt = roots.get(fn.key, {})
        for (b, f, a, t) in calls(fa):
            cs = callee_str(f).split('::')[-1]
            if cs in SIDE_TABLE and f.get('crate') == SIM and (only is None or cs in only):
                for (i, side, fld) in SIDE_TABLE[cs]:
                    if i >= len(a):
                        rep.ob(rid, fn, 'side-plumbing:%s:arg%d' % (cs, i), False, 'call has %d arguments' % len(a))
                        continue
                    n += 1
                    ok = rt.get(side) is not None and root(a[i]) == rt[side] and (fld is None or contains(a[i], lambda y: isinstance(y, tuple) and y and y[0] == 'fld' and y[3] == fld))
                    rep.ob(rid, fn, 'side-plumbing:%s:%s' % (cs, side if fld is None else side + '.' + fld), ok, '%s(.. arg %d = %s ..)' % (cs, i, show(a[i])[:60]))
            if cs == 'sim_network_stack' and fn is sa and (only is None or cs in only):
                # (own side read-only, other side mutable), selected by next.client
                pol = None
                for (sb, e) in switch_conditions(fa):
                    if is_field(e, 'client', 'SimEvent'):
                        for (y, lab) in fa.cfg.succ[sb]:
                            if fa.cfg.dominates(y, b) and [p for (p, l) in fa.cfg.pred[y]] == [sb]:
                                pol = (lab[1] != '0') if lab[0] == 'sw' else ('0' in lab[1])
                n += 1
                own, other = ('client', 'server') if pol else ('server', 'client')
                ok = pol is not None and len(a) >= 4 and root(a[2]) == rt.get(own) and root(a[3]) == rt.get(other)
                rep.ob(rid, fn, 'side-plumbing:sim_network_stack:%s' % ('client-event' if pol else 'server-event'), ok,
                       'sim_network_stack(.., %s, %s, ..) on the %s edge of next.client' % (show(a[2])[:20] if len(a) > 2 else '?', show(a[3])[:20] if len(a) > 3 else '?', pol))
    rep.count_floor(rid, 'side-carrying arguments checked', n, 20 if only is None else 2)


def check_filter_semantics(ctx, rep, rid):
    """the filtered trace is the sub-sequence the filter names: an event is appended to the trace exactly when
    (!only_network_activity || it was network activity) && (!only_client_events || it is a client event)"""
    prog, an = ctx.prog, ctx.an
    sa = sim_fn(prog, 'sim_advanced')
    fa = an.get(sa)
    loops = fa.cfg.loops()
    main = [h for h, body in loops.items() if any(callee_str(f).endswith('pick_next') for (b, f, a, t) in calls(fa) if b in body)]
    if len(main) != 1:
        rep.fail_closed(rid, 'sim_advanced: main loop')
        return
    body = loops[main[0]]
    pushes = [b for (b, f, a, t) in calls(fa) if callee_str(f).endswith('Vec::<T, A>::push') and b in body]
    rep.count_exact(rid, 'trace pushes in the main loop', len(pushes), 1)
    if len(pushes) != 1:
        return
    pb = pushes[0]
    flt_c = lambda e: is_field(e, 'only_client_events', 'SimulatorArgs')
    flt_n = lambda e: is_field(e, 'only_network_activity', 'SimulatorArgs')
    # the decision region starts at the first test of a filter flag that dominates the push (facts are collected from there only)
    firsts = [sb for (sb, e) in switch_conditions(fa) if (flt_c(e) or flt_n(e)) and fa.cfg.dominates(sb, pb) or
              (contains(e, lambda y: flt_c(y) or flt_n(y)) and fa.cfg.dominates(sb, pb))]
    if not firsts:
        rep.ob(rid, sa, 'pushed-only-when-selected', False, 'no test of a filter flag dominates the trace push')
        return
    dom = fa.cfg.dom()
    first = [x for x in firsts if all(fa.cfg.dominates(x, y) for y in firsts)]
    start = first[0] if first else firsts[0]
    pd = post_dominators(fa.cfg)
    cands = pd[start] - {start}
    ipd = None
    for c in cands:
        if all(c2 == c or c2 in pd[c] for c2 in cands):
            ipd = c
    from .paths import local_paths
    if ipd is None:
        rep.ob(rid, sa, 'pushed-only-when-selected', False, 'the filter decision does not reconverge')
        return
    lp = local_paths(prog, fa, start, {pb, ipd})

    def val(S, pred):
        vs = {f[2] for f in S if f[0] == 'btrue' and pred(f[1])}
        return vs.pop() if len(vs) == 1 else None
    is_cl = lambda e: is_field(e, 'client', 'SimEvent')

    def is_na(e):
        e = unload(e)
        if isinstance(e, tuple) and e and e[0] == 'phi':
            return all(is_na(x) for x in e[1])
        return is_call(e, 'sim_network_stack')

    def selected(S):
        fc, fn_ = val(S, flt_c), val(S, flt_n)
        c_ok = True if fc is False else (val(S, is_cl) if fc is True else None)
        n_ok = True if fn_ is False else (val(S, is_na) if fn_ is True else None)
        if c_ok is False or n_ok is False:
            return False
        if c_ok is True and n_ok is True:
            return True
        return None
    to_push = [S for (e, S) in lp if e == pb]
    to_join = [S for (e, S) in lp if e == ipd]
    bad_push = [S for S in to_push if selected(S) is not True]
    rep.ob(rid, sa, 'pushed-only-when-selected', bool(to_push) and not bad_push, 'every path to the trace push has each filter off or its subject true' + ('' if not bad_push else '; witness ' + show_facts(bad_push[0])))
    bad_skip = [S for S in to_join if selected(S) is not False]
    rep.ob(rid, sa, 'skipped-only-when-filtered-out', bool(to_join) and not bad_skip,
           'a path that reaches the filter and does not push has a filter on with its subject false' + ('' if not bad_skip else '; witness ' + show_facts(bad_skip[0])))


PICK_SOURCES = ('peek_scheduled_action', 'peek_scheduled_internal_timer', 'peek_blocked_exp', 'peek_aggregate_delay', 'peek_queue')


def check_pick_next_none(ctx, rep, rid):
    """pick_next reports "nothing left" only when every one of its five sources said so (each compared equal to Duration::MAX);
    with a source left, the simulation must go on"""
    prog, an = ctx.prog, ctx.an
    from .paths import local_paths
    pn = sim_fn(prog, 'pick_next')
    pa = an.get(pn)
    nones = [b for (b, k, v) in ret_defs(pa) if isinstance(v, tuple) and v and v[0] == 'agg' and v[2] == 'None']
    rep.count_exact(rid, 'None results of pick_next', len(nones), 1)
    for nb in nones:
        lp = local_paths(prog, pa, 0, {nb})
        is_max = lambda e: isinstance(e, tuple) and e and e[0] == 'cdef' and e[1].endswith('::MAX')
        bad = None
        for (e, S) in lp:
            for src in PICK_SOURCES:
                def is_src(x, src=src):
                    # the result of that peek itself (or the duration component of its pair), not an expression that merely uses it
                    x = unload(x)
                    while isinstance(x, tuple) and x and x[0] == 'fld':
                        x = unload(x[1])
                    return is_call(x, src)
                if not any(f[0] == 'cmp' and f[1] == 'eq' and f[5] is True and ((is_src(f[2]) and is_max(f[3])) or (is_src(f[3]) and is_max(f[2]))) for f in S):
                    bad = (src, S)
        rep.ob(rid, pn, 'None-only-when-all-five-sources-are-exhausted', bool(lp) and bad is None,
               'paths to the None result: %d' % len(lp) + ('' if bad is None else '; %s not established == Duration::MAX on a path: %s' % (bad[0], show_facts(bad[1]))))


def check_simqueue_peek_merge(ctx, rep, rid):
    """SimQueue::peek merges the two sides: each result triple (event, queue tag, duration) comes from ONE side's EventQueue::peek, a
    side is returned when the other has nothing, and with both present the client's only when its (duration, event rank) compares
    Less or Equal to the server's, the server's only otherwise"""
    prog, an = ctx.prog, ctx.an
    pk = prog.fn(SIM, 'SimQueue', 'peek')
    ka = an.get(pk)
    rep.analysed(pk)
    pf = an.paths(pk, history=True)

    def side_of(e):
        ss = set()
        for y in walk(e):
            if is_call(y, 'EventQueue::peek'):
                for z in walk(y[2][0]):
                    if isinstance(z, tuple) and z and z[0] == 'fld' and z[2].endswith('SimQueue') and z[3] in ('client', 'server'):
                        ss.add(z[3])
        return ss
    n = 0
    for (b, k, v) in ret_defs(ka):
        if not (v[0] == 'tuple' and len(v[2]) == 3):
            rep.ob(rid, pk, 'merge:result-is-a-triple', False, 'returns %s' % shape(v))
            continue
        sides = [side_of(x) for x in v[2]]
        if not any(sides):
            continue   # the empty result
        n += 1
        one = len(set().union(*sides)) == 1 and all(len(x) == 1 for x in sides)
        rep.ob(rid, pk, 'merge:triple-from-one-side', one, 'components come from %s' % [sorted(x) for x in sides])
        if not one:
            continue
        mine = next(iter(sides[0]))
        other = 'server' if mine == 'client' else 'client'
        sts = pf.at(b, k) if k is not None else pf.at_entry(b)

        def ok_case(S):
            for f in S:
                if f[0] == 'variant' and f[2] == 'None' and side_of(f[1]) == {other}:
                    return True
            # both present: the comparison client vs server decides
            less_eq = None
            for f in S:
                if f[0] == 'cmp' and f[1] == 'eq' and contains(f[2], lambda y: is_call(y, 'cmp')) and isinstance(f[3], tuple) and f[3] and f[3][0] == 'agg' and f[3][2] in ('Less', 'Equal') and f[5] is True:
                    args = [y for y in walk(f[2]) if is_call(y, 'cmp')]
                    if args and side_of(args[0][2][0]) == {'client'} and side_of(args[0][2][1]) == {'server'}:
                        less_eq = True
            neg = [f for f in S if f[0] == 'cmp' and f[1] == 'eq' and f[5] is False and isinstance(f[3], tuple) and f[3] and f[3][0] == 'agg' and f[3][2] in ('Less', 'Equal')]
            both_neg = {f[3][2] for f in neg} == {'Less', 'Equal'} and all(
                (lambda args: bool(args) and side_of(args[0][2][0]) == {'client'} and side_of(args[0][2][1]) == {'server'})([y for y in walk(f[2]) if is_call(y, 'cmp')]) for f in neg)
            # `matches!(ordering, Less | Equal)` / `match ordering { .. }`: variant facts on the comparison
            def cs_cmp(e):
                args = [y for y in walk(e) if is_call(y, 'cmp')]
                return bool(args) and side_of(args[0][2][0]) == {'client'} and side_of(args[0][2][1]) == {'server'}
            for f in S:
                if f[0] == 'variant' and cs_cmp(f[1]):
                    if f[2] in ('Less', 'Equal'):
                        less_eq = True
                    if f[2] == 'Greater':
                        both_neg = True
                if f[0] == 'notvariant' and cs_cmp(f[1]):
                    if {'Less', 'Equal'} <= set(f[2]):
                        both_neg = True
                    if 'Greater' in f[2] and not ({'Less', 'Equal'} & set(f[2])):
                        less_eq = True
            if mine == 'client':
                return less_eq is True and not both_neg
            return both_neg and less_eq is not True
        ok, w = all_paths(sts, ok_case)
        rep.ob(rid, pk, 'merge:%s-returned-only-when-first' % mine, ok and bool(sts), '' if ok else 'witness: ' + show_facts(w))
    rep.count_floor(rid, 'non-empty results of SimQueue::peek', n, 4)
    # the time to a base event includes the accumulated network delay (EventQueue::peek)
    ek = prog.fn(SIM, 'EventQueue', 'peek')
    ea = an.get(ek)
    adds = [a for (b, f, a, t) in calls(ea) if callee_str(f).endswith('::add') and any(strip_sites(x) == ('param', 2) for x in a)]
    subs = [a for (b, f, a, t) in calls(ea) if callee_str(f).endswith('::sub') and any(strip_sites(x) == ('param', 2) for x in a)]
    rep.ob(rid, ek, 'base-duration-includes-the-network-delay', len(adds) >= 1 and not subs, 'additions of network_delay_sum: %d, subtractions: %d' % (len(adds), len(subs)))
    # "nothing queued" is answered only for an empty queue: the early empty result sits behind len() == 0 / is_empty() (the caller
    # unwraps otherwise)
    for (cls, nm) in (('SimQueue', 'peek'), ('EventQueue', 'peek')):
        f2 = prog.fn(SIM, cls, nm)
        a2 = an.get(f2)
        empties = [b for (b, k, v) in ret_defs(a2) if isinstance(v, tuple) and v and v[0] == 'tuple' and v[2] and isinstance(v[2][0], tuple) and v[2][0][0] == 'agg' and v[2][0][2] == 'None'
                   and not any(is_call(y, 'peek') for y in walk(v))]
        guards = []
        for b in a2.cfg.reach:
            t = a2.blocks[b]['t']
            if t['k'] != 'switch':
                continue
            e = strip_sites(a2.operand(t['d'], (b, len(a2.blocks[b]['s']))))
            for (y, lab) in a2.cfg.succ[b]:
                if is_call(unload(e), '::len') and lab == ('sw', '0'):
                    guards.append(y)
                elif t.get('dty') == 'bool':
                    pol = (lab[1] != '0') if lab[0] == 'sw' else ('0' in lab[1])
                    empty_test = is_call(unload(e), '::is_empty') or (isinstance(e, tuple) and e and e[0] == 'bin' and e[1] == 'Eq' and
                                                                         any(is_call(unload(z), '::len') for z in e[2:4]) and any(is_const(z, 0) for z in e[2:4]))
                    if empty_test and pol:
                        guards.append(y)
        # an unconditional "nothing" for two absent sides (None, None) is not an early answer: only results not dominated by a peek call count
        peeks = [b for (b, f, a, t) in calls(a2) if callee_str(f).endswith('::peek')]
        early = [b for b in empties if not any(a2.cfg.dominates(pb, b) for pb in peeks)]
        ok = bool(early) and all(any(a2.cfg.dominates(g, b) for g in guards) for b in early)
        rep.ob(rid, f2, 'empty-result-only-for-an-empty-queue', ok, 'early empty results: %d, behind an emptiness test: %s' % (len(early), ok))


def check_pick_next_handlers(ctx, rep, rid, handler, peek):
    """pick_next hands `current_time + <result of the peek>` to the handler as its target, and queues the event the handler returns
    (push_sim of the Some payload): a timer / action that was found due is fired at its own time and its event is not lost"""
    prog, an = ctx.prog, ctx.an
    pn = sim_fn(prog, 'pick_next')
    pa = an.get(pn)
    hs = [(b, a) for (b, f, a, t) in calls(pa) if callee_str(f).split('::')[-1] == handler and f.get('crate') == SIM]
    rep.count_exact(rid, handler + ' calls in pick_next', len(hs), 1)
    for (b, a) in hs:
        tgt = a[2] if len(a) > 2 else ('?',)
        ok = isinstance(tgt, tuple) and tgt[0] == 'call' and tgt[1].endswith('::add') and len(tgt[2]) == 2 and strip_sites(tgt[2][0]) == ('param', 5) and \
            is_call(unload(tgt[2][1]), peek)
        rep.ob(rid, pn, '%s:target-is-now-plus-peek' % handler, ok, '%s(.., target = %s)' % (handler, shape(tgt)[:80]))
        pushed = False
        for (b2, f2, a2, t2) in calls(pa):
            if callee_str(f2).endswith('SimQueue::push_sim') and pa.cfg.dominates(b, b2):
                if contains(a2[1], lambda y: isinstance(y, tuple) and y and y[0] == 'var' and y[2] == 'Some' and is_call(unload(y[1]), handler)):
                    pushed = True
        rep.ob(rid, pn, '%s:result-is-queued' % handler, pushed, 'the event returned by %s is pushed into the queue' % handler)


def check_before_helper(ctx, rep, rid):
    """queue_event::before(base candidate, current best, delay) answers "take the base event" only when there IS a base event: the
    caller unwraps the winner, so a `true` for an absent candidate is a panic in EventQueue::peek"""
    prog, an = ctx.prog, ctx.an
    fn = prog.fn_opt(SIM, None, 'before')
    if fn is None:
        rep.fail_closed(rid, 'queue_event::before')
        return
    fa = an.get(fn)
    pf = an.paths(fn, history=True)
    n = 0
    for (b, k, v) in ret_defs(fa):
        vals = [v] if v[0] != 'phi' else list(v[1])
        if any(num(x) == 0 for x in vals) and not any(num(x) != 0 for x in vals):
            continue
        n += 1
        sts = pf.at(b, k) if k is not None else pf.at_entry(b)
        ok, w = all_paths(sts, lambda S: any(f[0] == 'variant' and f[2] == 'Some' and root_of(f[1]) == ('param', 1) for f in S))
        rep.ob(rid, fn, 'before-true-only-for-a-present-candidate', ok and bool(sts), 'returns %s' % shape(v)[:60] + ('' if ok else '; witness: ' + show_facts(w)))
    rep.count_floor(rid, 'non-false results of before()', n, 1)


def param_behind(fa, e, depth=4):
    """the parameter whose memory the place expression e designates, following iterator / reference locals to their definitions"""
    ps = {y[1] for y in walk(e) if isinstance(y, tuple) and len(y) == 2 and y[0] == 'param' and isinstance(y[1], int)}
    if len(ps) == 1:
        return ps.pop()
    if ps or depth == 0:
        return None
    found = set()
    for y in walk(e):
        if isinstance(y, tuple) and len(y) == 2 and y[0] in ('local', 'rec') and isinstance(y[1], int):
            for (bb, kk, part) in fa.defs().get(y[1], []):
                p2 = param_behind(fa, fa.def_value(y[1], bb, kk), depth - 1)
                if p2 is not None:
                    found.add(p2)
    return found.pop() if len(found) == 1 else None


def check_search_sides(ctx, rep, rid, fn, what):
    """the client's slots are searched first and reported as the client's, then the server's as the server's: of the two clearing
    sites one is in the first parameter's vector, the other in the second parameter's.  Where the search keeps its result in
    flag / Option locals set next to the clearing (the form of the pinned tree), every clearing site does so and with the right flag"""
    prog, an = ctx.prog, ctx.an
    fa = an.get(fn)
    sites = clearing_sites(fa)
    info = []
    for (kind, pe, site) in sites:
        side = {1: True, 2: False}.get(param_behind(fa, pe))
        b = site[0]
        flags = []
        found = False
        for k, st in enumerate(fa.blocks[b]['s']):
            if 'p' not in st or st['rv']['k'] == 'setdiscr' or st['p']['pr']:
                continue
            v = fa.rvalue(st['rv'], (b, k))
            if fa.fn.local_ty(st['p']['l']) == 'bool' and num(v) is not None:
                flags.append(bool(num(v)))
            if isinstance(v, tuple) and v and v[0] == 'agg' and v[2] == 'Some' and fa.fn.local_ty(st['p']['l']).startswith('core::option::Option<'):
                found = True
        info.append((side, flags, found))
    if len(sites) == 2:
        sides = [x[0] for x in info]
        rep.ob(rid, fn, 'search:client-then-server', set(sides) == {True, False}, 'vectors searched: %s' % ['client' if x else 'server' if x is False else '?' for x in sides])
    if any(fl for (sd, fl, fo) in info):
        for (side, flags, found) in info:
            rep.ob(rid, fn, 'search:side-flag-matches-the-vector-searched:%s' % ('client' if side else 'server' if side is False else '?'),
                   side is not None and flags == [side], 'slot of %s cleared, side flag set to %s in the same step' % ('client' if side else 'server', flags))
    if any(fo for (sd, fl, fo) in info):
        for (side, flags, found) in info:
            rep.ob(rid, fn, 'search:records-what-it-found:%s' % ('client' if side else 'server'), found, 'the %s found is stored (Some(..)) where its slot is cleared' % what)



def check_stop_conditions(ctx, rep, rid):
    """the three stop conditions of the main loop mean what they say: the loop is left (after an event was processed) exactly when a
    configured limit was reached - max_trace_length > 0 and the trace is at least that long, max_sim_iterations > 0 and at least that
    many iterations ran - or all normal packets are processed and the caller did not ask to continue; otherwise it goes on"""
    prog, an = ctx.prog, ctx.an
    from .paths import local_paths
    sa = sim_fn(prog, 'sim_advanced')
    fa = an.get(sa)
    loops = fa.cfg.loops()
    main = [h for h, body in loops.items() if any(callee_str(f).endswith('pick_next') for (b, f, a, t) in calls(fa) if b in body)]
    if len(main) != 1:
        rep.fail_closed(rid, 'sim_advanced: main loop')
        return
    h = main[0]
    body = loops[h]
    fld = lambda n: (lambda e: is_field(e, n, 'SimulatorArgs'))
    firsts = [sb for (sb, e) in switch_conditions(fa) if sb in body and contains(e, lambda y: is_field(y, 'max_trace_length', 'SimulatorArgs') or is_field(y, 'max_sim_iterations', 'SimulatorArgs'))]
    if not firsts:
        rep.ob(rid, sa, 'stop:limits-tested', False, 'no test of a limit in the main loop')
        return
    start = [x for x in firsts if all(fa.cfg.dominates(x, y) for y in firsts)]
    start = start[0] if start else min(firsts)
    exits = {y for x in body for (y, l) in fa.cfg.succ[x] if y not in body and fa.cfg.can_reach(start, x)}
    lp = local_paths(prog, fa, start, {h} | exits)
    zero = lambda e: is_const(e, 0)

    def reached(S, name, pol):
        """pol True: (limit > 0 and count >= limit) established; pol False: one of the two refuted"""
        pos = cmp_int_true(S, 'lt', zero, fld(name)) or cmp_int_true(S, 'ne', fld(name), zero)
        npos = cmp_int_true(S, 'le', fld(name), zero) or cmp_int_true(S, 'eq', fld(name), zero)
        other = lambda e: not fld(name)(e) and not zero(e)
        ge = cmp_int_true(S, 'le', fld(name), other)
        lt = cmp_int_true(S, 'lt', other, fld(name))
        return (pos and ge) if pol else (npos or lt)

    def normal_done(S, pol):
        cont = [f[2] for f in S if f[0] == 'btrue' and fld('continue_after_all_normal_packets_processed')(f[1])]
        nnp = [f[3] for f in S if f[0] == 'bcall' and f[1].endswith('no_normal_packets')]
        if pol:
            return cont == [False] and nnp == [True]
        return cont == [True] or nnp == [False]
    n_exit = n_back = 0
    bad = None
    for (e, S) in lp:
        if e == h:
            n_back += 1
            ok = reached(S, 'max_trace_length', False) and reached(S, 'max_sim_iterations', False) and normal_done(S, False)
        else:
            n_exit += 1
            ok = reached(S, 'max_trace_length', True) or reached(S, 'max_sim_iterations', True) or normal_done(S, True)
        if not ok and bad is None:
            bad = ('goes on' if e == h else 'stops', S)
    rep.ob(rid, sa, 'stop:exactly-when-a-limit-is-reached-or-all-normal-packets-are-done', bad is None and n_exit >= 3 and n_back >= 1,
           'paths that stop: %d, that go on: %d' % (n_exit, n_back) + ('' if bad is None else '; the loop %s on a path with %s' % (bad[0], show_facts(bad[1]))))


PRIORITY = [
    # (what is picked, the call / construct that marks the pick, its source, the sources it must not be later than)
    ('aggregate delay', 'pop_aggregate_delay', 'peek_aggregate_delay', ('peek_scheduled_action', 'peek_scheduled_internal_timer', 'peek_blocked_exp', 'peek_queue')),
    ('queue', 'SimQueue::pop', 'peek_queue', ('peek_scheduled_action', 'peek_scheduled_internal_timer')),
    ('internal timer', 'do_internal_timer', 'peek_scheduled_internal_timer', ('peek_scheduled_action',)),
]


def check_pick_priorities(ctx, rep, rid, only=None):
    """pick_next acts on a source only when that source is the earliest: the step that consumes source X is dominated by the true
    edges of X <= Y for every source Y that could still be due earlier (the ones ranked after it)"""
    prog, an = ctx.prog, ctx.an
    pn = sim_fn(prog, 'pick_next')
    pa = an.get(pn)

    def src_of(e):
        while isinstance(e, tuple) and e and e[0] in ('refv', 'ref', 'load', 'pick', 'fld'):
            e = e[1]
        for n in PICK_SOURCES:
            if is_call(e, n):
                return n
        return None
    conds = []
    for (sb, e) in switch_conditions(pa):
        e2 = strip_sites(e)
        op = None
        if e2[0] == 'call' and e2[1].endswith('PartialOrd::le'):
            op, l, r = 'le', e2[2][0], e2[2][1]
        elif e2[0] == 'bin' and e2[1] == 'Le':
            op, l, r = 'le', e2[2], e2[3]
        if op and src_of(l) and src_of(r):
            for (y, lab) in pa.cfg.succ[sb]:
                pol = (lab[1] != '0') if lab[0] == 'sw' else ('0' in lab[1])
                if pol and [p for (p, l2) in pa.cfg.pred[y]] == [(sb)] or (pol and len(pa.cfg.pred[y]) == 1):
                    conds.append((src_of(l), src_of(r), y))
    sites = {}
    for (b, f, a, t) in calls(pa):
        cs = callee_str(f)
        for (what, mark, src, others) in PRIORITY:
            if cs.endswith(mark):
                sites.setdefault(what, []).append(b)
    # the blocking expiry has no call of its own: the step that clears blocking_until
    for (pe, v, site) in field_stores(pa, 'blocking_until', 'SimState'):
        sites.setdefault('blocking expiry', []).append(site[0])
    table = list(PRIORITY) + [('blocking expiry', None, 'peek_blocked_exp', ('peek_scheduled_action', 'peek_scheduled_internal_timer', 'peek_queue'))]
    for (what, mark, src, others) in table:
        if only is not None and what not in only:
            continue
        bs = sites.get(what, [])
        rep.ob(rid, pn, 'priority:%s:site' % what, bool(bs), 'sites: %d' % len(bs))
        for b in bs:
            for o in others:
                ok = any(x == src and y == o and pa.cfg.dominates(tb, b) for (x, y, tb) in conds)
                rep.ob(rid, pn, 'priority:%s-not-later-than:%s' % (what, o.replace('peek_', '')), ok, '%s is acted on only behind %s <= %s' % (what, src, o))


def check_earliest_side(ctx, rep, rid):
    """peek_queue_earliest_side: an event held by blocking cannot leave before the blocking ends - wherever the time of the blocked
    candidate is used (the duration returned for it, the comparison with the free candidate) it is max(event time, blocking_until);
    a base event's time includes the accumulated network delay (added); every result carries the caller's side flag"""
    prog, an = ctx.prog, ctx.an
    fn = sim_fn(prog, 'peek_queue_earliest_side')
    fa = an.get(fn)
    rep.analysed(fn)
    is_blk = lambda e: contains(e, lambda y: is_call(y, 'SimQueue::peek_blocking'))
    is_free = lambda e: contains(e, lambda y: is_call(y, 'SimQueue::peek_non_blocking'))
    uses = []
    for (b, f, a, t) in calls(fa):
        cs = callee_str(f)
        if cs.endswith('duration_since') or cs.endswith('Ord>::cmp') or cs.endswith('Ord::cmp'):
            for x in a:
                # arguments are references to temporaries: look at what the temporary holds
                x0 = x
                while isinstance(x0, tuple) and x0 and x0[0] in ('ref', 'refv', 'load'):
                    x0 = x0[1]
                if isinstance(x0, tuple) and x0 and x0[0] == 'local':
                    ds = fa.defs().get(x0[1], [])
                    if len(ds) == 1:
                        x = fa.def_value(x0[1], ds[0][0], ds[0][1])
                if is_blk(x) and not is_free(x) and contains(x, lambda y: isinstance(y, tuple) and y and y[0] == 'fld' and y[3] == 'time'):
                    uses.append(x)
    rep.count_floor(rid, 'uses of the blocked candidate\'s time in peek_queue_earliest_side', len(uses), 3)
    for x in uses:
        through_max = contains(x, lambda y: isinstance(y, tuple) and y and y[0] == 'call' and (y[1].endswith('Ord>::max') or y[1].endswith('Ord::max')) and
                               any(contains(z, lambda w: w == ('param', 2)) for z in y[2]) and any(is_blk(z) for z in y[2]))
        no_min = not contains(x, lambda y: isinstance(y, tuple) and y and y[0] == 'call' and (y[1].endswith('Ord>::min') or y[1].endswith('Ord::min')))
        rep.ob(rid, fn, 'blocked-candidate-leaves-no-earlier-than-blocking-ends', through_max and no_min, 'time used: %s' % shape(x)[:100])
    pfe = an.paths(fn, history=True)
    for (b, k, v) in ret_defs(fa):
        if isinstance(v, tuple) and v and v[0] == 'tuple' and len(v[2]) == 3:
            rep.ob(rid, fn, 'result-carries-the-callers-side', strip_sites(v[2][2]) == ('param', 6), 'is_client = %s' % shape(v[2][2]))
            d0 = v[2][0]
            if isinstance(d0, tuple) and d0 and d0[0] == 'cdef' and d0[1].endswith('::MAX'):
                # "nothing on this side" only when neither candidate exists
                sts = pfe.at(b, k) if k is not None else pfe.at_entry(b)

                def none_of(S, which):
                    return any((f[0] == 'bcall' and f[1].endswith('is_none') and f[3] is True and which(f[2][0])) or
                               (f[0] == 'bcall' and f[1].endswith('is_some') and f[3] is False and which(f[2][0])) or
                               (f[0] == 'variant' and f[2] == 'None' and which(f[1])) for f in S)
                ok, w = all_paths(sts, lambda S: none_of(S, lambda e: is_blk(e) and not is_free(e)) and none_of(S, lambda e: is_free(e) and not is_blk(e)))
                rep.ob(rid, fn, 'nothing-only-when-neither-candidate-exists', ok and bool(sts), '' if ok else 'witness: ' + show_facts(w))
    # base events: + network_delay_sum
    adds = [y for (b, f, a, t) in calls(fa) for y in [fa.call_value(fa.blocks[b]['t'], (b, len(fa.blocks[b]['s'])))] if callee_str(f).endswith('::add') and is_free(y)]
    subs = [1 for (b, f, a, t) in calls(fa) if callee_str(f).endswith('::sub') and any(is_free(x) for x in a)]
    rep.ob(rid, fn, 'base-event-time-includes-the-network-delay', bool(adds) and not subs and all(strip_sites(y[2][1]) == ('param', 5) for y in adds), 'additions: %d, subtractions: %d' % (len(adds), len(subs)))


def check_zero_default_delays(ctx, rep, rid):
    """without an integration model the three integration delays are zero (the properties speak of runs without integration delays;
    `timeout expiry`, `network delay` and `expiry` are then exact): SimState::{reporting,action,trigger}_delay fall back to a zero Duration"""
    prog, an = ctx.prog, ctx.an

    def zero_dur(e):
        e = strip_sites(e)
        if isinstance(e, tuple) and e and e[0] == 'call' and e[1].split('::')[-1] in ('from_micros', 'from_millis', 'from_secs', 'from_nanos') and len(e[2]) == 1:
            return is_const(e[2][0], 0)
        if isinstance(e, tuple) and e and e[0] == 'cdef' and (e[1].endswith('::ZERO') or prog.consts.get(e[1], {}).get('allzero') is True):
            return True
        if isinstance(e, tuple) and e and e[0] == 'call' and e[1].endswith('Default>::default'):
            return True
        return False
    for n in ('reporting_delay', 'action_delay', 'trigger_delay'):
        fn = prog.fn_opt(SIM, 'SimState', n)
        if fn is None:
            rep.fail_closed(rid, 'SimState::' + n)
            continue
        rv = [v for (b, k, v) in ret_defs(an.get(fn))]
        defaults = []
        for v in rv:
            for y in walk(v):
                if isinstance(y, tuple) and y and y[0] == 'call' and y[1].endswith('Option::<T>::unwrap_or') and len(y[2]) == 2:
                    defaults.append(y[2][1])
                if isinstance(y, tuple) and y and y[0] == 'call' and y[1].endswith('Option::<T>::map_or') and len(y[2]) == 3:
                    defaults.append(y[2][1])
            # expanded form: the None arm assigns the default directly
            alts = list(v[1]) if isinstance(v, tuple) and v and v[0] == 'phi' else [v]
            for x in alts:
                x2 = strip_sites(x)
                if isinstance(x2, tuple) and x2 and ((x2[0] == 'call' and x2[1].split('::')[-1] in ('from_micros', 'from_millis', 'from_secs', 'from_nanos')) or x2[0] == 'cdef'):
                    defaults.append(x)
        ok = bool(defaults) and all(zero_dur(d) for d in defaults)
        rep.ob(rid, fn, 'no-integration-means-zero-delay', ok, 'returns %s' % (shape(rv[0])[:80] if rv else '?'))


def check_misc_simulator_tables(ctx, rep, pid):
    """small tables found missing by the mutation campaign"""
    prog, an = ctx.prog, ctx.an
    if pid == 'C15':
        # is_empty is len() == 0, on both queue types
        for cls in ('SimQueue', 'EventQueue'):
            fn = prog.fn(SIM, cls, 'is_empty')
            rv = [v for (b, k, v) in ret_defs(an.get(fn))]
            ok = len(rv) == 1 and isinstance(rv[0], tuple) and rv[0][0] == 'bin' and rv[0][1] == 'Eq' and any(is_call(unload(z), '::len') for z in rv[0][2:4]) and any(is_const(z, 0) for z in rv[0][2:4])
            rep.ob('C15.R2', fn, 'is_empty-is-len-equals-zero', ok, 'returns %s' % (shape(rv[0])[:60] if rv else '?'))
        # the direction is the second column of a trace line
        pt = sim_fn(prog, 'parse_trace_advanced')
        pta = an.get(pt)
        cols = set()
        for (b, e) in switch_conditions(pta):
            for y in walk(e):
                if isinstance(y, tuple) and y and y[0] == 'ktext' and y[2] in ('"s"', '"sn"', '"r"', '"rn"', '"sp"', '"rp"'):
                    for z in walk(e):
                        if isinstance(z, tuple) and z and z[0] == 'idx' and num(z[2]) is not None:
                            cols.add(num(z[2]))
        if cols:
            rep.ob('C15.R5', pt, 'direction-is-the-second-column', cols == {1}, 'direction literals compared with column(s) %s of the line' % sorted(cols))
        # sim_network_stack reports network activity (true) exactly for the packets that enter or leave the tunnel
        ns = sim_fn(prog, 'sim_network_stack')
        na = an.get(ns)
        arms, rest, other, swb = arms_on(prog, na, 'maybenot::event::TriggerEvent', lambda e: True)
        want = {'TunnelSent': {1}, 'TunnelRecv': {1}, 'NormalSent': {0}}
        for (b, k, v) in ret_defs(na):
            c = num(v)
            if c is None:
                continue
            arm = [n for n, hb in arms.items() if na.cfg.dominates(hb, b)]
            if arm and arm[0] in want:
                rep.ob('C15.R1', ns, 'network-activity-flag:%s' % arm[0], c in want[arm[0]], 'returns %s in the %s arm' % (bool(c), arm[0]))
            elif c == 1:
                rep.ob('C15.R1', ns, 'network-activity-flag:only-tunnel-events', False, 'returns true outside the TunnelSent / TunnelRecv arms (%s)' % (arm[:1] or 'default'))
    if pid == 'C19':
        # the consistency assertions assert that the search found something (their condition is is_some of the search result)
        for name in ('do_internal_timer', 'do_scheduled_action'):
            fn = sim_fn(prog, name)
            fa = an.get(fn)
            n = 0
            for b in fa.cfg.reach:
                t = fa.blocks[b]['t']
                if t['k'] == 'switch' and t.get('dty') == 'bool':
                    e = strip_sites(fa.operand(t['d'], (b, len(fa.blocks[b]['s']))))
                    # a successor from which no return is reachable and a panic entry point is: the failing side of an assert!
                    def dooms(y):
                        if any(fa.cfg.can_reach(y, r) or y == r for r in fa.cfg.returns):
                            return False
                        return any(fa.blocks[z]['t']['k'] == 'call' and 'panic' in callee_str(fa.blocks[z]['t']['f']) for z in fa.cfg.reachable_from(y) | {y})
                    panics = [y for (y, lab) in fa.cfg.succ[b] if dooms(y)]
                    if len(panics) == len(fa.cfg.succ[b]):
                        continue
                    if not panics:
                        continue
                    n += 1
                    neg = isinstance(e, tuple) and e and e[0] == 'un' and e[1] == 'Not'
                    core_ = e[2] if neg else e
                    for (y, lab) in fa.cfg.succ[b]:
                        if y in panics:
                            pol = (lab[1] != '0') if lab[0] == 'sw' else ('0' in lab[1])
                            # panic edge taken when the (possibly negated) condition evaluates to pol: must mean "nothing found"
                            found_means = is_call(core_, 'is_some')
                            none_means = is_call(core_, 'is_none')
                            nothing = (found_means and (pol if neg else not pol)) or (none_means and (not pol if neg else pol))
                            rep.ob('C19.R6', fn, 'assertion-fires-only-when-nothing-was-found', nothing, 'panic on %s = %s' % (shape(e)[:40], pol))
            rep.extra['assertions_judged:' + name] = n   # `expect` / let-else forms have no separate assertion to judge


def check_C19(ctx, rep):
    prog, an = ctx.prog, ctx.an
    rep.rule('C19.R1', 'ambient effects reachable from sim_advanced are exactly the sanctioned ones: rand::thread_rng in SimState::new only on the '
             'None arm of insecure_rng_seed and in Integration::{action,reporting,trigger}_delay (integration delays are excluded by the '
             'property), the log facade\'s statics, and the membership-only HashSet of State::validate; the client framework is seeded with '
             'the seed, the server with seed.wrapping_add(1), both through Xoshiro256StarStar::seed_from_u64')
    rep.rule('C19.R2', 'filter purity: only_client_events / only_network_activity are read only in sim_advanced, only as branch conditions whose '
             'controlled region (up to the immediate post-dominator) contains nothing but building and pushing the trace entry')
    rep.rule('C19.R3', 'no narrowing integer cast feeds a divisor in the simulator; the parser counts every queued packet for the '
             'packets-per-second estimate that NetworkBottleneck::new falls back to as a divisor')
    rep.rule('C19.R4', 'stop structure: every path around the main loop passes the sim_iterations increment and the max_sim_iterations and '
             'max_trace_length comparisons; every self-call of pick_next is preceded on its path by a consuming operation')
    sa = sim_fn(prog, 'sim_advanced')
    saa = an.get(sa)
    rep.analysed(sa)
    # ---- R1
    cl = Closure(prog, [sa] + prog.closures_of(sa))
    effs = cl.effects()
    rep.extra['call_graph'] = {'functions_reached': len(cl.nodes), 'leaf_calls_without_facts': len(cl.leaves), 'parameter_calls': cl.param_calls,
                               'crates_reached': sorted({f.crate for f in cl.nodes.values()})}
    rep.count_floor('C19.R1', 'functions in the closure of sim_advanced', len(cl.nodes), 100)
    sanctioned_rng = {('SimState', 'new'), ('Integration', 'action_delay'), ('Integration', 'reporting_delay'), ('Integration', 'trigger_delay')}
    hit = set()
    for (kind, k, path) in effs:
        caller = prog.fns.get(k)
        cname = caller.short() if caller else k
        adt = (caller.impl_adt or '').split('::')[-1] if caller else ''
        if kind == 'os-randomness' and 'thread_rng' in path and caller is not None and caller.crate == SIM and (adt, caller.name) in sanctioned_rng:
            hit.add((adt, caller.name))
            rep.ob('C19.R1', caller, 'sanctioned:thread_rng', True, 'thread_rng in %s' % cname)
            continue
        if caller is not None and caller.crate in ('rand', 'rand_core', 'getrandom', 'rand_chacha', 'std', 'core', 'alloc', 'log'):
            # internals of the sanctioned sources themselves
            root = cl.chain(k)
            continue
        if kind == 'hash-order' and caller is not None and caller.crate == 'maybenot' and caller.name == 'validate':
            m = path.split('::')[-1]
            rep.ob('C19.R1', caller, 'sanctioned-hashset:' + m, m in ('new', 'with_capacity', 'contains', 'insert', 'len', 'is_empty') and 'HashSet' in path, path)
            continue
        if kind == 'mutable-static' and (path.startswith('log::') or (caller is not None and caller.crate == 'log')):
            continue
        rep.ob('C19.R1', cname, 'effect:%s:%s' % (kind, path.split('<')[0][-50:]), False, '%s source %s reachable via %s' % (kind, path, ' -> '.join(cl.chain(k)[-5:])))
    rep.ob('C19.R1', '<inventory>', 'sanctioned-rng-sites', hit <= sanctioned_rng, 'thread_rng call sites: %s' % sorted(hit))
    # internals reachable only through sanctioned callers: every function of rand/getrandom in the closure is reached through them
    # thread_rng in SimState::new only under None
    sn = prog.fn(SIM, 'SimState', 'new')
    sna = an.get(sn)
    spf = an.paths(sn, history=True)
    for (b, f, a, t) in calls(sna):
        if 'thread_rng' in callee_str(f):
            ok, w = all_paths(spf.at_entry(b), lambda S: any(f2[0] == 'variant' and f2[2] == 'None' and f2[1] in (('param', 6), ('load', ('local', 6))) or
                                                            (f2[0] == 'variant' and f2[2] == 'None' and contains(f2[1], lambda y: y == ('param', 6))) for f2 in S))
            rep.ob('C19.R1', sn, 'thread_rng-only-without-seed', ok, '')
        if callee_str(f).endswith('seed_from_u64'):
            okx = 'Xoshiro256StarStar' in callee_str(f) or 'Xoshiro256StarStar' in str(f.get('rargs', '')) + str(f.get('args', ''))
            oks = contains(a[0], lambda y: y == ('param', 6))
            rep.ob('C19.R1', sn, 'seeded-generator-from-seed', okx and oks, 'seed_from_u64(%s)' % show(a[0]))
    # seeds passed by sim_advanced
    snew = [(b, f, a, t) for (b, f, a, t) in calls(saa) if callee_key(f) == sn.key]
    rep.count_exact('C19.R1', 'SimState::new call sites in sim_advanced', len(snew), 2)
    seeds = []
    for (b, f, a, t) in snew:
        seeds.append(a[5])
    direct = [s for s in seeds if is_field(s, 'insecure_rng_seed', 'SimulatorArgs')]
    mapped = [s for s in seeds if is_call(s, 'Option::<T>::map') and is_field(s[2][0], 'insecure_rng_seed', 'SimulatorArgs')]
    rep.ob('C19.R1', sa, 'client-seed-is-the-seed', len(direct) == 1, '%s' % [show(s)[:60] for s in seeds])
    okm = len(mapped) == 1
    if okm:
        clo = mapped[0][2][1]
        okm = clo[0] == 'closure' and clo[1] in prog.fns
        if okm:
            ca = an.get(prog.fns[clo[1]])
            rv = [v for (b, k, v) in ret_defs(ca)]
            okm = len(rv) == 1 and is_call(rv[0], 'wrapping_add') and rv[0][2][0] == ('param', 2) and is_const(rv[0][2][1], 1)
    rep.ob('C19.R1', sa, 'server-seed-is-seed-wrapping-plus-one', okm, 'server seed = %s' % ([show(s)[:80] for s in seeds if s not in direct]))
    # ---- R2
    filt = ('only_client_events', 'only_network_activity')
    for fn in prog.crate_fns(SIM):
        if not fn.has_body or fn.derived:
            continue
        fa2 = an.get(fn)
        for b in fa2.cfg.reach:
            bb = fa2.blocks[b]
            for k, s in enumerate(bb['s']):
                if 'p' in s and s['rv']['k'] != 'setdiscr':
                    e = fa2.rvalue(s['rv'], (b, k))
                    for fl in filt:
                        if contains(e, lambda y: isinstance(y, tuple) and y and y[0] == 'fld' and y[3] == fl and y[2].endswith('SimulatorArgs')):
                            if s['rv']['k'] == 'agg':
                                rep.ob('C19.R2', fn, 'filter-initialised:' + fl, fn.name == 'new' and (fn.impl_adt or '').endswith('SimulatorArgs'), 'constructed in %s' % fn.short())
                            else:
                                rep.ob('C19.R2', fn, 'filter-read-in:' + fl, fn is sa, '%s read in %s' % (fl, fn.short()))
    pd = post_dominators(saa.cfg)
    dom = saa.cfg.dom()
    n_sw = 0
    for (b, e) in switch_conditions(saa):
        which = [fl for fl in filt if contains(e, lambda y: isinstance(y, tuple) and y and y[0] == 'fld' and y[3] == fl)]
        if not which:
            continue
        n_sw += 1
        # immediate post dominator: the post-dominator (other than b) that is post-dominated by all others... choose the nearest
        cands = pd[b] - {b}
        ipd = None
        for c in cands:
            if all(c2 == c or c2 in pd[c] for c2 in cands):
                ipd = c
        if ipd is None:
            rep.ob('C19.R2', sa, 'filter-branch-reconverges:' + which[0], False, 'no post-dominator')
            continue
        region = set()
        st = [y for (y, l) in saa.cfg.succ[b]]
        while st:
            x = st.pop()
            if x == ipd or x in region:
                continue
            region.add(x)
            st.extend(y for (y, l) in saa.cfg.succ[x])
        bad = []
        for x in region:
            t = saa.blocks[x]['t']
            if t['k'] == 'call' and 'indirect' not in t['f']:
                cs = callee_str(t['f'])
                crate = t['f'].get('crate')
                if crate in (SIM, 'maybenot') and not (cs.endswith('Clone>::clone') or cs.endswith('::clone')):
                    bad.append(cs)
                if cs.endswith('Vec::<T, A>::push') or cs.endswith('::fmt') or 'fmt::' in cs or 'format' in cs or cs.endswith('clone') or 'ops::arith' in cs or crate in ('core', 'alloc', 'std', 'log'):
                    continue
            if t['k'] == 'return':
                bad.append('return')
            for k, s in enumerate(saa.blocks[x]['s']):
                if 'p' in s and any(pr in ('*', '*raw') for pr in s['p']['pr']):
                    pe = saa.place_expr(s['p'], (x, k))
                    if root_of(pe)[0] == 'param':
                        bad.append('store ' + show(pe))
        # leaving the loop from inside the region
        loops = saa.cfg.loops()
        rep.ob('C19.R2', sa, 'filter-controls-only-trace-push:' + '+'.join(which), not bad, 'region of %d blocks up to the join; foreign effects: %s' % (len(region), bad[:4]))
        # the join is inside the same loop iteration (the filter cannot skip the stop checks)
    rep.count_floor('C19.R2', 'branches on the filter flags', n_sw, 2)
    # ---- R3 divisors
    n_div = 0
    for fn in prog.crate_fns(SIM):
        if not fn.has_body or fn.derived:
            continue
        fa2 = an.get(fn)
        for b in sorted(fa2.cfg.reach):
            bb = fa2.blocks[b]
            t = bb['t']
            at = (b, len(bb['s']))
            div = None
            if t['k'] == 'call' and 'indirect' not in t['f'] and (callee_decl(t['f']).endswith('ops::arith::Div::div') or callee_decl(t['f']).endswith('ops::arith::Rem::rem') or callee_decl(t['f']).endswith('DivAssign::div_assign')):
                div = fa2.operand(t['a'][1], at)
            elif t['k'] == 'assert' and t['mk'] == 'DivisionByZero':
                c = fa2.operand(t['c'], at)
                div = c
            if div is None:
                continue
            n_div += 1
            narrowing = [x for x in walk(div) if isinstance(x, tuple) and x and x[0] == 'cast' and x[1] == 'IntToInt' and int_width(x[2]) < int_width(cast_from(x))]
            rep.ob('C19.R3', fn, 'divisor:%s' % shape(div)[:50], not narrowing, 'divisor %s%s' % (shape(div), ' contains a narrowing cast' if narrowing else ''), site='%s:%d' % (fn.file, bb['ln']))
    rep.count_floor('C19.R3', 'divisions in the simulator', n_div, 1)
    # the divisor of NetworkBottleneck::new falls back to the packets-per-second estimate of the parser: it is at least 1 for a
    # non-empty trace because every queued packet is counted in a window before the next line is read
    pt = sim_fn(prog, 'parse_trace_advanced')
    pta = an.get(pt)
    ploops = pta.cfg.loops()
    adds = {b for (b, f, a, t) in calls(pta) if callee_str(f).endswith('WindowCount::add')}
    n_push = 0
    for (b, kind, a) in push_calls(pta):
        if kind != 'push':
            continue
        hs = sorted((len(body), h) for h, body in ploops.items() if b in body)
        if not hs:
            continue
        n_push += 1
        lo, hi = count_between(pta, b, hs[-1][1], adds)
        rep.ob('C19.R3', pt, 'queued-packet-counted-for-the-pps-estimate', lo >= 1,
               'WindowCount::add calls between the push and the next line: at least %s (max_pps = 0 makes NetworkBottleneck::new divide by zero)' % lo)
    rep.count_floor('C19.R3', 'queued packets in parse_trace_advanced', n_push, 1)
    mp = [v for (pe, v, site) in field_stores(pta, 'max_pps', 'SimQueue')]
    rep.ob('C19.R3', pt, 'max_pps-from-the-window-maxima', len(mp) == 1 and mp[0][0] == 'agg' and mp[0][2] == 'Some' and
           contains(mp[0], lambda y: is_call(y, 'WindowCount::add') or (isinstance(y, tuple) and y and y[0] in ('phi', 'rec', 'call', 'bin'))), 'max_pps = %s' % (shape(mp[0]) if mp else None))
    check_filter_semantics(ctx, rep, 'C19.R2')
    # ---- R4
    loops = saa.cfg.loops()
    main = [h for h, body in loops.items() if any(callee_str(f).endswith('pick_next') for (b, f, a, t) in calls(saa) if b in body)]
    rep.count_exact('C19.R4', 'main loops in sim_advanced', len(main), 1)
    for h in main:
        body = loops[h]
        inc = set()
        # the iteration counter: the plain local compared with max_sim_iterations
        counters = set()
        for (b, e) in switch_conditions(saa):
            if b in body and e[0] == 'bin' and contains(e, lambda y: isinstance(y, tuple) and y and y[0] == 'fld' and y[3] == 'max_sim_iterations'):
                for side in (e[2], e[3]):
                    if not contains(side, lambda y: isinstance(y, tuple) and y and y[0] == 'fld'):
                        t = saa.blocks[b]['t']
                        # find the local behind this operand
                        for st_ in saa.blocks[b]['s']:
                            if 'p' in st_ and st_['rv']['k'] == 'bin':
                                for o in (st_['rv']['l'], st_['rv']['r']):
                                    pl = o.get('c') or o.get('m')
                                    if pl is not None and not pl['pr']:
                                        sd = saa.single_def(pl['l'])
                                        if sd is not None and sd[1] < len(saa.blocks[sd[0]]['s']):
                                            rv2 = saa.blocks[sd[0]]['s'][sd[1]]['rv']
                                            if rv2['k'] == 'use' and ('c' in rv2['x'] or 'm' in rv2['x']) and not (rv2['x'].get('c') or rv2['x'].get('m'))['pr']:
                                                counters.add((rv2['x'].get('c') or rv2['x'].get('m'))['l'])
        for l in counters:
            for (bb_, kk_, part) in saa.defs().get(l, []):
                if bb_ in body:
                    v = saa.def_value(l, bb_, kk_)
                    if v[0] == 'bin' and v[1] == 'Add' and is_const(v[3], 1):
                        inc.add(bb_)
        lo, hi = min_max_on_paths(saa, h, inc, body, stop_at_header=True)
        rep.ob('C19.R4', sa, 'every-iteration-counts', bool(inc) and lo >= 1, 'iteration counter increments on paths around the main loop: min %s' % lo)
        for fl in ('max_sim_iterations', 'max_trace_length'):
            chk = {b for (b, e) in switch_conditions(saa) if b in body and e[0] == 'bin' and e[1] in ('Ge', 'Gt', 'Le', 'Lt', 'Eq') and
                   contains(e, lambda y: isinstance(y, tuple) and y and y[0] == 'fld' and y[3] == fl) and num(e[2]) is None and num(e[3]) is None}
            # paths that continue looping must have evaluated the limit (or its `> 0` gate was false)
            gate = {b for (b, e) in switch_conditions(saa) if b in body and contains(e, lambda y: isinstance(y, tuple) and y and y[0] == 'fld' and y[3] == fl)}
            lo, hi = min_max_on_paths(saa, h, gate, body, stop_at_header=True)
            rep.ob('C19.R4', sa, 'every-iteration-checks:' + fl, bool(chk) and lo >= 1, 'tests of %s on paths around the main loop: min %s' % (fl, lo))
    pn = sim_fn(prog, 'pick_next')
    pa = an.get(pn)
    rep.analysed(pn)
    consuming = ('pop_aggregate_delay', 'do_internal_timer', 'do_scheduled_action')
    rc = lambda f: any(callee_str(f).endswith(c) for c in consuming)
    rs = lambda pe, val: is_field(pe, 'blocking_until', 'SimState')
    ppf = an.paths(pn, history=True, record_calls=rc, record_stores=rs, tag='consume')
    n_self = 0
    for (b, f, a, t) in calls(pa):
        if callee_key(f) == pn.key:
            n_self += 1
            ok, w = all_paths(ppf.at_entry(b), lambda S: any(f2[0] == 'called' for f2 in S) or any(f2[0] == 'stored' and f2[3][0] == 'agg' and f2[3][2] == 'None' for f2 in S))
            rep.ob('C19.R4', pn, 'self-call-after-consuming-step', ok and bool(ppf.at_entry(b)), '' if ok else show_facts(w))
    rep.count_floor('C19.R4', 'self-calls of pick_next', n_self, 3)
    rep.rule('C19.R5', 'argument plumbing: the client state is built from the client machines/fractions/integration and the server state from the '
             'server ones; SimState::new forwards machines, fractions and start time to Framework::new in order; each event is handed to the '
             'framework of its own side')
    check_sim_args_passthrough(ctx, rep, 'C19.R5')
    rep.assumptions += ['the five BUG: assertions and monotone time are NOT decided (they depend on queue contents)',
                        'exact sub-sequence equality under max_trace_length is NOT decided', 'integration delays are excluded by the property',
                        'Network pps = Some(0) is not a valid argument']
    rep.rule('C19.R6', 'totality of the queue hand-over: SimQueue::pop_blocking removes the event peek_blocking handed out (the `.unwrap()` on its '
             'result in sim_network_stack relies on it)')
    check_pop_blocking(ctx, rep, 'C19.R6')
    check_before_helper(ctx, rep, 'C19.R6')
    check_misc_simulator_tables(ctx, rep, 'C19')
    check_side_plumbing(ctx, rep, 'C19.R5')
    check_pick_next_none(ctx, rep, 'C19.R4')
    # simulated time never moves backwards: the only adjustment pick_next makes to an event's time moves it FORWARD to
    # current_time + <its queue duration> (a packet held by blocking leaves when the blocking ends)
    pn2 = sim_fn(prog, 'pick_next')
    pa2 = an.get(pn2)
    for (pe, v, site) in field_stores(pa2, 'time', 'SimEvent'):
        v2 = strip_sites(v)
        okv = isinstance(v2, tuple) and v2 and v2[0] == 'call' and v2[1].endswith('::add') and len(v2[2]) == 2 and v2[2][0] == ('param', 5) and \
            not contains(v2, lambda y: isinstance(y, tuple) and y and y[0] == 'call' and y[1].endswith('::sub'))
        rep.ob('C19.R4', pn2, 'event-time-only-moved-forward', okv, 'time = %s' % shape(v)[:80])
    rep.count_floor('C19.R4', 'adjustments of a popped event\'s time in pick_next (a blocked event leaves when the blocking ends)', len(field_stores(pa2, 'time', 'SimEvent')), 1)
    check_stop_conditions(ctx, rep, 'C19.R4')
    rep.rule('C19.R7', 'a copy of the simulator\'s inputs and state is a faithful copy: every Clone impl of the simulator crate (SimQueue and its '
             'event queues, SimEvent, ScheduledAction, the network model, SimulatorArgs ...) is the compiler-derived field-wise clone, so that '
             'running a parsed queue and running its clone are the same simulation')
    nclone = 0
    for i in prog.impls:
        if i['crate'] == SIM and i['trait'].endswith('clone::Clone'):
            nclone += 1
            rep.ob('C19.R7', i['self_ty'].split('<')[0].split('::')[-1], 'derived-clone', bool(i['derived']), 'Clone for %s is %s' % (i['self_ty'], 'derived' if i['derived'] else 'hand-written'))
    rep.count_floor('C19.R7', 'Clone impls in the simulator crate', nclone, 8)
    return 'ambient-effect closure of the simulator, seed derivation, purity of the output filters, divisor casts, stop structure of the main loop and of pick_next'


def int_width(ty):
    t = ty.strip()
    for w in ('128', '64', '32', '16', '8'):
        if t.endswith(w):
            return int(w)
    if t.endswith('size'):
        return 64
    return 64


def cast_from(x):
    """source type of a cast node"""
    return x[4] if len(x) > 4 and x[4] else 'usize'


# =================================================================== queue tag agreement (C15.R4) and bypass classification (C16.R5)

def heap_of(e):
    """name of the EventQueue heap an expression reads (peek/pop of self.<heap>)"""
    for x in walk(e):
        if isinstance(x, tuple) and x and x[0] == 'fld' and x[2].endswith('EventQueue'):
            return x[3]
    return None


def check_queue_tags(ctx, rep, rid):
    prog, an = ctx.prog, ctx.an
    qvars = prog.variants('maybenot_simulator::queue_event::Queue')
    low = {v: v.lower() for v in qvars}
    heaps = [f['name'] for f in prog.adt('maybenot_simulator::queue_event::EventQueue')['variants'][0]['fields'] if 'BinaryHeap' in f['ty']]
    rep.ob(rid, 'Queue', 'one-tag-per-heap', sorted(low.values()) == sorted(heaps), 'Queue variants %s vs heaps %s' % (sorted(qvars), sorted(heaps)))
    # EventQueue::pop: arm Queue::X pops heap x
    pop = prog.fn(SIM, 'EventQueue', 'pop')
    pa = an.get(pop)
    pf = an.paths(pop, history=True)
    seen = set()
    for (b, f, a, t) in calls(pa):
        if callee_str(f).endswith('BinaryHeap::<T, A>::pop') or callee_str(f).endswith('BinaryHeap::<T>::pop'):
            h = heap_of(a[0])
            for S in pf.at_entry(b):
                var = [f2[2] for f2 in S if f2[0] == 'variant' and f2[2] in qvars]
                nots = [x for f2 in S if f2[0] == 'notvariant' for x in f2[2]]
                names = var[:1] if var else [v for v in qvars if v not in nots]
                for n in names:
                    seen.add(n)
                    rep.ob(rid, pop, 'pop:%s' % n, low[n] == h, 'Queue::%s pops heap %s' % (n, h))
    for v in qvars:
        rep.ob(rid, pop, 'pop-covers:' + v, v in seen, '')
    # tag/value pairs returned by the peek helpers: (value from heap x, Queue::X)
    for (adt, name) in (('EventQueue', 'peek_non_blocking'), (None, 'peek_blocking'), (None, 'peek_non_blocking'), ('EventQueue', 'peek_blocking'), ('EventQueue', 'peek_bypassable')):
        fn = prog.fn_opt(SIM, adt, name)
        if fn is None:
            rep.fail_closed(rid, '%s::%s' % (adt or 'queue', name))
            continue
        fa = an.get(fn)
        rep.analysed(fn)
        for (b, k, v) in ret_defs(fa):
            if v[0] == 'tuple' and len(v[2]) == 2 and v[2][1][0] == 'agg' and v[2][1][1].endswith('Queue'):
                val, tag = v[2][0], v[2][1][2]
                h = heap_of(val)
                if h is None:
                    # value obtained through an accessor: peek_blocking()/peek_bypassable()
                    for x in walk(val):
                        if is_call(x, 'EventQueue::peek_blocking'):
                            h = 'blocking'
                        elif is_call(x, 'EventQueue::peek_bypassable'):
                            h = 'bypassable'
                rep.ob(rid, fn, 'tag-matches-heap:%s' % tag, h == low.get(tag), '(%s, Queue::%s)' % (shape(val)[:40], tag))
            elif adt == 'EventQueue' and name in ('peek_blocking', 'peek_bypassable'):
                want = 'blocking' if name == 'peek_blocking' else 'bypassable'
                rep.ob(rid, fn, 'accessor-reads-own-heap', heap_of(v) == want, 'returns %s' % shape(v))
    # EventQueue::peek: whenever the tag local is set to Queue::X the candidate is the head of heap x
    pk = prog.fn(SIM, 'EventQueue', 'peek')
    ka = an.get(pk)
    n = 0
    for b in sorted(ka.cfg.reach):
        tags = []
        vals = []
        for k, s in enumerate(ka.blocks[b]['s']):
            if 'p' not in s or s['rv']['k'] == 'setdiscr':
                continue
            v = ka.rvalue(s['rv'], (b, k))
            if v[0] == 'agg' and v[1].endswith('queue_event::Queue') and not s['p']['pr']:
                tags.append(v[2])
            if not s['p']['pr'] and ka.fn.local_ty(s['p']['l']).startswith('core::option::Option<&') and 'SimEvent' in ka.fn.local_ty(s['p']['l']):
                h = heap_of(v)
                if h:
                    vals.append(h)
        # ... and conversely: a candidate taken from heap x is tagged Queue::X in the same step (a stale tag makes pop() take
        # the head of another heap)
        up = {v2: k2 for k2, v2 in low.items()}
        # the running best candidate: the Option<&SimEvent> local that is assigned more than once
        cnt = {}
        for b3 in ka.cfg.reach:
            for s3 in ka.blocks[b3]['s']:
                if 'p' in s3 and not s3['p']['pr'] and s3['rv']['k'] != 'setdiscr' and ka.fn.local_ty(s3['p']['l']).startswith('core::option::Option<&') and 'SimEvent' in ka.fn.local_ty(s3['p']['l']):
                    cnt[s3['p']['l']] = cnt.get(s3['p']['l'], 0) + 1
        chosen = {l for l, c in cnt.items() if c >= 2}
        for k, s2 in enumerate(ka.blocks[b]['s']):
            if 'p' in s2 and not s2['p']['pr'] and s2['p']['l'] in chosen and s2['rv']['k'] != 'setdiscr':
                hv = heap_of(ka.rvalue(s2['rv'], (b, k)))
                if hv in up:
                    rep.ob(rid, pk, 'candidate-is-tagged:%s' % hv, up[hv] in tags, 'the chosen candidate is taken from heap %s, tags set in the same block: %s' % (hv, tags))
        for tg in tags:
            if tg == 'Blocking' and not vals and any(is_const(ka.rvalue(s['rv'], (b, 0)), 0) for s in ka.blocks[b]['s'] if 'p' in s and s['rv']['k'] == 'use'):
                continue
            if tg == 'Blocking' and not vals and any('p' in s3 and s3['rv']['k'] == 'agg' and s3['rv'].get('variant') == 'None' for s3 in ka.blocks[b]['s']):
                continue   # the empty-queue result (None, Queue::Blocking, ..)
            n += 1
            ok = low.get(tg) in vals
            rep.ob(rid, pk, 'peek-tag:%s' % tg, ok, 'Queue::%s set where the candidate comes from heap(s) %s' % (tg, vals))
    rep.count_floor(rid, 'tag assignments in EventQueue::peek', n, 3)
    # side routing of the SimQueue wrappers
    for name in ('pop', 'peek_blocking', 'peek_non_blocking', 'pop_blocking'):
        fn = prog.fn(SIM, 'SimQueue', name)
        fa = an.get(fn)
        pfs = an.paths(fn, history=True)
        isc = [i + 1 for i, v in enumerate(fn.dbg) if False]
        pi = None
        for v in fn.dbg:
            if v['name'] == 'is_client' and not v['p']['pr'] and 'inl' not in v and 1 <= v['p']['l'] <= fn.argc:
                pi = v['p']['l']
        for b in sorted(fa.cfg.reach):
            t = fa.blocks[b]['t']
            if t['k'] != 'call':
                continue
            args = tuple(fa.operand(x, (b, len(fa.blocks[b]['s']))) for x in t['a'])
            sides = {x[3] for a in args for x in walk(a) if isinstance(x, tuple) and x and x[0] == 'fld' and x[2].endswith('SimQueue') and x[3] in ('client', 'server')}
            if len(sides) != 1 or pi is None:
                continue
            want = 'client' in sides
            ok, w = all_paths(pfs.at_entry(b), lambda S: any((f2[0] == 'btrue' and f2[2] is want and f2[1] == ('param', pi)) or
                                                            (f2[0] == 'eqc' and f2[1] == ('param', pi) and (f2[2] != '0') is want) or
                                                            (f2[0] == 'nec' and f2[1] == ('param', pi) and ('0' in f2[2]) is want) for f2 in S))
            rep.ob(rid, fn, 'routes-to-own-side:%s' % ('client' if want else 'server'), ok, '')


def check_pop_blocking(ctx, rep, rid):
    """SimQueue::pop_blocking removes the event peek_blocking handed out: with bypassable blocking active only the blocking heap
    holds blocked events; otherwise the heap named by the tag that came with the peeked event"""
    prog, an = ctx.prog, ctx.an
    fn = prog.fn(SIM, 'SimQueue', 'pop_blocking')
    fa = an.get(fn)
    pf = an.paths(fn, history=True)
    pq = pb = None
    for v in fn.dbg:
        if not v['p']['pr'] and 1 <= v['p']['l'] <= fn.argc:
            if fn.inputs[v['p']['l'] - 1].endswith('queue_event::Queue'):
                pq = v['p']['l']
    bools = [i + 1 for i, t_ in enumerate(fn.inputs) if t_ == 'bool']
    # (q: Queue, bypassable: bool, is_client: bool): the first bool parameter is the bypassable flag
    if pq is None or len(bools) < 2:
        rep.fail_closed(rid, 'SimQueue::pop_blocking(q, bypassable, is_client, ..) signature')
        return
    pb = bools[0]
    n = 0
    for b in sorted(fa.cfg.reach):
        t = fa.blocks[b]['t']
        if t['k'] != 'call' or 'indirect' in t['f']:
            continue
        cs = callee_str(t['f'])
        args = tuple(fa.operand(x, (b, len(fa.blocks[b]['s']))) for x in t['a'])
        if cs.endswith('BinaryHeap::<T, A>::pop') or cs.endswith('BinaryHeap::<T>::pop'):
            n += 1
            h = heap_of(args[0])
            ok, w = all_paths(pf.at_entry(b), lambda S: any(f[0] == 'btrue' and f[1] == ('param', pb) and f[2] is True for f in S))
            rep.ob(rid, fn, 'direct-pop-only-under-bypassable-blocking', ok and h == 'blocking', 'pops heap %s' % h)
        elif cs.endswith('SimQueue::pop') or cs.endswith('EventQueue::pop'):
            n += 1
            qop = t['a'][1]
            ql = (qop.get('m') or qop.get('c') or {}).get('l')
            for S in pf.at_call(b):
                flag = [f[2] for f in S if f[0] == 'btrue' and f[1] == ('param', pb)]
                tracked = pf.tracked_const(S, ql) if ql is not None else None
                # resolve one copy: `_x = move _q`
                val = args[1]
                if flag and flag[0] is False:
                    ok = tracked is None and (val == ('param', pq) or (val[0] == 'phi' and ('param', pq) in val[1]))
                    rep.ob(rid, fn, 'tag-passed-through-when-blocking-is-not-bypassable', ok, 'pop(%s) on the non-bypassable path%s' % (shape(val)[:40], ' (constant %s)' % tracked if tracked else ''))
                elif flag and flag[0] is True:
                    ok = (tracked or '').endswith('::Blocking') or val == ('param', pq) or (val[0] == 'phi' and ('param', pq) in val[1])
                    rep.ob(rid, fn, 'blocking-heap-under-bypassable-blocking', ok, 'pop(%s)' % shape(val)[:40])
    rep.count_floor(rid, 'pop sites in SimQueue::pop_blocking', n, 1)


PENDING_KIND = {
    # heap of EventQueue -> the event kind that stands for a normal packet still in flight there
    # (EventQueue::push routes TunnelSent to blocking/bypassable, NormalSent to base, everything else to internal;
    #  a packet on its way to the receiver is the TunnelRecv in the internal heap)
    'blocking': 'TunnelSent', 'bypassable': 'TunnelSent', 'internal': 'TunnelRecv',
}


def check_no_normal_packets_table(ctx, rep, rid):
    """EventQueue::no_normal_packets (the stop condition of the simulation): every scan of a heap looks for the event kind
    that a pending normal packet has in THAT heap.  Judged on normal form N2, where `.iter().all(|e| ..)`, `.any(..)`, an
    extracted helper and a hand-written loop are the same loop."""
    prog2, an2 = ctx.n2()
    fn = prog2.fn(SIM, 'EventQueue', 'no_normal_packets')
    fa = an2.get(fn)
    loops = fa.cfg.loops()
    seen = {}
    for h, body in loops.items():
        heaps = set()
        kinds = set()
        for (b, f, a, t) in calls(fa):
            if b not in body:
                continue
            cs = callee_str(f)
            if callee_decl(f).endswith('Iterator::next') or cs.endswith('Iterator>::next'):
                it = a[0]
                if it[0] == 'ref' and it[1][0] == 'local':
                    for (bb, kk, part) in fa.defs().get(it[1][1], []):
                        for x in walk(fa.def_value(it[1][1], bb, kk)):
                            if isinstance(x, tuple) and x and x[0] == 'fld' and x[2].endswith('EventQueue') and x[3] in PENDING_KIND and root_of(x) == ('param', 1):
                                heaps.add(x[3])
                # by-value iterator held in a local that the receiver reborrows
                for x in walk(it):
                    if isinstance(x, tuple) and x and x[0] == 'fld' and x[2].endswith('EventQueue') and x[3] in PENDING_KIND:
                        heaps.add(x[3])
            if decl_matches(f, ('PartialEq::eq', 'PartialEq::ne')) and len(a) == 2:
                ev = [x for x in a if contains(x, lambda y: isinstance(y, tuple) and y and y[0] == 'fld' and y[3] == 'event' and y[2].endswith('SimEvent'))]
                if ev:
                    for x in a:
                        xs = [x]
                        if x[0] in ('ref', 'refv') and isinstance(x[1], tuple) and x[1] and x[1][0] == 'local':
                            xs.append(fa.local_value(x[1][1], (b, len(fa.blocks[b]['s']))))
                        for x2 in xs:
                            for y in walk(x2):
                                if isinstance(y, tuple) and y and y[0] == 'agg' and y[1].endswith('event::TriggerEvent'):
                                    kinds.add(y[2])
        if len(heaps) == 1:
            heap = heaps.pop()
            seen.setdefault(heap, set()).update(kinds)
            # an element lets the scan go on ("not a pending normal packet") only when its kind was found different from the kind a
            # pending normal packet has in this heap
            want = PENDING_KIND[heap]
            pfi = an2.paths(fn, history=True, entry=h)
            for (x, lab) in fa.cfg.pred[h]:
                if x not in body:
                    continue
                for S in pfi.on_edge(x, h, lab):
                    def is_ev(e):
                        return contains(e, lambda y: isinstance(y, tuple) and y and y[0] == 'fld' and y[3] == 'event' and y[2].endswith('SimEvent'))

                    def is_kind(e):
                        return contains(e, lambda y: isinstance(y, tuple) and y and y[0] == 'agg' and y[1].endswith('event::TriggerEvent') and y[2] == want)
                    ok = any(f[0] == 'cmp' and ((f[1] == 'ne' and f[5] is True) or (f[1] == 'eq' and f[5] is False)) and
                             ((is_ev(f[2]) and is_kind(f[3])) or (is_ev(f[3]) and is_kind(f[2]))) for f in S) or \
                        any(f[0] == 'notvariant' and is_ev(f[1]) and want in f[2] for f in S) or \
                        any(f[0] == 'variant' and is_ev(f[1]) and f[2] != want for f in S)
                    rep.ob(rid, fn, 'scan-continues-only-past-other-kinds:' + heap, ok,
                           'an element of %s is passed over only when it is not a %s' % (heap, want) + ('' if ok else '; witness ' + show_facts(S)))
    # "no normal packets" is answered with true only after the base queue was found empty and every scan ran to its end
    pfw = an2.paths(fn, history=True)
    n_true = 0
    for (b, k, v) in ret_defs(fa):
        if num(v) == 1:
            n_true += 1
            sts = pfw.at(b, k) if k is not None else pfw.at_entry(b)
            for S in sts:
                ended = len({f[1] for f in S if f[0] == 'variant' and f[2] == 'None' and (is_call(unload(f[1]), 'Iterator>::next') or is_call(unload(f[1]), 'Iterator::next'))})
                base_empty = any(f[0] == 'bcall' and f[1].endswith('is_empty') and f[3] is True and contains(f[2], lambda y: isinstance(y, tuple) and y and y[0] == 'fld' and y[3] == 'base') for f in S)
                ok = base_empty and ended >= len(PENDING_KIND)
                rep.ob(rid, fn, 'true-only-after-every-heap-was-scanned', ok, 'base found empty: %s, scans run to their end: %d of %d' % (base_empty, ended, len(PENDING_KIND)))
    rep.extra['no_normal_packets_constant_true_results'] = n_true   # a result computed as an expression (`!any(..)`) is judged by the per-heap rules only
    for heap, kind in PENDING_KIND.items():
        got = seen.get(heap)
        rep.ob(rid, fn, 'pending-kind:' + heap, got == {kind},
               'no_normal_packets scans %s for %s (a pending normal packet there is a %s)' % (heap, sorted(got) if got is not None else 'nothing', kind))


DIRECTION_LITERALS = {True: ('"s"', '"sn"'), False: ('"r"', '"rn"')}


def _dir_ok(S, lits):
    for f in S:
        if f[0] == 'cmp' and f[1] == 'eq' and f[5] is True:
            for x, y in ((f[2], f[3]), (f[3], f[2])):
                if isinstance(y, tuple) and y and y[0] == 'ktext' and y[2] in lits:
                    return True
                if isinstance(y, tuple) and y and y[0] == 'refv' and isinstance(y[1], tuple) and y[1] and y[1][0] == 'ktext' and y[1][2] in lits:
                    return True
    return False


def check_trace_parser_table(ctx, rep, rid):
    prog, an = ctx.prog, ctx.an
    fn = sim_fn(prog, 'parse_trace_advanced')
    fa = an.get(fn)
    loops = fa.cfg.loops()
    n = 0
    for (b, kind, a) in push_calls(fa):
        if kind != 'push':
            continue
        n += 1
        ev = a[1]
        rep.ob(rid, fn, 'queues-NormalSent-only', ev[0] == 'agg' and ev[2] == 'NormalSent', 'push(%s)' % shape(ev))
        hs = sorted((len(body), h) for h, body in loops.items() if b in body)
        if not hs:
            rep.ob(rid, fn, 'push-inside-the-line-loop', False, '')
            continue
        h = hs[-1][1]   # outermost loop: one iteration = one trace line
        pf = an.paths(fn, history=True, entry=h)
        c = num(a[2])
        if c is None:
            # one push for both sides (`let is_client = match dir { "s" | "sn" => true, .. }`): judged per path with the
            # constant this path assigned to the flag
            op = fa.blocks[b]['t']['a'][2]
            pl_ = op.get('m') or op.get('c')
            okp = pl_ is not None and not pl_['pr']
            sides_seen = set()
            for S in (pf.at_call(b) if okp else []):
                tc = pf.tracked_const(S, pl_['l'])
                if tc not in ('0', '1'):
                    okp = False
                    break
                sd = tc == '1'
                sides_seen.add(sd)
                okd = _dir_ok(S, DIRECTION_LITERALS[sd])
                rep.ob(rid, fn, 'direction-literal-guards-push:%s' % ('client' if sd else 'server'), okd,
                       '' if okd else 'witness: ' + show_facts(S)[:600])
            rep.ob(rid, fn, 'side-is-a-literal-per-direction', okp and sides_seen == {True, False}, 'client = %s' % shape(a[2]))
            continue
        side = bool(c)
        lits = DIRECTION_LITERALS[side]

        def dir_ok(S):
            return _dir_ok(S, lits)

        def _unused(S):
            for f in S:
                if f[0] == 'cmp' and f[1] == 'eq' and f[5] is True:
                    for x, y in ((f[2], f[3]), (f[3], f[2])):
                        if isinstance(y, tuple) and y and y[0] == 'ktext' and y[2] in lits:
                            return True
                        if isinstance(y, tuple) and y and y[0] == 'refv' and isinstance(y[1], tuple) and y[1] and y[1][0] == 'ktext' and y[1][2] in lits:
                            return True
            return False
        ok, w = all_paths(pf.at_entry(b), dir_ok)
        rep.ob(rid, fn, 'direction-literal-guards-push:%s' % ('client' if side else 'server'), ok,
               'NormalSent for the %s only under direction == %s' % ('client' if side else 'server', ' | '.join(lits)) + ('' if ok else '; witness: ' + show_facts(w)[:600]))
    rep.count_floor(rid, 'SimQueue::push sites in parse_trace_advanced', n, 1)


def check_replace_promotion(ctx, rep, rid):
    prog, an = ctx.prog, ctx.an
    ns = sim_fn(prog, 'sim_network_stack')
    fa = an.get(ns)
    pf = an.paths(ns, history=True)
    nxt = lambda e, fld: is_field(e, fld, 'SimEvent') and root_of(e) == ('param', 1)

    def own_flag(S):
        return any(f[0] == 'btrue' and f[2] is True and nxt(f[1], 'bypass') for f in S)
    n = 0
    # stores of `true` into the bypass field of an event held in a local (the popped entry)
    for (pe, v, site, mp) in stores(fa):
        lf = last_field(pe)
        if lf and lf[1] == 'bypass' and lf[0].endswith('SimEvent') and is_const(v, 1) and root_of(pe)[0] == 'local':
            n += 1
            ok, w = all_paths(pf.at(site[0], site[1]), own_flag)
            rep.ob(rid, ns, 'queued-packet-marked-bypassable-only-by-bypass-padding', ok, '' if ok else 'witness: ' + show_facts(w))
    for (b, f, a, t) in calls(fa):
        if callee_str(f).endswith('SimQueue::pop_blocking'):
            n += 1
            ok, w = all_paths(pf.at_entry(b), own_flag)
            rep.ob(rid, ns, 'queued-packet-popped-only-by-bypass-padding', ok, '' if ok else 'witness: ' + show_facts(w))
    rep.count_floor(rid, 'promotion sites (bypass = true stores, pop_blocking calls) in sim_network_stack', n, 2)
    # the promoted packet is a normal packet: it must not itself ask to replace what is queued (it would swallow another packet)
    for (pe, v, site, mp) in stores(fa):
        lf = last_field(pe)
        if lf and lf[1] == 'replace' and lf[0].endswith('SimEvent') and root_of(pe)[0] == 'local' and num(v) is not None:
            rep.ob(rid, ns, 'promoted-packet-does-not-replace', is_const(v, 0), 'entry.replace = %s' % shape(v))


def check_bypass_classification(ctx, rep, rid):
    """while the active blocking is NOT bypassable, bypassable packets count as blocked; only bypassable blocking lets them through"""
    prog, an = ctx.prog, ctx.an
    pb = prog.fn(SIM, None, 'peek_blocking')
    pnb = prog.fn(SIM, None, 'peek_non_blocking')
    for (fn, flag_when_bypassable_heap_used) in ((pb, False), (pnb, True)):
        fa = an.get(fn)
        pf = an.paths(fn, history=True)
        n = 0
        for (b, f, a, t) in calls(fa):
            if callee_str(f).endswith('EventQueue::peek_bypassable'):
                n += 1
                ok, w = all_paths(pf.at_entry(b), lambda S: any(f2[0] == 'btrue' and f2[1] == ('param', 2) and f2[2] is flag_when_bypassable_heap_used for f2 in S))
                rep.ob(rid, fn, 'bypassable-heap-considered-only-when-flag-is-%s' % flag_when_bypassable_heap_used, ok, '')
        rep.count_exact(rid, 'peek_bypassable sites in %s' % fn.name, n, 1)
        # and on the other flag value every return is computed without the bypassable heap
        for (b, k, v) in ret_defs(fa):
            for S in pf.at(b, k):
                other = any(f2[0] == 'btrue' and f2[1] == ('param', 2) and f2[2] is (not flag_when_bypassable_heap_used) for f2 in S)
                if other:
                    rep.ob(rid, fn, 'other-branch-ignores-bypassable-heap', not contains(v, lambda x: is_call(x, 'EventQueue::peek_bypassable')), 'returns %s' % shape(v)[:60])
    # callers hand in the side's own blocking_bypassable
    for caller_name, callee in (('peek_queue_earliest_side', 'SimQueue::peek_blocking'), ('peek_queue_earliest_side', 'SimQueue::peek_non_blocking')):
        c = prog.fn(SIM, None, caller_name)
        ca = an.get(c)
        pidx = None
        for v in c.dbg:
            if v['name'] == 'blocking_bypassable' and not v['p']['pr']:
                pidx = v['p']['l']
        for (b, f, a, t) in calls(ca):
            if callee_str(f).endswith(callee):
                rep.ob(rid, c, 'passes-side-flag-to:' + callee.split('::')[-1], pidx is not None and a[1] == ('param', pidx), '%s(%s)' % (callee, ', '.join(show(x)[:25] for x in a)))


def check_is_event_table(ctx, rep, rid):
    """TriggerEvent::is_event(e) compares with the same-named Event for every variant"""
    prog, an = ctx.prog, ctx.an
    fn = prog.fn('maybenot', 'TriggerEvent', 'is_event')
    fa = an.get(fn)
    pf = an.paths(fn, history=True)
    tvars = prog.variants('maybenot::event::TriggerEvent')
    seen = set()
    for (b, k, v) in ret_defs(fa):
        for S in pf.at(b, k):
            var = [f[2] for f in S if f[0] == 'variant' and f[2] in tvars]
            nots = [x for f in S if f[0] == 'notvariant' for x in f[2]]
            names = var[:1] if var else [x for x in tvars if x not in nots]
            for n in names:
                seen.add(n)
                ok = (is_call(v, 'PartialEq>::eq') or is_call(v, 'PartialEq::eq')) and any(isinstance(x, tuple) and x and x[0] == 'agg' and x[1].endswith('event::Event') and x[2] == n for x in walk(v)) and \
                    contains(v, lambda x: x in (('param', 2), ('local', 2)))
                rep.ob(rid, fn, 'is_event:' + n, ok, 'TriggerEvent::%s -> %s' % (n, shape(v)))
    for n in tvars:
        rep.ob(rid, fn, 'is_event-covers:' + n, n in seen, '')


def check_sim_args_passthrough(ctx, rep, rid):
    """sim_advanced builds the client/server states from the matching arguments; SimState::new forwards them to Framework::new in order"""
    prog, an = ctx.prog, ctx.an
    sa = sim_fn(prog, 'sim_advanced')
    saa = an.get(sa)
    sn = prog.fn(SIM, 'SimState', 'new')
    sna = an.get(sn)
    for (b, f, a, t) in calls(sna):
        if callee_str(f).endswith('Framework::<M, R, T>::new'):
            ok = a[0] == ('param', 1) and a[1] == ('param', 3) and a[2] == ('param', 4) and a[3] == ('param', 2)
            rep.ob(rid, sn, 'forwards-machines-fractions-time', ok, 'Framework::new(%s)' % ', '.join(show(x)[:20] for x in a[:4]))
    sides = []
    state_local = {}
    for (b, f, a, t) in calls(saa):
        if callee_key(f) == sn.key:
            m = a[0]
            side = 'client' if m == ('param', 1) else ('server' if m == ('param', 2) else '?')
            sides.append(side)
            dl = saa.blocks[b]['t']['d']
            if not dl['pr']:
                state_local[side] = ('local', dl['l'])
            okp = is_field(a[2], 'max_padding_frac_' + side, 'SimulatorArgs')
            okb = is_field(a[3], 'max_blocking_frac_' + side, 'SimulatorArgs')
            oki = contains(a[4], lambda x: isinstance(x, tuple) and x and x[0] == 'fld' and x[3] == side + '_integration')
            rep.ob(rid, sa, '%s-state-gets-%s-arguments' % (side, side), okp and okb and oki, 'SimState::new(%s, _, %s, %s, %s, ..)' % (show(m), show(a[2])[-28:], show(a[3])[-29:], show(a[4])[-30:]))
    rep.ob(rid, sa, 'both-sides-built', sorted(sides) == ['client', 'server'], '%s' % sides)
    # trigger_update is called with the state of the event's side: the call lies behind the matching edge of a branch on next.client
    for (b, f, a, t) in calls(saa):
        cs = callee_str(f)
        if cs.endswith('trigger_update'):
            flag = num(a[4])
            rep.ob(rid, sa, 'trigger_update-side-flag:%s' % flag, flag is not None, '')
            okp = False
            for (sb, e) in switch_conditions(saa):
                if is_field(e, 'client', 'SimEvent'):
                    for (y, lab) in saa.cfg.succ[sb]:
                        pol = (lab[1] != '0') if lab[0] == 'sw' else ('0' in lab[1])
                        if pol is bool(flag) and saa.cfg.dominates(y, b) and [p for (p, l) in saa.cfg.pred[y]] == [sb]:
                            okp = True
            rep.ob(rid, sa, 'trigger_update-for-events-own-side:%s' % ('client' if flag else 'server'), okp, '')
            # ... and with that side's state object
            want = state_local.get('client' if flag else 'server')
            got = a[0]
            while isinstance(got, tuple) and got and got[0] in ('ref', 'refv', 'load'):
                got = got[1]
            rep.ob(rid, sa, 'trigger_update-gets-own-side-state:%s' % ('client' if flag else 'server'), want is not None and strip_sites(got) == want,
                   'trigger_update(%s, .., %s)' % (show(a[0]), bool(flag)))
