"""Obligation bookkeeping, evidence and known-findings handling."""
import json
import os
import time

VERIF = os.path.dirname(os.path.dirname(os.path.abspath(__file__)))


class Report:
    def __init__(self, pid, tier, seed=0):
        self.pid = pid
        self.tier = tier
        self.seed = seed
        self.t0 = time.time()
        self.obligations = []   # dicts
        self._by_key = {}
        self.functions = set()
        self.rules = {}
        self.assumptions = []
        self.notes = []
        self.extra = {}

    def rule(self, rid, text):
        self.rules[rid] = text

    def analysed(self, fn):
        self.functions.add(fn.short() if hasattr(fn, 'short') else str(fn))

    def ob(self, rule, fn, construct, ok, detail='', site=None):
        """record one obligation.  `construct` is a line-number free key of the
        program element judged; `site` is file:line for the human reader."""
        fname = fn.short() if hasattr(fn, 'short') else str(fn)
        if hasattr(fn, 'short'):
            self.functions.add(fname)
        if site is None and hasattr(fn, 'span'):
            site = fn.span
        key = '%s|%s|%s|%s' % (self.pid, rule, fname, construct)
        prev = self._by_key.get(key)
        if prev is not None:
            # same program construct judged along another path: conjunction
            prev['paths'] += 1
            if prev['ok'] and not ok:
                prev['ok'] = False
                prev['detail'] = detail
            return bool(ok)
        o = {'rule': rule, 'fn': fname, 'construct': construct, 'ok': bool(ok),
             'detail': detail, 'site': site, 'key': key, 'paths': 1}
        self._by_key[key] = o
        self.obligations.append(o)
        return bool(ok)

    def fail_closed(self, rule, what):
        self.ob(rule, '<anchor>', 'anchor-missing:' + what, False, 'required anchor not found: ' + what)

    def count_floor(self, rule, what, n, floor):
        self.ob(rule, '<inventory>', 'count:' + what, n >= floor,
                '%s: counted %d, required at least %d' % (what, n, floor))

    def count_exact(self, rule, what, n, want):
        self.ob(rule, '<inventory>', 'count:' + what, n == want,
                '%s: counted %d, expected exactly %d' % (what, n, want))

    def absorb(self, sub):
        """take over the rules, obligations and notes of a sub-report"""
        self.rules.update(sub.rules)
        self.functions |= sub.functions
        self.assumptions += [a for a in sub.assumptions if a not in self.assumptions]
        for o in sub.obligations:
            key = o['key']
            prev = self._by_key.get(key)
            if prev is not None:
                prev['paths'] += o.get('paths', 1)
                if prev['ok'] and not o['ok']:
                    prev['ok'] = False
                    prev['detail'] = o['detail']
                continue
            self._by_key[key] = o
            self.obligations.append(o)

    def failing(self):
        return [o for o in self.obligations if not o['ok']]

    def new_violations(self):
        """failing obligations that are not listed known findings"""
        known = load_known()
        return [o for o in self.obligations if not o['ok'] and not (known.get(o['key']) or {}).get('status') == 'finding']

    # ---- finishing
    def finish(self, level='other', explanation='', extra_cov=None):
        known = load_known()
        viol = [o for o in self.obligations if not o['ok']]
        new = []
        kf_lines = []
        for o in viol:
            k = known.get(o['key'])
            if k and k.get('status') == 'finding':
                kf_lines.append('KNOWN-FINDING: property=%s %s (%s)' % (self.pid, k.get('what', o['key']), o['key']))
            else:
                new.append(o)
        evdir = os.environ.get('VERIF_EVIDENCE_DIR') or os.path.join(VERIF, 'evidence')
        os.makedirs(os.path.join(evdir, 'violations'), exist_ok=True)
        out_lines = list(dict.fromkeys(kf_lines))
        seen = set()
        for o in new:
            if o['key'] in seen:
                continue
            seen.add(o['key'])
            safe = ''.join(c if c.isalnum() or c in '-_.' else '_' for c in o['key'])[:180]
            path = os.path.join(evdir, 'violations', safe + '.json')
            with open(path, 'w') as f:
                json.dump({'property': self.pid, 'tier': self.tier, **o,
                           'rule_text': self.rules.get(o['rule'], '')}, f, indent=1)
            out_lines.append('VIOLATION property=%s replay=%s' % (self.pid, path))
            out_lines.append('  rule %s at %s [%s]: %s -- %s' % (o['rule'], o['fn'], o['site'], o['construct'], o['detail']))
        dump = os.environ.get('VERIF_DUMP_OBS')
        if dump:
            # one line per obligation (rule, construct, ok): used by tools/rulecover.py to see which obligations a corpus exercises
            with open(dump, 'a') as f:
                for o in self.obligations:
                    f.write(json.dumps([self.pid, o['rule'], o['construct'], o['ok']]) + '\n')
        n = len(self.obligations)
        discharged = sum(1 for o in self.obligations if o['ok'])
        samples = []
        per_rule = {}
        for o in self.obligations:
            per_rule.setdefault(o['rule'], []).append(o)
        for r, os_ in sorted(per_rule.items()):
            for o in os_[:3]:
                samples.append({'rule': r, 'fn': o['fn'], 'construct': o['construct'], 'site': o['site'],
                                'ok': o['ok'], 'detail': o['detail'][:300]})
        distinct = len({(o['rule'], o['fn'], o['construct']) for o in self.obligations})
        cov = {
            'explanation': explanation,
            'obligations': n,
            'path_judgements': sum(o.get('paths', 1) for o in self.obligations),
            'discharged': discharged,
            'evaluations': n,
            'distinct_nontrivial': distinct,
            'rule': 'one evaluation per generated obligation (rule instance x program construct); distinct = distinct (rule, function, construct) keys; every obligation is a non-trivial judgement over MIR paths/values, inventories are counted separately',
            'rules': self.rules,
            'obligations_per_rule': {r: len(v) for r, v in sorted(per_rule.items())},
            'functions_analysed': sorted(self.functions),
            'samples': samples,
            'known_findings_matched': [l for l in out_lines if l.startswith('KNOWN-FINDING')],
            'checker_cmd': './check %s --tier %s' % (self.pid, self.tier),
            'trusted_base': ['rustc nightly MIR construction and Instance::try_resolve', '/verif/driver fact extractor',
                             '/verif/sa engines'],
            'exhaustive': True,
        }
        cov.update(self.extra)
        if extra_cov:
            cov.update(extra_cov)
        ev = {
            'property_id': self.pid, 'tier': self.tier, 'seed': int(self.seed), 'level': level,
            'coverage': cov, 'assumptions': self.assumptions,
            'wall_s': round(time.time() - self.t0, 3),
            'violations': len(seen),
        }
        with open(os.path.join(evdir, self.pid + '.json'), 'w') as f:
            json.dump(ev, f, indent=1)
        for l in out_lines:
            print(l)
        print('%s tier=%s obligations=%d discharged=%d new_violations=%d known=%d wall=%.1fs' % (
            self.pid, self.tier, n, discharged, len(seen), len(set(kf_lines)), time.time() - self.t0))
        return 1 if seen else 0


def load_known():
    p = os.path.join(VERIF, 'known_findings.json')
    if not os.path.exists(p):
        return {}
    j = json.load(open(p))
    d = {}
    for e in j.get('findings', []):
        for k in e.get('keys', []):
            d[k] = {'status': 'finding', 'what': e.get('what', '')}
    return d
