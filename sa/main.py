"""entry point: python3 -m sa.main <PID> --facts <dir> [--tier quick|thorough]"""
import argparse
import os
import sys
import traceback

from .core import Program, AnchorMissing
from .paths import Analyses
from .report import Report


class Ctx:
    def __init__(self, prog, tier, facts_dir, extra=None):
        self.prog = prog
        self.an = Analyses(prog)
        self.tier = tier
        self.facts_dir = facts_dir
        self.extra = extra or {}
        self._n2 = None

    def composite(self, force):
        """(program, analyses) in which the named functions of the pinned tree are inlined into their callers as well: the
        unit of analysis becomes the caller with the whole decision in one body"""
        key = tuple(sorted(force))
        if not hasattr(self, '_comp'):
            self._comp = {}
        if key not in self._comp:
            p = Program(self.facts_dir, level=self.prog.level, force=key)
            self._comp[key] = (p, Analyses(p))
        return self._comp[key]

    def n2_ctx(self):
        """a context over the N2 form of the same facts (None when this context already is N2)"""
        if self.prog.level >= 2:
            return None
        if getattr(self, '_n2ctx', None) is None:
            p2, a2 = self.n2()
            c = Ctx(p2, self.tier, self.facts_dir, self.extra)
            c.an = a2
            self._n2ctx = c
        return self._n2ctx

    def n2(self):
        """(program, analyses) in normal form N2 (combinators and iterator adaptors with closures expanded): for rules about
        closure-heavy functions, which read the same whether the code is written with adaptors or with loops"""
        if self.prog.level >= 2:
            return self.prog, self.an
        if self._n2 is None:
            p2 = Program(self.facts_dir, level=2)
            self._n2 = (p2, Analyses(p2))
        return self._n2


def registry():
    from . import rules_limits
    reg = {
        'C02': rules_limits.check_C02,
    }
    for mod, names in (('rules_limits', ('C03', 'C07')), ('rules_fw', ('C04', 'C05', 'C06', 'C08', 'C09', 'C10')), ('rules_c01', ('C01',)),
                       ('rules_valid', ('C11', 'C12', 'C13')), ('rules_sim', ('C15', 'C16', 'C17', 'C18', 'C19')),
                       ('rules_ffi', ('C20',))):
        try:
            m = __import__('sa.' + mod, fromlist=['x'])
        except ImportError as e:
            if ('sa.' + mod) in str(e) or mod in str(e):
                continue
            raise
        for n in names:
            f = getattr(m, 'check_' + n, None)
            if f:
                reg[n] = f
    return reg


def pruned_edges(ctx):
    """number of CFG edges removed by the known-variant / exhaustive-switch pre-pass in the workspace crates"""
    n = 0
    for fn in ctx.prog.fns.values():
        if fn.has_body and fn.crate in ('maybenot', 'maybenot_simulator', 'maybenot_ffi'):
            n += len(ctx.an.get(fn).cfg.pruned)
    return n


def thorough(a, reg, rep):
    """second configuration (default features) must agree; mutant self-test of the rules (informational)"""
    from . import selftest
    if a.facts_default:
        sub = Report(a.pid, 'thorough-default-features')
        try:
            prog2 = Program(a.facts_default)
            ctx2 = Ctx(prog2, 'quick', a.facts_default, {'repo': a.repo})
            reg[a.pid](ctx2, sub)
        except AnchorMissing as e:
            # the v1 parser only exists with the `parsing` feature: its anchors may be absent here
            sub.ob(a.pid + '.anchor', '<anchor>', 'default-features:' + str(e), 'parse_v1' in str(e) or 'parsing' in str(e), str(e))
        bad = [o for o in sub.obligations if not o['ok']]
        known = {o['key'] for o in rep.obligations if not o['ok']}
        for o in bad:
            if o['key'] in known:
                continue
            rep.ob(o['rule'], o['fn'], 'default-features:' + o['construct'], False, '[build without the parsing feature] ' + o['detail'], site=o['site'])
        rep.extra['default_feature_config'] = {'obligations': len(sub.obligations), 'violations': len(bad)}
    res = selftest.run(a.pid, a.repo)
    rep.extra['mutant_selftest'] = {'catalogue': len(res), 'detected': sum(1 for r in res if r[1] == 'detected'),
                                    'missed': [r[0] for r in res if r[1] == 'MISSED'], 'skipped': [r[0] for r in res if r[1] == 'skipped'],
                                    'details': [{'mutant': r[0], 'result': r[1], 'note': r[2]} for r in res]}
    for r in res:
        if r[1] == 'MISSED':
            print('SELFTEST-WARNING: property=%s mutant %s is no longer detected by this check (informational)' % (a.pid, r[0]))


def main():
    ap = argparse.ArgumentParser()
    ap.add_argument('pid')
    ap.add_argument('--facts', required=True)
    ap.add_argument('--facts-default', default=None, help='facts of the default-feature build (thorough)')
    ap.add_argument('--fixtures', default=None, help='facts of the canary fixture crate (thorough)')
    ap.add_argument('--tier', default='quick')
    ap.add_argument('--repo', default='/repo')
    a = ap.parse_args()
    seed = int(os.environ.get('VERIF_SEED', '0') or 0)
    reg = registry()
    if a.pid not in reg:
        print('no check for', a.pid)
        return 2

    def run_once(level):
        rep = Report(a.pid, a.tier, seed)
        expl = ''
        try:
            prog = Program(a.facts, level=level)
            ctx = Ctx(prog, a.tier, a.facts, {'facts_default': a.facts_default, 'fixtures': a.fixtures, 'repo': a.repo})
            expl = reg[a.pid](ctx, rep)
            npr = pruned_edges(ctx)
            rep.extra['pruned_infeasible_edges'] = npr
            rep.rule('engine.P0', 'the CFG pre-pass that removes impossible edges (`Err(..)?` with a literal Err, exhaustive discriminant switches) recognised its idioms: a drift in rustc naming would otherwise surface as spurious paths')
            rep.count_floor('engine.P0', 'infeasible edges pruned in the workspace crates', npr, 300)
            rep.extra['normal_form'] = {
                'level': level,
                'helpers_inlined': list(prog.inlined_helpers), 'helpers_absorbed': sorted(prog.absorbed),
                'renamed_private_functions': {k: list(v) for k, v in prog.renamed.items()},
                'results_threaded': dict(getattr(prog, 'threaded', {})), 'side_selections_split': dict(getattr(prog, 'split', {})),
                'combinators_expanded': dict(getattr(prog, 'expanded', {})), 'scalarised': dict(getattr(prog, 'scalarised', {})),
            }
            if a.tier == 'thorough' and level == 1:
                thorough(a, reg, rep)
        except AnchorMissing as e:
            rep.fail_closed(a.pid + '.anchor', str(e))
            expl = 'anchor missing: ' + str(e)
        except Exception as e:  # internal error: fail closed, never pass silently
            traceback.print_exc()
            rep.fail_closed(a.pid + '.internal', 'internal error %s: %s' % (type(e).__name__, e))
            expl = 'internal error'
        return rep, expl

    rep, expl = run_once(int(os.environ.get('VERIF_LEVEL', '1')))
    if rep.new_violations() and not os.environ.get('VERIF_NO_N2'):
        # second normal form of the SAME program (Option/Result combinators expanded into matches, closures spliced in).
        # Both forms are behaviourally the program under analysis; a rule is a necessary condition of the property on
        # the program, so it must hold on every normal form: the check passes when it passes on one of them.
        rep2, expl2 = run_once(2)
        if not rep2.new_violations():
            rep2.extra['normal_form']['first_form_failed'] = [o['key'] for o in rep.new_violations()][:20]
            rep2.t0 = rep.t0
            if a.tier == 'thorough':
                for k in ('default_feature_config', 'mutant_selftest'):
                    if k in rep.extra:
                        rep2.extra[k] = rep.extra[k]
            rep, expl = rep2, expl2
    return rep.finish('other', expl or '')


if __name__ == '__main__':
    sys.exit(main())
