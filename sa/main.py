"""entry point: python3 -m sa.main <PID> --facts <dir> [--tier quick|thorough]"""
import argparse
import os
import sys
import traceback

from .core import Program, AnchorMissing
from .paths import Analyses
from .report import Report


class Ctx:
    def __init__(self, prog, tier, facts_dir, extra=None):
        self.prog = prog
        self.an = Analyses(prog)
        self.tier = tier
        self.facts_dir = facts_dir
        self.extra = extra or {}


def registry():
    from . import rules_limits
    reg = {
        'C02': rules_limits.check_C02,
    }
    for mod, names in (('rules_limits', ('C03', 'C07')), ('rules_fw', ('C04', 'C05', 'C06', 'C08', 'C09', 'C10')), ('rules_c01', ('C01',)),
                       ('rules_valid', ('C11', 'C12', 'C13')), ('rules_sim', ('C15', 'C16', 'C17', 'C18', 'C19')),
                       ('rules_ffi', ('C20',))):
        try:
            m = __import__('sa.' + mod, fromlist=['x'])
        except ImportError as e:
            if ('sa.' + mod) in str(e) or mod in str(e):
                continue
            raise
        for n in names:
            f = getattr(m, 'check_' + n, None)
            if f:
                reg[n] = f
    return reg


def main():
    ap = argparse.ArgumentParser()
    ap.add_argument('pid')
    ap.add_argument('--facts', required=True)
    ap.add_argument('--facts-default', default=None, help='facts of the default-feature build (thorough)')
    ap.add_argument('--fixtures', default=None, help='facts of the canary fixture crate (thorough)')
    ap.add_argument('--tier', default='quick')
    ap.add_argument('--repo', default='/repo')
    a = ap.parse_args()
    seed = int(os.environ.get('VERIF_SEED', '0') or 0)
    rep = Report(a.pid, a.tier, seed)
    reg = registry()
    if a.pid not in reg:
        print('no check for', a.pid)
        return 2
    try:
        prog = Program(a.facts)
        ctx = Ctx(prog, a.tier, a.facts, {'facts_default': a.facts_default, 'fixtures': a.fixtures, 'repo': a.repo})
        expl = reg[a.pid](ctx, rep)
    except AnchorMissing as e:
        rep.fail_closed(a.pid + '.anchor', str(e))
        expl = 'anchor missing: ' + str(e)
    except Exception as e:  # internal error: fail closed, never pass silently
        traceback.print_exc()
        rep.fail_closed(a.pid + '.internal', 'internal error %s: %s' % (type(e).__name__, e))
        expl = 'internal error'
    return rep.finish('other', expl or '')


if __name__ == '__main__':
    sys.exit(main())
