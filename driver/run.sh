#!/bin/bash
# usage: run.sh <repo dir> <facts out dir> [features]   -- extracts facts with a fresh target dir
set -e
REPO=$1; OUT=$2; FEAT=${3:-parsing}
T=$(mktemp -d /tmp/mnvt.XXXXXX)
trap 'rm -rf "$T"' EXIT
mkdir -p "$OUT"
cd "$REPO"
FEATARG=""
if [ -n "$FEAT" ] && [ "$FEAT" != "none" ]; then FEATARG="--features $FEAT"; fi
LD_LIBRARY_PATH=$(rustc +nightly --print sysroot)/lib \
RUSTFLAGS="-Zmir-opt-level=0 -Zalways-encode-mir -Awarnings" \
RUSTC_WRAPPER=/verif/driver/target/release/mnv-facts \
MNV_FACTS_DIR="$OUT" \
MNV_FULL=maybenot,maybenot_ffi,maybenot_simulator,rand_distr \
MNV_EDGES=rand,rand_core,rand_chacha,rand_xoshiro,flate2,bincode,base64,hex,byteorder,sha256,enum_map,log,num_traits,getrandom,ppv_lite86,miniz_oxide,crc32fast,adler2,adler,serde,serde_json,simple_error,libm \
CARGO_TARGET_DIR="$T" CARGO_NET_OFFLINE=true \
cargo +nightly check --offline -q -p maybenot $FEATARG -p maybenot-ffi -p maybenot-simulator
