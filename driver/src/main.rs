//! mnv-facts: a rustc driver that dumps type-checked program facts (ADTs, impls,
//! constants and MIR bodies with resolved callees) as JSON, one file per crate
//! per process.  Used as RUSTC_WRAPPER under `cargo +nightly check`.
//!
//! Environment:
//!   MNV_FACTS_DIR   directory to write `<crate>-<pid>.json` into (required to dump)
//!   MNV_FULL        comma separated crate names dumped with full bodies
//!   MNV_EDGES       comma separated crate names dumped with call edges only
#![feature(rustc_private)]

extern crate rustc_abi;
extern crate rustc_driver;
extern crate rustc_hir;
extern crate rustc_interface;
extern crate rustc_middle;
extern crate rustc_session;
extern crate rustc_span;

use rustc_driver::Compilation;
use rustc_hir::def::DefKind;
use rustc_hir::def_id::{DefId, LOCAL_CRATE};
use rustc_middle::mir::{
    self, AggregateKind, BasicBlockData, Body, BorrowKind, CastKind, Const, ConstValue, Operand,
    Place, PlaceElem, Rvalue, StatementKind, TerminatorKind, UnwindAction,
};
use rustc_middle::ty::print::{with_crate_prefix, with_no_trimmed_paths, with_no_visible_paths};
use rustc_middle::ty::{self, Instance, Ty, TyCtxt, TypeVisitableExt, TypingEnv};
use std::fmt::Write as _;

// ---------------------------------------------------------------- JSON helpers

fn esc(s: &str) -> String {
    let mut o = String::with_capacity(s.len() + 2);
    o.push('"');
    for c in s.chars() {
        match c {
            '"' => o.push_str("\\\""),
            '\\' => o.push_str("\\\\"),
            '\n' => o.push_str("\\n"),
            '\r' => o.push_str("\\r"),
            '\t' => o.push_str("\\t"),
            c if (c as u32) < 0x20 => {
                let _ = write!(o, "\\u{:04x}", c as u32);
            }
            c => o.push(c),
        }
    }
    o.push('"');
    o
}

fn arr(v: &[String]) -> String {
    format!("[{}]", v.join(","))
}

fn obj(v: &[(&str, String)]) -> String {
    let mut o = String::from("{");
    for (i, (k, val)) in v.iter().enumerate() {
        if i > 0 {
            o.push(',');
        }
        o.push_str(&esc(k));
        o.push(':');
        o.push_str(val);
    }
    o.push('}');
    o
}

fn b(x: bool) -> String {
    if x { "true".into() } else { "false".into() }
}

// ---------------------------------------------------------------- naming

fn crate_name(tcx: TyCtxt<'_>, def_id: DefId) -> String {
    tcx.crate_name(def_id.krate).to_string()
}

/// Stable key of a definition: `<crate>::<def path data>`
fn def_key(tcx: TyCtxt<'_>, def_id: DefId) -> String {
    format!("{}{}", crate_name(tcx, def_id), tcx.def_path(def_id).to_string_no_crate_verbose())
}

fn def_str(tcx: TyCtxt<'_>, def_id: DefId) -> String {
    with_no_visible_paths!(with_crate_prefix!(with_no_trimmed_paths!(tcx.def_path_str(def_id))))
}

fn ty_str(t: Ty<'_>) -> String {
    with_no_visible_paths!(with_crate_prefix!(with_no_trimmed_paths!(t.to_string())))
}

fn span_str(tcx: TyCtxt<'_>, sp: rustc_span::Span) -> String {
    let sm = tcx.sess.source_map();
    let sp = sp.source_callsite();
    let lo = sm.lookup_char_pos(sp.lo());
    let hi = sm.lookup_char_pos(sp.hi());
    let name = match &lo.file.name {
        rustc_span::FileName::Real(r) => match r.local_path() {
            Some(p) => p.to_string_lossy().to_string(),
            None => format!("{:?}", lo.file.name),
        },
        other => format!("{:?}", other),
    };
    format!("{}:{}-{}", name, lo.line, hi.line)
}

fn line_of(tcx: TyCtxt<'_>, sp: rustc_span::Span) -> usize {
    let sm = tcx.sess.source_map();
    sm.lookup_char_pos(sp.source_callsite().lo()).line
}

// ---------------------------------------------------------------- MIR dumping

struct Cx<'a, 'tcx> {
    tcx: TyCtxt<'tcx>,
    body: &'a Body<'tcx>,
    owner: DefId,
    env: TypingEnv<'tcx>,
}

impl<'a, 'tcx> Cx<'a, 'tcx> {
    fn place(&self, p: Place<'tcx>) -> String {
        let tcx = self.tcx;
        let mut projs: Vec<String> = Vec::new();
        for (base, elem) in p.iter_projections() {
            let bty = base.ty(self.body, tcx);
            match elem {
                PlaceElem::Deref => {
                    if bty.ty.is_raw_ptr() {
                        projs.push("\"*raw\"".into());
                    } else {
                        projs.push("\"*\"".into());
                    }
                }
                PlaceElem::Field(f, fty) => {
                    let mut name = format!("{}", f.index());
                    let mut adt = String::new();
                    if let ty::Adt(def, _) = bty.ty.kind() {
                        let vi = bty.variant_index.unwrap_or(rustc_abi::FIRST_VARIANT);
                        if def.variants().len() > vi.index() {
                            let v = def.variant(vi);
                            if v.fields.len() > f.index() {
                                name = v.fields[f].name.to_string();
                            }
                        }
                        adt = def_str(tcx, def.did());
                    }
                    projs.push(obj(&[
                        ("f", format!("{}", f.index())),
                        ("n", esc(&name)),
                        ("adt", esc(&adt)),
                        ("ty", esc(&ty_str(fty))),
                    ]));
                }
                PlaceElem::Downcast(name, vi) => {
                    let n = match name {
                        Some(s) => s.to_string(),
                        None => format!("{}", vi.index()),
                    };
                    projs.push(obj(&[("dc", esc(&n)), ("vi", format!("{}", vi.index()))]));
                }
                PlaceElem::Index(l) => {
                    projs.push(obj(&[("ix", format!("{}", l.index()))]));
                }
                PlaceElem::ConstantIndex { offset, min_length, from_end } => {
                    projs.push(obj(&[
                        ("ci", format!("{}", offset)),
                        ("min", format!("{}", min_length)),
                        ("fe", b(from_end)),
                    ]));
                }
                PlaceElem::Subslice { from, to, from_end } => {
                    projs.push(obj(&[
                        ("sub", format!("[{},{}]", from, to)),
                        ("fe", b(from_end)),
                    ]));
                }
                other => {
                    projs.push(obj(&[("other", esc(&format!("{:?}", other)))]));
                }
            }
        }
        obj(&[("l", format!("{}", p.local.index())), ("pr", arr(&projs))])
    }

    fn scalar_json(&self, s: mir::interpret::Scalar, t: Ty<'tcx>) -> Option<String> {
        match s {
            mir::interpret::Scalar::Int(i) => {
                let bits = i.to_bits_unchecked();
                let size = i.size().bytes();
                let mut v = vec![
                    ("bits", esc(&format!("{}", bits))),
                    ("size", format!("{}", size)),
                ];
                match t.kind() {
                    ty::Bool => v.push(("val", esc(if bits != 0 { "true" } else { "false" }))),
                    ty::Int(_) => {
                        let sh = 128 - (size * 8) as u32;
                        let sv = ((bits as i128) << sh) >> sh;
                        v.push(("val", esc(&format!("{}", sv))));
                    }
                    ty::Uint(_) => v.push(("val", esc(&format!("{}", bits)))),
                    ty::Float(ft) => {
                        let s = match ft.bit_width() {
                            32 => format!("{:?}", f32::from_bits(bits as u32)),
                            64 => format!("{:?}", f64::from_bits(bits as u64)),
                            _ => format!("bits{}", bits),
                        };
                        v.push(("val", esc(&s)));
                    }
                    ty::Char => v.push(("val", esc(&format!("{}", bits)))),
                    _ => v.push(("val", esc(&format!("{}", bits)))),
                }
                Some(obj(&v))
            }
            _ => None,
        }
    }

    fn constant(&self, c: &mir::ConstOperand<'tcx>) -> String {
        let tcx = self.tcx;
        let cty = c.const_.ty();
        let mut v: Vec<(&str, String)> = vec![("ty", esc(&ty_str(cty)))];
        // function items and closures: zero sized, identified by type
        match cty.kind() {
            ty::FnDef(def_id, args) => {
                v.push(("fn", self.callee(*def_id, args)));
                return obj(&v);
            }
            _ => {}
        }
        match c.const_ {
            Const::Unevaluated(uv, _) => {
                if let Some(p) = uv.promoted {
                    v.push(("promoted", format!("{}", p.index())));
                } else {
                    v.push(("def", esc(&def_key(tcx, uv.def))));
                    v.push(("defstr", esc(&def_str(tcx, uv.def))));
                }
            }
            _ => {}
        }
        // try to evaluate to a scalar
        if let Some(si) = c.const_.try_eval_scalar(tcx, self.env) {
            if let Some(j) = self.scalar_json(si, cty) {
                v.push(("scalar", j));
            } else if let mir::interpret::Scalar::Ptr(ptr, _) = si {
                // pointer to a static or an anonymous allocation
                let alloc_id = ptr.provenance.alloc_id();
                match tcx.try_get_global_alloc(alloc_id) {
                    Some(mir::interpret::GlobalAlloc::Static(did)) => {
                        v.push(("static", esc(&def_key(tcx, did))));
                        v.push(("static_mut", b(tcx.is_mutable_static(did))));
                        let sty = tcx.type_of(did).instantiate_identity().skip_norm_wip();
                        v.push(("static_freeze", b(sty.is_freeze(tcx, self.env))));
                    }
                    Some(mir::interpret::GlobalAlloc::Function { instance }) => {
                        v.push(("fnptr", esc(&def_key(tcx, instance.def_id()))));
                    }
                    _ => {}
                }
            }
        } else if let Const::Val(cv, _) = c.const_ {
            match cv {
                ConstValue::ZeroSized => v.push(("zst", b(true))),
                ConstValue::Slice { .. } => {
                    v.push(("text", esc(&format!("{}", c.const_))));
                }
                _ => {}
            }
        }
        if v.len() == 1 {
            let mut t = with_no_trimmed_paths!(format!("{}", c.const_));
            if t.len() > 200 {
                t.truncate(200);
            }
            v.push(("text", esc(&t)));
        }
        obj(&v)
    }

    fn operand(&self, o: &Operand<'tcx>) -> String {
        match o {
            Operand::Copy(p) => obj(&[("c", self.place(*p))]),
            Operand::Move(p) => obj(&[("m", self.place(*p))]),
            Operand::Constant(c) => obj(&[("k", self.constant(c))]),
            #[allow(unreachable_patterns)]
            other => obj(&[("other", esc(&format!("{:?}", other)))]),
        }
    }

    /// Describe a callee `def_id<args>`: declared path, resolved instance.
    fn callee(&self, def_id: DefId, args: ty::GenericArgsRef<'tcx>) -> String {
        let tcx = self.tcx;
        let mut v: Vec<(&str, String)> = Vec::new();
        v.push(("decl", esc(&def_key(tcx, def_id))));
        v.push(("declstr", esc(&def_str(tcx, def_id))));
        let argstrs: Vec<String> = args.iter().map(|a| esc(&with_no_visible_paths!(with_crate_prefix!(with_no_trimmed_paths!(a.to_string()))))).collect();
        v.push(("args", arr(&argstrs)));
        // is the declaration a trait method?
        let trait_of = tcx.trait_of_assoc(def_id);
        if let Some(t) = trait_of {
            v.push(("trait", esc(&def_str(tcx, t))));
            if let Some(self_ty) = args.get(0).and_then(|a| a.as_type()) {
                v.push(("self_ty", esc(&ty_str(self_ty))));
                let is_param = matches!(self_ty.kind(), ty::Param(_) | ty::Alias(..));
                v.push(("self_param", b(is_param)));
            }
        }
        if matches!(tcx.def_kind(def_id), DefKind::Fn | DefKind::AssocFn) {
            let sig = tcx.fn_sig(def_id).skip_binder();
            v.push(("unsafe", b(sig.safety().is_unsafe())));
        }
        if tcx.intrinsic(def_id).is_some() {
            v.push(("intrinsic", b(true)));
        }
        let mut resolved = false;
        if !args.has_escaping_bound_vars() {
            if let Ok(Some(inst)) = Instance::try_resolve(tcx, self.env, def_id, args) {
                let rid = inst.def_id();
                let kind = match inst.def {
                    ty::InstanceKind::Item(_) => "item",
                    ty::InstanceKind::Intrinsic(_) => "intrinsic",
                    ty::InstanceKind::Virtual(..) => "virtual",
                    ty::InstanceKind::ClosureOnceShim { .. } => "closure_once_shim",
                    ty::InstanceKind::FnPtrShim(..) => "fnptr_shim",
                    ty::InstanceKind::DropGlue(..) => "drop_glue",
                    ty::InstanceKind::CloneShim(..) => "clone_shim",
                    ty::InstanceKind::ReifyShim(..) => "reify_shim",
                    _ => "other_shim",
                };
                // a trait method that resolves to itself is not resolved
                let still_trait = tcx.trait_of_assoc(rid).is_some()
                    && !matches!(inst.def, ty::InstanceKind::Virtual(..))
                    && tcx.defaultness(rid).has_value() == false;
                if !still_trait {
                    resolved = true;
                }
                v.push(("kind", esc(kind)));
                v.push(("key", esc(&def_key(tcx, rid))));
                v.push(("str", esc(&def_str(tcx, rid))));
                let rargs: Vec<String> =
                    inst.args.iter().map(|a| esc(&with_no_visible_paths!(with_crate_prefix!(with_no_trimmed_paths!(a.to_string()))))).collect();
                v.push(("rargs", arr(&rargs)));
                v.push(("crate", esc(&crate_name(tcx, rid))));
                v.push(("has_mir", b(tcx.is_mir_available(rid))));
                if let Some(imp) = tcx.impl_of_assoc(rid) {
                    let st = tcx.type_of(imp).instantiate_identity().skip_norm_wip();
                    v.push(("impl_self", esc(&ty_str(st))));
                }
            }
        }
        v.push(("resolved", b(resolved)));
        obj(&v)
    }

    fn rvalue(&self, rv: &Rvalue<'tcx>) -> String {
        let tcx = self.tcx;
        match rv {
            Rvalue::Use(o, _) => obj(&[("k", esc("use")), ("x", self.operand(o))]),
            Rvalue::Repeat(o, n) => obj(&[
                ("k", esc("repeat")),
                ("x", self.operand(o)),
                ("n", esc(&format!("{}", n))),
            ]),
            Rvalue::Ref(_, bk, p) => obj(&[
                ("k", esc("ref")),
                ("mut", b(matches!(bk, BorrowKind::Mut { .. }))),
                ("p", self.place(*p)),
            ]),
            Rvalue::RawPtr(kind, p) => obj(&[
                ("k", esc("rawptr")),
                ("mut", b(format!("{:?}", kind).contains("Mut"))),
                ("p", self.place(*p)),
            ]),
            Rvalue::ThreadLocalRef(d) => obj(&[("k", esc("tls")), ("def", esc(&def_key(tcx, *d)))]),
            Rvalue::Cast(kind, o, t) => {
                let ks = match kind {
                    CastKind::IntToInt => "IntToInt".to_string(),
                    CastKind::FloatToInt => "FloatToInt".to_string(),
                    CastKind::FloatToFloat => "FloatToFloat".to_string(),
                    CastKind::IntToFloat => "IntToFloat".to_string(),
                    CastKind::PtrToPtr => "PtrToPtr".to_string(),
                    CastKind::Transmute => "Transmute".to_string(),
                    other => format!("{:?}", other),
                };
                let from = o.ty(self.body, tcx);
                obj(&[
                    ("k", esc("cast")),
                    ("ck", esc(&ks)),
                    ("x", self.operand(o)),
                    ("from", esc(&ty_str(from))),
                    ("ty", esc(&ty_str(*t))),
                ])
            }
            Rvalue::BinaryOp(op, bx) => {
                let (l, r) = &**bx;
                obj(&[
                    ("k", esc("bin")),
                    ("op", esc(&format!("{:?}", op))),
                    ("l", self.operand(l)),
                    ("r", self.operand(r)),
                    ("lty", esc(&ty_str(l.ty(self.body, tcx)))),
                ])
            }
            Rvalue::UnaryOp(op, o) => obj(&[
                ("k", esc("un")),
                ("op", esc(&format!("{:?}", op))),
                ("x", self.operand(o)),
                ("xty", esc(&ty_str(o.ty(self.body, tcx)))),
            ]),
            Rvalue::Discriminant(p) => {
                let pty = p.ty(self.body, tcx).ty;
                obj(&[("k", esc("discr")), ("p", self.place(*p)), ("ty", esc(&ty_str(pty)))])
            }
            Rvalue::Aggregate(kind, ops) => {
                let opsj: Vec<String> = ops.iter().map(|o| self.operand(o)).collect();
                match &**kind {
                    AggregateKind::Adt(did, vi, _, _, active) => {
                        let def = tcx.adt_def(*did);
                        let v = def.variant(*vi);
                        let names: Vec<String> = match active {
                            Some(f) => vec![esc(&v.fields[*f].name.to_string())],
                            None => v.fields.iter().map(|f| esc(&f.name.to_string())).collect(),
                        };
                        obj(&[
                            ("k", esc("agg")),
                            ("ak", esc("adt")),
                            ("adt", esc(&def_str(tcx, *did))),
                            ("variant", esc(&v.name.to_string())),
                            ("vi", format!("{}", vi.index())),
                            ("fields", arr(&names)),
                            ("ops", arr(&opsj)),
                        ])
                    }
                    AggregateKind::Tuple => {
                        obj(&[("k", esc("agg")), ("ak", esc("tuple")), ("ops", arr(&opsj))])
                    }
                    AggregateKind::Array(_) => {
                        obj(&[("k", esc("agg")), ("ak", esc("array")), ("ops", arr(&opsj))])
                    }
                    AggregateKind::Closure(did, _) => obj(&[
                        ("k", esc("agg")),
                        ("ak", esc("closure")),
                        ("def", esc(&def_key(tcx, *did))),
                        ("ops", arr(&opsj)),
                    ]),
                    AggregateKind::RawPtr(..) => {
                        obj(&[("k", esc("agg")), ("ak", esc("rawptr")), ("ops", arr(&opsj))])
                    }
                    other => obj(&[
                        ("k", esc("agg")),
                        ("ak", esc("other")),
                        ("text", esc(&format!("{:?}", other))),
                        ("ops", arr(&opsj)),
                    ]),
                }
            }
            Rvalue::CopyForDeref(p) => {
                obj(&[("k", esc("use")), ("x", obj(&[("c", self.place(*p))]))])
            }
            other => obj(&[("k", esc("other")), ("text", esc(&format!("{:?}", other)))]),
        }
    }

    fn block(&self, bb: &BasicBlockData<'tcx>) -> String {
        let tcx = self.tcx;
        let mut stmts: Vec<String> = Vec::new();
        for s in &bb.statements {
            match &s.kind {
                StatementKind::Assign(bx) => {
                    let (p, rv) = &**bx;
                    stmts.push(obj(&[
                        ("p", self.place(*p)),
                        ("rv", self.rvalue(rv)),
                        ("ln", format!("{}", line_of(tcx, s.source_info.span))),
                        ("exp", b(s.source_info.span.from_expansion())),
                    ]));
                }
                StatementKind::SetDiscriminant { place, variant_index } => {
                    stmts.push(obj(&[
                        ("p", self.place(**place)),
                        (
                            "rv",
                            obj(&[
                                ("k", esc("setdiscr")),
                                ("vi", format!("{}", variant_index.index())),
                            ]),
                        ),
                        ("ln", format!("{}", line_of(tcx, s.source_info.span))),
                        ("exp", b(s.source_info.span.from_expansion())),
                    ]));
                }
                StatementKind::Intrinsic(i) => {
                    stmts.push(obj(&[
                        ("intrinsic", esc(&format!("{:?}", i))),
                        ("ln", format!("{}", line_of(tcx, s.source_info.span))),
                    ]));
                }
                _ => {}
            }
        }
        let term = bb.terminator();
        let ln = line_of(tcx, term.source_info.span);
        let exp = term.source_info.span.from_expansion();
        let unwind = |u: &UnwindAction| -> String {
            match u {
                UnwindAction::Cleanup(bb) => format!("{}", bb.index()),
                _ => "null".into(),
            }
        };
        let t = match &term.kind {
            TerminatorKind::Goto { target } => {
                obj(&[("k", esc("goto")), ("t", format!("{}", target.index()))])
            }
            TerminatorKind::SwitchInt { discr, targets } => {
                let ts: Vec<String> = targets
                    .iter()
                    .map(|(v, bb)| format!("[{},{}]", esc(&format!("{}", v)), bb.index()))
                    .collect();
                obj(&[
                    ("k", esc("switch")),
                    ("d", self.operand(discr)),
                    ("dty", esc(&ty_str(discr.ty(self.body, tcx)))),
                    ("ts", arr(&ts)),
                    ("o", format!("{}", targets.otherwise().index())),
                ])
            }
            TerminatorKind::Return => obj(&[("k", esc("return"))]),
            TerminatorKind::Unreachable => obj(&[("k", esc("unreachable"))]),
            TerminatorKind::UnwindResume => obj(&[("k", esc("resume"))]),
            TerminatorKind::UnwindTerminate(_) => obj(&[("k", esc("terminate"))]),
            TerminatorKind::Drop { place, target, unwind: u, .. } => obj(&[
                ("k", esc("drop")),
                ("p", self.place(*place)),
                ("t", format!("{}", target.index())),
                ("u", unwind(u)),
            ]),
            TerminatorKind::Call { func, args, destination, target, unwind: u, fn_span, .. } => {
                let argsj: Vec<String> = args.iter().map(|a| self.operand(&a.node)).collect();
                let fty = func.ty(self.body, tcx);
                let f = match fty.kind() {
                    ty::FnDef(did, gargs) => self.callee(*did, gargs),
                    _ => obj(&[("indirect", self.operand(func)), ("fty", esc(&ty_str(fty)))]),
                };
                obj(&[
                    ("k", esc("call")),
                    ("f", f),
                    ("a", arr(&argsj)),
                    ("d", self.place(*destination)),
                    ("t", match target { Some(t) => format!("{}", t.index()), None => "null".into() }),
                    ("u", unwind(u)),
                    ("fexp", b(fn_span.from_expansion())),
                ])
            }
            TerminatorKind::TailCall { func, args, .. } => {
                let argsj: Vec<String> = args.iter().map(|a| self.operand(&a.node)).collect();
                let fty = func.ty(self.body, tcx);
                let f = match fty.kind() {
                    ty::FnDef(did, gargs) => self.callee(*did, gargs),
                    _ => obj(&[("indirect", self.operand(func))]),
                };
                obj(&[("k", esc("tailcall")), ("f", f), ("a", arr(&argsj))])
            }
            TerminatorKind::Assert { cond, expected, msg, target, unwind: u } => {
                let m = format!("{:?}", msg);
                let kind = m.split(|c: char| !c.is_alphanumeric()).next().unwrap_or("").to_string();
                let mut full = m.clone();
                if full.len() > 160 {
                    full.truncate(160);
                }
                obj(&[
                    ("k", esc("assert")),
                    ("c", self.operand(cond)),
                    ("e", b(*expected)),
                    ("mk", esc(&kind)),
                    ("msg", esc(&full)),
                    ("t", format!("{}", target.index())),
                    ("u", unwind(u)),
                ])
            }
            other => {
                let mut s = format!("{:?}", other);
                if s.len() > 200 {
                    s.truncate(200);
                }
                let succ: Vec<String> =
                    term.successors().map(|b| format!("{}", b.index())).collect();
                obj(&[("k", esc("other")), ("text", esc(&s)), ("succ", arr(&succ))])
            }
        };
        obj(&[
            ("s", arr(&stmts)),
            ("t", t),
            ("ln", format!("{}", ln)),
            ("exp", b(exp)),
            ("cleanup", b(bb.is_cleanup)),
        ])
    }

    fn body_json(&self) -> String {
        let tcx = self.tcx;
        let body = self.body;
        let mut locals: Vec<String> = Vec::new();
        for (_l, d) in body.local_decls.iter_enumerated() {
            locals.push(obj(&[("ty", esc(&ty_str(d.ty)))]));
        }
        let mut dbg: Vec<String> = Vec::new();
        for vdi in &body.var_debug_info {
            if let mir::VarDebugInfoContents::Place(p) = vdi.value {
                dbg.push(obj(&[("name", esc(&vdi.name.to_string())), ("p", self.place(p))]));
            }
        }
        let blocks: Vec<String> = body.basic_blocks.iter().map(|bb| self.block(bb)).collect();
        let _ = tcx;
        obj(&[
            ("argc", format!("{}", body.arg_count)),
            ("locals", arr(&locals)),
            ("dbg", arr(&dbg)),
            ("blocks", arr(&blocks)),
        ])
    }
}

/// Call edges only: list of callee keys (resolved where possible) and statics.
fn edges_json<'tcx>(tcx: TyCtxt<'tcx>, owner: DefId, body: &Body<'tcx>) -> String {
    let env = TypingEnv::post_analysis(tcx, owner);
    let cx = Cx { tcx, body, owner, env };
    let mut calls: Vec<String> = Vec::new();
    let mut fnrefs: Vec<String> = Vec::new();
    let mut statics: Vec<String> = Vec::new();
    let mut tls: Vec<String> = Vec::new();
    let visit_op = |o: &Operand<'tcx>, fnrefs: &mut Vec<String>, statics: &mut Vec<String>| {
        if let Operand::Constant(c) = o {
            match c.const_.ty().kind() {
                ty::FnDef(d, a) => fnrefs.push(cx.callee(*d, a)),
                ty::Closure(d, _) => fnrefs.push(obj(&[("key", esc(&def_key(tcx, *d))), ("resolved", b(true)), ("kind", esc("closure"))])),
                _ => {
                    if let Some(mir::interpret::Scalar::Ptr(ptr, _)) = c.const_.try_eval_scalar(tcx, env) {
                        if let Some(mir::interpret::GlobalAlloc::Static(did)) =
                            tcx.try_get_global_alloc(ptr.provenance.alloc_id())
                        {
                            let sty = tcx.type_of(did).instantiate_identity().skip_norm_wip();
                            statics.push(obj(&[
                                ("static", esc(&def_key(tcx, did))),
                                ("static_mut", b(tcx.is_mutable_static(did))),
                                ("static_freeze", b(sty.is_freeze(tcx, env))),
                            ]));
                        }
                    }
                }
            }
        }
    };
    for bb in body.basic_blocks.iter() {
        for s in &bb.statements {
            if let StatementKind::Assign(bx) = &s.kind {
                let (_, rv) = &**bx;
                match rv {
                    Rvalue::Use(o, _) | Rvalue::Cast(_, o, _) | Rvalue::UnaryOp(_, o) | Rvalue::Repeat(o, _) => {
                        visit_op(o, &mut fnrefs, &mut statics)
                    }
                    Rvalue::BinaryOp(_, bx) => {
                        visit_op(&bx.0, &mut fnrefs, &mut statics);
                        visit_op(&bx.1, &mut fnrefs, &mut statics);
                    }
                    Rvalue::Aggregate(k, ops) => {
                        if let AggregateKind::Closure(d, _) = &**k {
                            fnrefs.push(obj(&[("key", esc(&def_key(tcx, *d))), ("resolved", b(true)), ("kind", esc("closure"))]));
                        }
                        for o in ops.iter() {
                            visit_op(o, &mut fnrefs, &mut statics);
                        }
                    }
                    Rvalue::ThreadLocalRef(d) => tls.push(esc(&def_key(tcx, *d))),
                    _ => {}
                }
            }
        }
        match &bb.terminator().kind {
            TerminatorKind::Call { func, args, .. } | TerminatorKind::TailCall { func, args, .. } => {
                let fty = func.ty(body, tcx);
                if let ty::FnDef(d, a) = fty.kind() {
                    calls.push(cx.callee(*d, a));
                } else {
                    calls.push(obj(&[("indirect", b(true))]));
                }
                for a in args.iter() {
                    visit_op(&a.node, &mut fnrefs, &mut statics);
                }
            }
            TerminatorKind::Drop { place, .. } => {
                let t = place.ty(body, tcx).ty;
                calls.push(obj(&[("drop", esc(&ty_str(t)))]));
            }
            _ => {}
        }
    }
    obj(&[("calls", arr(&calls)), ("fnrefs", arr(&fnrefs)), ("statics", arr(&statics)), ("tls", arr(&tls))])
}

// ---------------------------------------------------------------- items

fn fn_header<'tcx>(tcx: TyCtxt<'tcx>, def_id: DefId) -> Vec<(&'static str, String)> {
    let mut v: Vec<(&'static str, String)> = Vec::new();
    v.push(("key", esc(&def_key(tcx, def_id))));
    v.push(("path", esc(&def_str(tcx, def_id))));
    let kind = tcx.def_kind(def_id);
    v.push(("dk", esc(&format!("{:?}", kind))));
    v.push(("span", esc(&span_str(tcx, tcx.def_span(def_id)))));
    let name = tcx.opt_item_name(def_id).map(|s| s.to_string()).unwrap_or_default();
    v.push(("name", esc(&name)));
    if matches!(kind, DefKind::Fn | DefKind::AssocFn) {
        v.push(("vis", esc(&format!("{:?}", tcx.visibility(def_id)))));
        let sig = tcx.fn_sig(def_id).skip_binder();
        v.push(("abi", esc(&format!("{:?}", sig.abi()))));
        v.push(("unsafe", b(sig.safety().is_unsafe())));
        let attrs = tcx.codegen_fn_attrs(def_id);
        v.push((
            "no_mangle",
            b(attrs.flags.contains(rustc_middle::middle::codegen_fn_attrs::CodegenFnAttrFlags::NO_MANGLE)),
        ));
        let sk = sig.skip_binder();
        let ins: Vec<String> = sk.inputs().iter().map(|t| esc(&ty_str(*t))).collect();
        v.push(("inputs", arr(&ins)));
        v.push(("output", esc(&ty_str(sk.output()))));
    }
    if let Some(imp) = tcx.impl_of_assoc(def_id) {
        let st = tcx.type_of(imp).instantiate_identity().skip_norm_wip();
        v.push(("impl_self", esc(&ty_str(st))));
        if let ty::Adt(d, _) = st.kind() {
            v.push(("impl_adt", esc(&def_str(tcx, d.did()))));
        }
        if let Some(tr) = tcx.impl_opt_trait_ref(imp) {
            let tr = tr.instantiate_identity().skip_norm_wip();
            v.push(("impl_trait", esc(&def_str(tcx, tr.def_id))));
        }
        v.push(("derived", b(tcx.is_automatically_derived(imp))));
    }
    if let Some(tr) = tcx.trait_of_assoc(def_id) {
        v.push(("trait_default", esc(&def_str(tcx, tr))));
    }
    if matches!(kind, DefKind::Closure) {
        let parent = tcx.typeck_root_def_id(def_id);
        v.push(("parent", esc(&def_key(tcx, parent))));
    }
    v
}

fn dump_crate<'tcx>(tcx: TyCtxt<'tcx>, full: bool) -> String {
    let cname = tcx.crate_name(LOCAL_CRATE).to_string();
    let mut adts: Vec<String> = Vec::new();
    let mut traits: Vec<String> = Vec::new();
    let mut impls: Vec<String> = Vec::new();
    let mut consts: Vec<String> = Vec::new();
    let mut statics: Vec<String> = Vec::new();
    let mut fns: Vec<String> = Vec::new();

    if full {
        for id in tcx.hir_crate_items(()).definitions() {
            let def_id = id.to_def_id();
            match tcx.def_kind(def_id) {
                DefKind::Struct | DefKind::Enum | DefKind::Union => {
                    let def = tcx.adt_def(def_id);
                    let mut variants: Vec<String> = Vec::new();
                    for (vi, v) in def.variants().iter_enumerated() {
                        let discr = if def.is_enum() {
                            format!("{}", def.discriminant_for_variant(tcx, vi).val)
                        } else {
                            "0".into()
                        };
                        let fields: Vec<String> = v
                            .fields
                            .iter()
                            .map(|f| {
                                let fty = tcx.type_of(f.did).instantiate_identity().skip_norm_wip();
                                let attrs: Vec<String> = attr_strings(tcx, f.did);
                                obj(&[
                                    ("name", esc(&f.name.to_string())),
                                    ("ty", esc(&ty_str(fty))),
                                    ("vis", esc(&format!("{:?}", f.vis))),
                                    ("pub", b(f.vis.is_public())),
                                    ("attrs", arr(&attrs)),
                                ])
                            })
                            .collect();
                        variants.push(obj(&[
                            ("name", esc(&v.name.to_string())),
                            ("discr", esc(&discr)),
                            ("fields", arr(&fields)),
                            ("attrs", arr(&attr_strings(tcx, v.def_id))),
                        ]));
                    }
                    let r = def.repr();
                    adts.push(obj(&[
                        ("key", esc(&def_key(tcx, def_id))),
                        ("path", esc(&def_str(tcx, def_id))),
                        ("name", esc(&tcx.item_name(def_id).to_string())),
                        ("kind", esc(if def.is_enum() { "enum" } else if def.is_union() { "union" } else { "struct" })),
                        ("repr_c", b(r.c())),
                        ("repr_int", esc(&match r.int { Some(i) => format!("{:?}", i), None => String::new() })),
                        ("span", esc(&span_str(tcx, tcx.def_span(def_id)))),
                        ("vis", esc(&format!("{:?}", tcx.visibility(def_id)))),
                        ("variants", arr(&variants)),
                        ("attrs", arr(&attr_strings(tcx, def_id))),
                    ]));
                }
                DefKind::Trait => {
                    let items: Vec<String> = tcx
                        .associated_items(def_id)
                        .in_definition_order()
                        .map(|i| {
                            obj(&[
                                ("name", esc(&i.name().to_string())),
                                ("kind", esc(&format!("{:?}", i.tag()))),
                                ("has_default", b(i.defaultness(tcx).has_value())),
                            ])
                        })
                        .collect();
                    traits.push(obj(&[
                        ("key", esc(&def_key(tcx, def_id))),
                        ("path", esc(&def_str(tcx, def_id))),
                        ("items", arr(&items)),
                    ]));
                }
                DefKind::Impl { .. } => {
                    let st = tcx.type_of(def_id).instantiate_identity().skip_norm_wip();
                    let tr = tcx
                        .impl_opt_trait_ref(def_id)
                        .map(|t| def_str(tcx, t.instantiate_identity().skip_norm_wip().def_id))
                        .unwrap_or_default();
                    let trfull = tcx
                        .impl_opt_trait_ref(def_id)
                        .map(|t| with_no_trimmed_paths!(t.instantiate_identity().skip_norm_wip().to_string()))
                        .unwrap_or_default();
                    let items: Vec<String> = tcx
                        .associated_items(def_id)
                        .in_definition_order()
                        .map(|i| {
                            obj(&[
                                ("name", esc(&i.name().to_string())),
                                ("key", esc(&def_key(tcx, i.def_id))),
                            ])
                        })
                        .collect();
                    impls.push(obj(&[
                        ("key", esc(&def_key(tcx, def_id))),
                        ("self_ty", esc(&ty_str(st))),
                        ("trait", esc(&tr)),
                        ("trait_ref", esc(&trfull)),
                        ("derived", b(tcx.is_automatically_derived(def_id))),
                        ("items", arr(&items)),
                        ("span", esc(&span_str(tcx, tcx.def_span(def_id)))),
                    ]));
                }
                DefKind::Const { .. } | DefKind::AssocConst { .. } => {
                    let t = tcx.type_of(def_id).instantiate_identity().skip_norm_wip();
                    let mut v: Vec<(&str, String)> = vec![
                        ("key", esc(&def_key(tcx, def_id))),
                        ("path", esc(&def_str(tcx, def_id))),
                        ("ty", esc(&ty_str(t))),
                        ("vis", esc(&format!("{:?}", tcx.visibility(def_id)))),
                    ];
                    if tcx.generics_of(def_id).is_empty() && !t.has_param() {
                        if let Ok(cv) = tcx.const_eval_poly(def_id) {
                            if let ConstValue::Scalar(mir::interpret::Scalar::Int(i)) = cv {
                                let bits = i.to_bits_unchecked();
                                v.push(("bits", esc(&format!("{}", bits))));
                                let val = match t.kind() {
                                    ty::Float(ft) if ft.bit_width() == 64 => format!("{:?}", f64::from_bits(bits as u64)),
                                    ty::Float(ft) if ft.bit_width() == 32 => format!("{:?}", f32::from_bits(bits as u32)),
                                    ty::Int(_) => {
                                        let sh = 128 - (i.size().bytes() * 8) as u32;
                                        format!("{}", ((bits as i128) << sh) >> sh)
                                    }
                                    _ => format!("{}", bits),
                                };
                                v.push(("val", esc(&val)));
                            } else if let ConstValue::Indirect { alloc_id, offset } = cv {
                                // small aggregate constants: record whether every byte is zero (e.g. `(false, false)`, `[0; 4]`)
                                if let Ok(layout) = tcx.layout_of(TypingEnv::fully_monomorphized().as_query_input(t)) {
                                    let size = layout.size;
                                    if size.bytes() <= 64 {
                                        if let rustc_middle::mir::interpret::GlobalAlloc::Memory(m) = tcx.global_alloc(alloc_id) {
                                            let a = m.inner();
                                            let start = offset.bytes() as usize;
                                            let end = start + size.bytes() as usize;
                                            if end <= a.len() && a.provenance().ptrs().is_empty() {
                                                let bytes = a.inspect_with_uninit_and_ptr_outside_interpreter(start..end);
                                                v.push(("allzero", b(bytes.iter().all(|x| *x == 0))));
                                            }
                                        }
                                    }
                                }
                            } else if let ConstValue::ZeroSized = cv {
                                v.push(("allzero", b(true)));
                            }
                        }
                    }
                    consts.push(obj(&v));
                }
                DefKind::Static { mutability, .. } => {
                    let t = tcx.type_of(def_id).instantiate_identity().skip_norm_wip();
                    let env = TypingEnv::post_analysis(tcx, def_id);
                    statics.push(obj(&[
                        ("key", esc(&def_key(tcx, def_id))),
                        ("path", esc(&def_str(tcx, def_id))),
                        ("ty", esc(&ty_str(t))),
                        ("mut", b(mutability.is_mut())),
                        ("freeze", b(t.is_freeze(tcx, env))),
                    ]));
                }
                _ => {}
            }
        }
    }

    for ldid in tcx.mir_keys(()) {
        let def_id = ldid.to_def_id();
        let kind = tcx.def_kind(def_id);
        let is_fn = matches!(kind, DefKind::Fn | DefKind::AssocFn | DefKind::Closure);
        if !is_fn {
            continue;
        }
        if tcx.is_constructor(def_id) {
            continue;
        }
        // coroutines etc. are not used in the analysed crates
        let body: &Body<'tcx> = tcx.optimized_mir(def_id);
        let mut v = fn_header(tcx, def_id);
        if full {
            let env = TypingEnv::post_analysis(tcx, def_id);
            let cx = Cx { tcx, body, owner: def_id, env };
            let _ = cx.owner;
            v.push(("body", cx.body_json()));
            let proms = tcx.promoted_mir(def_id);
            let pj: Vec<String> = proms
                .iter()
                .map(|pb| {
                    let pcx = Cx { tcx, body: pb, owner: def_id, env };
                    pcx.body_json()
                })
                .collect();
            v.push(("promoted", arr(&pj)));
        }
        v.push(("edges", edges_json(tcx, def_id, body)));
        fns.push(obj(&v));
    }

    obj(&[
        ("crate", esc(&cname)),
        ("full", b(full)),
        ("adts", arr(&adts)),
        ("traits", arr(&traits)),
        ("impls", arr(&impls)),
        ("consts", arr(&consts)),
        ("statics", arr(&statics)),
        ("fns", arr(&fns)),
    ])
}

fn attr_strings(tcx: TyCtxt<'_>, def_id: DefId) -> Vec<String> {
    let mut out = Vec::new();
    if let Some(l) = def_id.as_local() {
        let hir_id = tcx.local_def_id_to_hir_id(l);
        for a in tcx.hir_attrs(hir_id) {
            let mut s = format!("{:?}", a);
            if s.len() > 300 {
                s.truncate(300);
            }
            out.push(esc(&s));
        }
    }
    out
}

// ---------------------------------------------------------------- driver

struct Cb {
    dir: Option<String>,
    full: Vec<String>,
    edges: Vec<String>,
}

impl rustc_driver::Callbacks for Cb {
    fn after_analysis<'tcx>(
        &mut self,
        _compiler: &rustc_interface::interface::Compiler,
        tcx: TyCtxt<'tcx>,
    ) -> Compilation {
        let Some(dir) = &self.dir else { return Compilation::Continue };
        let cname = tcx.crate_name(LOCAL_CRATE).to_string();
        let full = self.full.iter().any(|c| *c == cname);
        let edges = self.edges.iter().any(|c| *c == cname);
        if !full && !edges {
            return Compilation::Continue;
        }
        // do not dump when there were errors
        if tcx.dcx().has_errors().is_some() {
            return Compilation::Continue;
        }
        let json = dump_crate(tcx, full);
        let path = format!("{}/{}-{}.json", dir, cname, std::process::id());
        let tmp = format!("{}.tmp", path);
        std::fs::write(&tmp, json).expect("write facts");
        std::fs::rename(&tmp, &path).expect("rename facts");
        Compilation::Continue
    }
}

fn main() {
    let mut args: Vec<String> = std::env::args().collect();
    // invoked as RUSTC_WRAPPER: argv[1] is the path of the real rustc
    if args.len() > 1 && (args[1].ends_with("rustc") || args[1].contains("/rustc")) {
        args.remove(1);
    }
    let split = |k: &str| -> Vec<String> {
        std::env::var(k)
            .unwrap_or_default()
            .split(',')
            .filter(|s| !s.is_empty())
            .map(|s| s.to_string())
            .collect()
    };
    let mut cb = Cb { dir: std::env::var("MNV_FACTS_DIR").ok(), full: split("MNV_FULL"), edges: split("MNV_EDGES") };
    rustc_driver::run_compiler(&args, &mut cb);
}
